#!/bin/bash
# Runs the repository's own test suite with the verification guard OFF (nothing under /repo is
# guarded: there are no source hooks).  Builds in a scratch directory outside /repo and /verif.
set -e
D=$(mktemp -d /var/tmp/verif-baseline-XXXXXX)
trap 'rm -rf "$D"' EXIT
cmake -S /repo -B "$D" -G Ninja -DCMAKE_BUILD_TYPE=Release > "$D/cfg.log" 2>&1 || { cat "$D/cfg.log"; exit 1; }
cmake --build "$D" -j 16 > "$D/build.log" 2>&1 || { tail -50 "$D/build.log"; exit 1; }
ctest --test-dir "$D" -j8 --timeout 900 --output-on-failure
for t in $(find "$D" -type f -executable \( -name 'concurrencyTests' -o -name 'libguarded_test' -o -name '*[tT]est*' \) | sort -u); do
  case "$t" in *.so|*CMakeFiles*) continue;; esac
  "$t" --gtest_brief=1 || exit 1
done
