#!/usr/bin/env python3
"""Regenerates MANIFEST.json from checks/registry.py so that it is always consistent with what check.py can decide."""
import json
import os
import sys
VERIF = os.path.dirname(os.path.abspath(__file__))
sys.path.insert(0, os.path.join(VERIF, "checks"))
import registry  # noqa: E402

PROPS, COMPONENTS = {}, {}
registry.register(PROPS, COMPONENTS)
all_ids = [json.loads(l)["id"] for l in open(os.path.join(VERIF, "properties.jsonl")) if l.strip()]
checks = []
for pid in all_ids:
    if pid not in PROPS:
        continue
    sp = PROPS[pid]
    checks.append(dict(
        property_id=pid,
        quick_cmd="python3 check.py %s --tier quick" % pid,
        thorough_cmd="python3 check.py %s --tier thorough" % pid,
        evidence_file="/verif/evidence/%s.json" % pid,
        replay_cmd_template="python3 check.py %s --replay {path}" % pid,
        engine="lean4+vsched",
        level_claimed=dict(category="proof", text=sp["level_text"], design_ref=sp.get("design_ref", "DESIGN.md §8." + pid)),
        level_note=sp["level_note"],
        technique=sp.get("technique", "Lean 4 theorem over an executable model + trace acceptance of the real headers against that model"),
    ))
na = [dict(property_id=pid, reason=registry.NOT_YET.get(pid, "not yet covered by the machinery at this commit; planned (DESIGN.md §12)"))
      for pid in all_ids if pid not in PROPS]
man = dict(
    version=1,
    setup_cmd="python3 check.py --setup",
    hooks=dict(
        guard="GMLC_TDC_CONCURRENCY_VERIF",
        enable="-DGMLC_TDC_CONCURRENCY_VERIF -include /verif/harness/vshim.hpp -fno-access-control (harness translation units only; "
               "the headers under /repo are compiled unmodified, no source hook exists)",
        baseline_off_cmd="bash /verif/baseline_off.sh",
        source_commits=[],
        add_only=True,
    ),
    engines=[dict(name="lean4+vsched", path="/verif/check.py", serves_properties=[c["property_id"] for c in checks],
                  kind_free_text="Lean 4 theorems over executable protocol models (lean/ConcVerif); the real headers run against "
                                 "substituted std primitives under a deterministic scheduler (harness/), every primitive-level trace is "
                                 "replayed through the model's step function (lean/Driver)")],
    checks=checks,
    not_applicable=na,
    notes="See DESIGN.md. Properties listed under not_applicable are not claimed at this commit.",
)
json.dump(man, open(os.path.join(VERIF, "MANIFEST.json"), "w"), indent=1)
print("MANIFEST.json: %d checks, %d not claimed" % (len(checks), len(na)))
