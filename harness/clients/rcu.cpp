// client: gmlc::libguarded::rcu_guarded<rcu_list<T, std::mutex, TAlloc<T>>>
//
// script config: "<elem>-<ctor>"   elem = int | obj (traced, non-trivially destructible)   ctor = d (default) | a (allocator)
// ops (one handle and one iterator per logical thread):
//   lr | lw            take a read / write handle (registration is lazy: first use of the handle)
//   rel                release (destroy) the handle
//   beg | nxt | der    it = h->begin() | ++it | read *it            (nxt/der/erc at end() are no-ops)
//   pf=k pb=k ef=k eb=k   push_front / push_back / emplace_front / emplace_back of value k (write handle)
//   pf=k! ...             the element's move/copy into the node throws (obj only)
//   pf=k!n ...            the allocation of the node fails (the allocator throws)
//   beg!z pf=k!z ...      the allocation of a log record fails: the registration of a not yet used handle
//   erc!z ers!z eri=i!z erv=k!z   ... the allocation of the zombie record inside erase
//                         (`afl N|Z` at the throw, `exc op` when the exception reaches the client; a fault that no
//                         allocation consumes is disarmed at the end of the op)
//   erc | ers          it = h->erase(it) | h->erase(it) with the result dropped      (write handle)
//   all                macro: for (it = begin; it != end; ++it) read *it        -> beg,(der,nxt)*
//   eri=i              macro: erase the i-th element (found by traversal)       -> beg,nxt^i,erc
//   erv=k              macro: erase the element with value k (found by traversal) -> beg,(der,nxt)*,erc
// Every primitive op is bracketed by `call op` / `ret op [result]`; macros by `mac op` / `mend op [values]`.
// At the end every thread releases its handle, then thread 0 destroys the list (`call dtor` .. `ret dtor`).
//
// Tracing allocator: blocks live in one fixed-address arena, are named by kind and allocation order (N0 N1 .. nodes,
// Z0 Z1 .. log records), are never reused (quarantine), fields are named N3 (= N3.next, offset 0) N3.back N3.deleted N3.data /
// Z5 (= Z5.next, offset 0) Z5.owner Z5.zombie_node; events `alo/con/des/fre`; the plain-access tap covers the whole arena.
#include "gmlc/libguarded/rcu_guarded.hpp"
#include "gmlc/libguarded/rcu_list.hpp"

#include "vclient.hpp"
#include <algorithm>
#include <cstring>
#include <set>
#include <sys/mman.h>
using namespace vclient;

#define NOTAP __attribute__((no_sanitize_thread))

// budget of spurious compare_exchange_weak failures (declared by the shim; weak so that a definition in vrt.cpp wins)
namespace verif {
__attribute__((weak)) int g_casfail_left = 0;
}

// ------------------------------------------------------------------------------------------------
// arena + block table
// ------------------------------------------------------------------------------------------------
namespace {
enum BState { B_ALLOC, B_CONS, B_DEST, B_FREED };
struct Block {
    char* base;
    size_t size;
    char kind;
    int id;
    BState st;
    std::string name() const { return std::string(1, kind) + std::to_string(id); }
};
constexpr size_t ARENA_SIZE = 1U << 20;
char* g_arena = nullptr;
size_t g_used = 0;
std::vector<Block> g_blocks;
int g_count[128];

void arena_reset()
{
    if (g_arena == nullptr) {
        void* want = reinterpret_cast<void*>(0x7e0000000000ULL);
        void* p = mmap(want, ARENA_SIZE, PROT_READ | PROT_WRITE, MAP_PRIVATE | MAP_ANONYMOUS | MAP_FIXED_NOREPLACE, -1, 0);
        if (p == MAP_FAILED) {
            p = mmap(nullptr, ARENA_SIZE, PROT_READ | PROT_WRITE, MAP_PRIVATE | MAP_ANONYMOUS, -1, 0);
        }
        g_arena = static_cast<char*>(p);
    }
    memset(g_arena, 0, g_used);
    g_used = 0;
    g_blocks.clear();
    memset(g_count, 0, sizeof g_count);
}
NOTAP Block* block_of(const void* p)
{
    auto* c = static_cast<const char*>(p);
    for (auto& b : g_blocks) {
        if (c >= b.base && c < b.base + b.size) {
            return &b;
        }
    }
    return nullptr;
}

template <class U, class = void>
struct is_rec: std::false_type {};
template <class U>
struct is_rec<U, std::void_t<decltype(std::declval<U&>().zombie_node)>>: std::true_type {};
template <class U, class = void>
struct is_node: std::false_type {};
template <class U>
struct is_node<U, std::void_t<decltype(std::declval<U&>().deleted)>>: std::true_type {};

template <class U>
NOTAP void name_fields(U* p, const std::string& nm)
{
    if constexpr (is_rec<U>::value) {
        verif::reg_name(&p->next, nm);  // offset 0: the field `next` bears the block's own name (pointers print as `Z5`)
        verif::reg_name(&p->owner, nm + ".owner");
        verif::reg_name(&p->zombie_node, nm + ".zombie_node");
    } else if constexpr (is_node<U>::value) {
        verif::reg_name(&p->next, nm);  // offset 0: `next` bears the block's own name (pointers print as `N3`)
        verif::reg_name(&p->back, nm + ".back");
        verif::reg_name(&p->deleted, nm + ".deleted");
        verif::reg_name(&p->data, nm + ".data");
    }
}
}  // namespace

// ------------------------------------------------------------------------------------------------
// traced element type
// ------------------------------------------------------------------------------------------------
struct ElemThrow: std::runtime_error {
    ElemThrow(): std::runtime_error("elem") {}
};
static std::set<const void*> g_live_elems;
static bool g_throw_in_node = false;  // next construction of an Obj inside an arena block throws
static char g_fail_alloc[64] = {0};   // per logical thread: 'N' / 'Z' = its next allocation of a node / of a record throws
struct AllocFail : std::bad_alloc {};

struct Obj {
    long v;
    NOTAP void born()
    {
        if (verif::is_registered(this)) {
            if (g_throw_in_node) {
                g_throw_in_node = false;
                verif::emit("uth " + verif::name_of(this));
                throw ElemThrow();
            }
            verif::emit("pct " + verif::name_of(this) + " " + std::to_string(v));
        }
        if (!g_live_elems.insert(this).second) {
            verif::fail("element constructed twice at " + verif::name_of(this));
        }
    }
    NOTAP explicit Obj(long x): v(x) { born(); }
    NOTAP Obj(const Obj& o): v(o.v) { born(); }
    NOTAP Obj(Obj&& o) noexcept(false): v(o.v) { born(); }
    Obj& operator=(const Obj&) = delete;
    NOTAP ~Obj()
    {
        if (g_live_elems.erase(this) == 0) {
            verif::fail("destructor of an element that is not alive: " + verif::name_of(this));
        }
        if (verif::is_registered(this)) {
            verif::emit("pdt " + verif::name_of(this) + " " + std::to_string(v));
        }
        v = -777;
    }
    long get() const
    {
        if (g_live_elems.count(this) == 0) {
            verif::fail("read of a destroyed element " + verif::name_of(this));
        }
        return v;  // instrumented: `pld Nk.data 8 v`
    }
};
static long value_of(const Obj& o) { return o.get(); }
static long value_of(const int& o) { return o; }
template <class U>
NOTAP static long peek_value(const U& n)
{
    if constexpr (std::is_same_v<std::decay_t<decltype(n.data)>, Obj>) {
        return n.data.v;
    } else {
        return long(n.data);
    }
}

// ------------------------------------------------------------------------------------------------
// tracing, quarantining allocator
// ------------------------------------------------------------------------------------------------
template <class T>
struct TAlloc {
    using value_type = T;
    TAlloc() = default;
    template <class U>
    TAlloc(const TAlloc<U>&) noexcept {}  // NOLINT
    NOTAP T* allocate(size_t n)
    {
        verif::sched();
        size_t sz = (n * sizeof(T) + 15U) & ~size_t(15);
        if (g_used + sz > ARENA_SIZE) {
            verif::fail("arena exhausted");
            throw std::bad_alloc();
        }
        char k = is_rec<T>::value ? 'Z' : (is_node<T>::value ? 'N' : 'B');
        if (g_fail_alloc[verif::self() % 64] == k) {
            // injected allocation failure: nothing is allocated
            g_fail_alloc[verif::self() % 64] = 0;
            verif::emit(std::string("afl ") + k);
            throw AllocFail();
        }
        Block b{g_arena + g_used, n * sizeof(T), k, g_count[int(k)]++, B_ALLOC};
        g_used += sz;
        g_blocks.push_back(b);
        verif::reg_range(b.base, b.size, b.name());
        name_fields(reinterpret_cast<T*>(b.base), b.name());
        verif::emit("alo " + b.name() + " " + std::to_string(b.size));
        return reinterpret_cast<T*>(b.base);
    }
    NOTAP void deallocate(T* p, size_t)
    {
        verif::sched();
        if (p == nullptr) {
            verif::emit("fre null");
            verif::fail("deallocate of a null pointer");
            return;
        }
        Block* b = block_of(p);
        if (b == nullptr || b->base != reinterpret_cast<char*>(p)) {
            verif::emit("fre " + verif::name_of(p));
            verif::fail("deallocate of a pointer that was never allocated: " + verif::name_of(p));
            return;
        }
        verif::emit("fre " + b->name());
        if (b->st == B_FREED) {
            verif::fail("double free of " + b->name());
        } else if (b->st == B_CONS) {
            verif::fail("free of " + b->name() + " without destroying it");
        }
        b->st = B_FREED;  // quarantined: never reused
    }
    template <class U, class... Args>
    NOTAP void construct(U* p, Args&&... args)
    {
        verif::sched();
        Block* b = block_of(p);
        if (b == nullptr || b->base != reinterpret_cast<char*>(p) || b->st != B_ALLOC) {
            verif::fail("construct in a block that is not freshly allocated: " + verif::name_of(p));
        }
        ::new (static_cast<void*>(p)) U(std::forward<Args>(args)...);
        std::string info;
        if constexpr (is_rec<U>::value) {
            info = " " + verif::name_of(p->owner.raw()) + " " + verif::name_of(p->zombie_node);
        } else if constexpr (is_node<U>::value) {
            info = " " + std::to_string(peek_value(*p));
        }
        if (b != nullptr) {
            b->st = B_CONS;
            name_fields(p, b->name());
        }
        verif::emit("con " + verif::name_of(p) + info);
    }
    template <class U>
    NOTAP void destroy(U* p)
    {
        verif::sched();
        if (p == nullptr) {
            verif::emit("des null");
            verif::fail("destroy of a null pointer");
            return;
        }
        Block* b = block_of(p);
        if (b == nullptr || b->base != reinterpret_cast<char*>(p)) {
            verif::emit("des " + verif::name_of(p));
            verif::fail("destroy of something that is not a block: " + verif::name_of(p));
            return;
        }
        verif::emit("des " + b->name());
        if (b->st != B_CONS) {
            verif::fail(std::string("destroy of ") + b->name() + (b->st == B_ALLOC ? " (never constructed)" : b->st == B_DEST ? " (already destroyed)" : " (already freed)"));
            if (b->st != B_ALLOC) {
                return;  // do not run the destructor twice
            }
        }
        p->~U();
        b->st = B_DEST;
        name_fields(p, b->name());  // ~atomic dropped the names; keep them for use-after-destroy reports
    }
    template <class U>
    bool operator==(const TAlloc<U>&) const { return true; }
    template <class U>
    bool operator!=(const TAlloc<U>&) const { return false; }
};

// ------------------------------------------------------------------------------------------------
// script interpreter
// ------------------------------------------------------------------------------------------------
template <class T>
struct Runner {
    using List = gmlc::libguarded::rcu_list<T, std::mutex, TAlloc<T>>;
    using G = gmlc::libguarded::rcu_guarded<List>;
    using RH = typename G::read_handle;
    using WH = typename G::write_handle;
    using CIt = typename List::const_iterator;

    using WIt = typename List::iterator;
    using EndIt = typename List::end_iterator;

    // a write handle traverses with `iterator`, a read handle with `const_iterator`; the overload actually called
    // (operator-> / operator* of the handle, pre / post increment, the four spellings of the end test, operator* /
    // operator-> of the iterator) rotates with a per-thread counter: they all perform the same primitive operations
    struct Th {
        std::unique_ptr<RH> rh;
        std::unique_ptr<WH> wh;
        CIt cit;
        WIt wit;
        bool has_it = false;
        unsigned variant = 0;
    };

    static T make(long k)
    {
        if constexpr (std::is_same_v<T, Obj>) {
            return Obj(k);
        } else {
            return T(k);
        }
    }

    static bool at_end(Th& t, G& /*g*/)
    {
        unsigned v = t.variant++ % 4U;
        if (t.wh) {
            EndIt e = (v % 2U == 0U) ? (*t.wh)->end() : (**t.wh).end();
            switch (v) {
                case 0: return t.wit == e;
                case 1: return !(t.wit != e);
                case 2: return e == t.wit;
                default: return !(e != t.wit);
            }
        }
        EndIt e = (v % 2U == 0U) ? (*t.rh)->end() : (**t.rh).end();
        switch (v) {
            case 0: return t.cit == e;
            case 1: return !(t.cit != e);
            case 2: return e == t.cit;
            default: return !(e != t.cit);
        }
    }
    static long deref(Th& t)
    {
        unsigned v = t.variant++ % 2U;
        if (t.wh) {
            return v == 0U ? value_of(*t.wit) : value_of(*t.wit.operator->());
        }
        return v == 0U ? value_of(*t.cit) : value_of(*t.cit.operator->());
    }
    static void advance(Th& t)
    {
        unsigned v = t.variant++ % 2U;
        if (t.wh) {
            if (v == 0U) {
                ++t.wit;
            } else {
                t.wit++;
            }
        } else {
            if (v == 0U) {
                ++t.cit;
            } else {
                t.cit++;
            }
        }
    }

    static void prim(G& L, Th& t, const std::string& op)
    {
        std::string name = op;
        std::string arg;
        auto eq = op.find('=');
        if (eq != std::string::npos) {
            name = op.substr(0, eq);
            arg = op.substr(eq + 1);
        }
        // fault suffix: `!` element constructor throws, `!n` node allocation fails, `!z` record allocation fails
        std::string fault;
        bool faulty = false;
        {
            std::string& w = arg.empty() ? name : arg;
            auto bang = w.find('!');
            if (bang != std::string::npos) {
                faulty = true;
                fault = w.substr(bang + 1);
                w = w.substr(0, bang);
            }
        }
        bool thr = faulty && fault.empty();
        struct Arm {
            explicit Arm(const std::string& f) { g_fail_alloc[verif::self() % 64] = f == "n" ? 'N' : (f == "z" ? 'Z' : 0); }
            ~Arm() { g_fail_alloc[verif::self() % 64] = 0; }
        } arm(fault);
        bool has = t.rh || t.wh;
        if (name == "lr" || name == "lw") {
            if (has) {
                verif::fail("client-error: second handle");
                return;
            }
            CallScope c(op);
            if (name == "lr") {
                t.rh.reset(new RH(L.lock_read()));
                verif::reg_name(&t.rh->m_guard, "G" + std::to_string(verif::self()));
            } else {
                t.wh.reset(new WH(L.lock_write()));
                verif::reg_name(&t.wh->m_guard, "G" + std::to_string(verif::self()));
            }
            c.ret();
            return;
        }
        if (!has) {
            verif::fail("client-error: op without handle: " + op);
            return;
        }
        if (name == "rel") {
            CallScope c(op);
            t.has_it = false;
            t.cit = CIt();
            t.wit = WIt();
            if (t.rh) {
                auto* g = &t.rh->m_guard;
                t.rh.reset();
                verif::unreg(g);
            } else {
                auto* g = &t.wh->m_guard;
                t.wh.reset();
                verif::unreg(g);
            }
            c.ret();
        } else if (name == "beg") {
            CallScope c(op);
            unsigned v = t.variant++ % 2U;
            try {
                if (t.rh) {
                    t.cit = (v == 0U) ? (*t.rh)->begin() : (**t.rh).begin();
                } else {
                    t.wit = (v == 0U) ? (*t.wh)->begin() : (**t.wh).begin();
                }
                t.has_it = true;
                c.ret();
            } catch (const AllocFail&) {
                verif::emit("exc " + op);  // the registration failed: the handle is still unused, the iterator unchanged
            }
        } else if (name == "nxt") {
            if (!t.has_it || at_end(t, L)) {
                return;
            }
            CallScope c(op);
            advance(t);
            c.ret();
        } else if (name == "der") {
            if (!t.has_it || at_end(t, L)) {
                return;
            }
            CallScope c(op);
            long v = deref(t);
            c.ret(std::to_string(v));
        } else if (name == "erc" || name == "ers") {
            if (!t.has_it || at_end(t, L) || !t.wh) {
                return;
            }
            CallScope c(op);
            try {
                if (name == "erc") {
                    t.wit = (*t.wh)->erase(t.wit);
                } else {
                    CIt pos(t.wit);
                    WIt same(pos);  // the (private) const_iterator -> iterator conversion
                    (*t.wh)->erase(same);  // result dropped: the iterator stays on the erased element
                }
                c.ret();
            } catch (const AllocFail&) {
                verif::emit("exc " + op);
            }
        } else if (name == "pf" || name == "pb" || name == "ef" || name == "eb") {
            if (!t.wh) {
                verif::fail("client-error: push without write handle");
                return;
            }
            long k = atol(arg.c_str());
            CallScope c(op);
            try {
                if (thr) {
                    g_throw_in_node = true;
                }
                if (name == "pf") {
                    (*t.wh)->push_front(make(k));
                } else if (name == "pb") {
                    (*t.wh)->push_back(make(k));
                } else if (name == "ef") {
                    if constexpr (std::is_same_v<T, Obj>) {
                        (*t.wh)->emplace_front(long(k));
                    } else {
                        (*t.wh)->emplace_front(T(k));
                    }
                } else {
                    if constexpr (std::is_same_v<T, Obj>) {
                        (*t.wh)->emplace_back(long(k));
                    } else {
                        (*t.wh)->emplace_back(T(k));
                    }
                }
                c.ret();
            } catch (const ElemThrow&) {
                verif::emit("exc " + op);
            } catch (const AllocFail&) {
                verif::emit("exc " + op);
            }
            g_throw_in_node = false;
        } else {
            verif::fail("client-error: unknown op " + op);
        }
    }

    static void run_op(G& L, Th& t, const std::string& op)
    {
        std::string name = op;
        std::string arg;
        auto eq = op.find('=');
        if (eq != std::string::npos) {
            name = op.substr(0, eq);
            arg = op.substr(eq + 1);
        }
        std::string fault;  // `eri=i!z` / `erv=k!z`: the fault goes to the macro's erase
        {
            auto bang = arg.find('!');
            if (bang != std::string::npos) {
                fault = arg.substr(bang);
                arg = arg.substr(0, bang);
            }
        }
        if (name == "all") {
            verif::emit("mac " + op);
            std::string seen;
            prim(L, t, "beg");
            while (t.has_it && !at_end(t, L)) {
                long v = 0;
                {
                    CallScope c("der");
                    v = deref(t);
                    c.ret(std::to_string(v));
                }
                seen += (seen.empty() ? "" : "/") + std::to_string(v);
                prim(L, t, "nxt");
            }
            verif::emit("mend " + op + (seen.empty() ? "" : " " + seen));
        } else if (name == "eri") {
            verif::emit("mac " + op);
            int i = atoi(arg.c_str());
            prim(L, t, "beg");
            for (int k = 0; k < i && t.has_it && !at_end(t, L); ++k) {
                prim(L, t, "nxt");
            }
            prim(L, t, "erc" + fault);
            verif::emit("mend " + op);
        } else if (name == "erv") {
            verif::emit("mac " + op);
            long want = atol(arg.c_str());
            prim(L, t, "beg");
            while (t.has_it && !at_end(t, L)) {
                long v = 0;
                {
                    CallScope c("der");
                    v = deref(t);
                    c.ret(std::to_string(v));
                }
                if (v == want) {
                    prim(L, t, "erc" + fault);
                    break;
                }
                prim(L, t, "nxt");
            }
            verif::emit("mend " + op);
        } else {
            prim(L, t, op);
        }
    }

    static void go(const Script& sc, bool alloc_ctor)
    {
        std::unique_ptr<G> L;
        if (alloc_ctor) {
            L.reset(new G(TAlloc<T>()));
        } else {
            L.reset(new G());
        }
        List& l = L->m_obj;
        verif::reg_name(&l.m_head, "head");
        verif::reg_name(&l.m_tail, "tail");
        verif::reg_name(&l.m_zombie_head, "zhead");
        verif::reg_name(&l.m_write_mutex, "wmtx");
        verif::tap_add(g_arena, ARENA_SIZE);
        std::vector<std::function<void()>> bodies;
        for (auto& ops : sc.threads) {
            bodies.push_back([&L, ops] {
                Th t;
                for (auto& op : ops) {
                    run_op(*L, t, op);
                }
                if (t.rh || t.wh) {
                    prim(*L, t, "rel");
                }
            });
        }
        verif::run_threads(bodies);
        after_run();
        verif::emit("call dtor");
        L.reset();
        verif::emit("ret dtor");
        verif::tap_clear();
        for (auto& b : g_blocks) {
            if (b.st != B_FREED) {
                verif::fail("leak: block " + b.name() + " not freed after the list destructor (state " + std::to_string(int(b.st)) + ")");
            }
        }
        if (!g_live_elems.empty()) {
            verif::fail("leak: " + std::to_string(g_live_elems.size()) + " element(s) never destroyed");
        }
    }
};

static verif::Result exec(const Script& sc, const verif::Config& cfg0)
{
    verif::Config cfg = cfg0;
    if (cfg.strategy == 1) {
        // sticky random scheduling: vary the burst length with the seed.  Long bursts reach the states in which one
        // thread stands still in the middle of an operation while other threads complete whole operations (register,
        // traverse, release) - the windows rcu's grace-period logic is about.
        static const int pct[] = {70, 90, 97};
        cfg.stick_pct = pct[(cfg.seed / 3) % 3];
    }
    auto parts = split(sc.config, '-');
    bool hinted = false;
    if (parts.size() > 2) {
        // directed schedule: `<tid>x<n>.<tid>x<n>...` = the first scheduling decisions, as run lengths (the rest of the
        // run is scheduled at random); no spurious CAS failures, so that the step counts mean the same on every run
        cfg.casfail_budget = 0;
        if (cfg.strategy != 3) {
            hinted = true;
            cfg.strategy = 3;
            cfg.replay.clear();
            for (auto& seg : split(parts[2], '.')) {
                auto tn = split(seg, 'x');
                if (tn.size() == 2) {
                    for (int k = 0; k < atoi(tn[1].c_str()); ++k) {
                        cfg.replay.push_back(atoi(tn[0].c_str()) * 4);
                    }
                }
            }
        }
    }
    verif::begin(cfg);
    verif::g_post_unlock_sched = 0;  // the schedule hints of the directed scripts count scheduling decisions
    verif::g_casfail_left = cfg.casfail_budget;
    arena_reset();
    g_live_elems.clear();
    g_throw_in_node = false;
    memset(g_fail_alloc, 0, sizeof g_fail_alloc);
    std::string elem = parts[0];
    bool alloc_ctor = parts.size() > 1 && parts[1] == "a";
    verif::emit("cfg rcu " + elem + " " + (alloc_ctor ? "a" : "d"));
    if (elem == "obj") {
        Runner<Obj>::go(sc, alloc_ctor);
    } else {
        Runner<int>::go(sc, alloc_ctor);
    }
    verif::Result r = verif::end();
    if (hinted) {
        // the run lengths are a hint: if the library takes a different number of steps (a harmless rewrite), the
        // scheduler falls back to another runnable thread - that is not a failure of the library
        r.failures.erase(std::remove(r.failures.begin(), r.failures.end(), std::string("replay-divergence")), r.failures.end());
    }
    return r;
}

// ------------------------------------------------------------------------------------------------
// script generation: everything terminates under every schedule (the only blocking operation is the
// write mutex, always released by the same operation)
// ------------------------------------------------------------------------------------------------
// allocation faults: a failing record allocation (registration / erase), a failing node or record allocation (push)
static std::string zfault(Rng& r)
{
    return r.chance(1, 9) ? "!z" : "";
}
static std::string afault(Rng& r)
{
    return r.chance(1, 12) ? "!n" : (r.chance(1, 14) ? "!z" : "");
}

static Script gen(Rng& r, int size)
{
    Script s;
    bool obj = r.chance(1, 2);
    s.config = std::string(obj ? "obj" : "int") + (r.chance(1, 2) ? "-a" : "-d");
    if (r.chance(1, 6)) {
        // sequential differential (C12): one thread, iterator moved only inside the macros; compared with a plain
        // list by the driver and by the Python oracle
        std::vector<std::string> ops;
        int key = 1;
        int sessions = 1 + r.below(2 + size);
        for (int h = 0; h < sessions; ++h) {
            bool writer = h == 0 || r.chance(3, 4);
            ops.push_back(writer ? "lw" : "lr");
            int n = 2 + r.below(5 + 2 * size);
            for (int i = 0; i < n; ++i) {
                int k = r.below(writer ? 10 : 2);
                std::string v = std::to_string(k < 8 ? key : 1 + r.below(std::max(1, key)));
                if (k >= 2 && k < 7) {
                    ++key;
                }
                if (k < 2) {
                    ops.push_back("all");
                } else if (k < 4) {
                    ops.push_back("pf=" + v + ((obj && r.chance(1, 12)) ? "!" : ""));
                } else if (k < 6) {
                    ops.push_back("pb=" + v + ((obj && r.chance(1, 12)) ? "!" : ""));
                } else if (k < 7) {
                    ops.push_back((r.chance(1, 2) ? "ef=" : "eb=") + v + afault(r));
                } else if (k < 8) {
                    ops.push_back("eri=" + std::to_string(r.below(4)) + zfault(r));
                } else {
                    ops.push_back("erv=" + v + zfault(r));
                }
            }
            ops.push_back("all");
            ops.push_back("rel");
        }
        s.threads.push_back(ops);
        return s;
    }
    int nthreads = 1 + r.below(2 + size);
    int key = 1;
    // thread 1 often pre-populates the list
    for (int t = 0; t < nthreads; ++t) {
        std::vector<std::string> ops;
        int sessions = 1 + r.below(1 + size);
        for (int h = 0; h < sessions; ++h) {
            bool writer = r.chance(1, 2) || (t == 0 && h == 0);
            ops.push_back(writer ? "lw" : "lr");
            int n = 1 + r.below(3 + size);
            for (int i = 0; i < n; ++i) {
                int k = r.below(writer ? 12 : 6);
                switch (k) {
                    case 0:
                        ops.push_back("beg" + zfault(r));
                        break;
                    case 1:
                        ops.push_back("nxt");
                        break;
                    case 2:
                        ops.push_back("der");
                        break;
                    case 3:
                    case 4:
                        ops.push_back("all");
                        break;
                    case 5:
                        ops.push_back(r.chance(1, 2) ? "beg" : "der");
                        break;
                    case 6:
                        ops.push_back("pf=" + std::to_string(key++) + ((obj && r.chance(1, 10)) ? "!" : afault(r)));
                        break;
                    case 7:
                        ops.push_back("pb=" + std::to_string(key++) + ((obj && r.chance(1, 10)) ? "!" : afault(r)));
                        break;
                    case 8:
                        ops.push_back((r.chance(1, 2) ? "ef=" : "eb=") + std::to_string(key++) + afault(r));
                        break;
                    case 9:
                        ops.push_back(std::string(r.chance(2, 3) ? "erc" : "ers") + zfault(r));
                        break;
                    case 10:
                        ops.push_back("eri=" + std::to_string(r.below(3)) + zfault(r));
                        break;
                    default:
                        ops.push_back("erv=" + std::to_string(1 + r.below(std::max(1, key))) + zfault(r));
                        break;
                }
            }
            if (r.chance(3, 4) || h + 1 < sessions) {
                ops.push_back("rel");
            }
        }
        s.threads.push_back(ops);
    }
    return s;
}

int main(int argc, char** argv)
{
    std::vector<Script> directed = {
        // sequential: every writer path
        parse("obj-a;lw,pf=1,pf=2,pb=3,ef=4,eb=5,all,eri=0,all,eri=9,erv=3,all,erv=5,all,rel,lr,all,rel"),
        parse("int-d;lw,pb=1,pb=2,pf=3,all,eri=1,eri=1,all,rel,lr,beg,der,nxt,der,nxt,nxt,rel"),
        // every overload of the handle / iterator interface, for both element types
        parse("int-a;lw,pb=1,pb=2,pb=3,all,all,beg,ers,ers,erc,der,nxt,der,all,rel,lr,all,all,beg,der,nxt,der,rel"),
        parse("obj-d;lw,pb=1,pb=2,pb=3,all,all,beg,ers,ers,erc,der,nxt,der,all,rel,lr,all,all,beg,der,nxt,der,rel"),
        // the D2 input: two read handles with nothing erased, non-trivial element type
        parse("obj-d;lr,beg,rel,lr,beg,rel"),
        parse("obj-a;lr,rel,lw,rel,lr,all,rel"),
        // throwing element construction
        parse("obj-a;lw,pf=1!,pf=2,pb=3!,ef=4,all,rel"),
        // erase of an already erased element (same iterator twice; two writers parked on the same node)
        parse("obj-d;lw,ef=1,eb=2,beg,ers,ers,der,nxt,der,ers,erc,all,rel"),
        parse("int-a;lw,pf=1,pf=2,beg,erc,rel;lw,beg,erc,all,rel"),
        parse("obj-a;lw,pb=1,pb=2,pb=3,rel;lw,beg,nxt,erc,der,nxt,der,rel;lw,beg,nxt,erc,rel"),
        // reader parked on an element while writers erase it, its neighbours, everything
        parse("obj-a;lw,pb=1,pb=2,pb=3,pb=4,rel;lr,beg,nxt,der,nxt,der,nxt,der,rel;lw,erv=2,erv=3,rel,lr,all,rel;lr,all,rel"),
        parse("int-a;lw,pb=1,pb=2,pb=3,rel;lr,all,rel;lw,eri=0,eri=0,eri=0,rel;lr,beg,rel,lr,beg,rel"),
        // short-lived handles whose release reclaims while an older reader is still active
        parse("obj-d;lw,pf=1,pf=2,rel;lr,beg,der,nxt,der,rel;lw,eri=0,rel,lr,rel,lr,beg,rel;lr,beg,rel,lr,beg,rel"),
        // concurrent registrations (CAS contention) and concurrent releases
        parse("int-d;lr,beg,rel;lr,beg,rel;lr,beg,rel;lw,pf=1,eri=0,rel"),
        parse("obj-a;lw,pf=1,rel;lw,pb=2,rel;lw,ef=3,rel;lr,all,all,rel"),
        // handle never used / never released explicitly
        parse("int-a;lr;lw;lw,pf=1"),
        // allocation failures: registration (first use of a handle), node allocation in push / emplace, zombie-record
        // allocation in erase (also by a macro, on an already erased element = no allocation, and with readers around)
        parse("obj-d;lw,beg!z,pf=1!z,pb=2!z,ef=3!z,eb=4!z,pf=5!n,pb=6!n,ef=7!n,eb=8!n,pf=1,pb=2,pb=3,beg,erc!z,nxt,ers!z,der,eri=1!z,erv=3!z,all,eri=0,all,rel"),
        parse("int-a;lw,pb=1!z,pb=1,pb=2,beg,ers,ers!z,erc!z,all,erv=2!z,erv=2,all,rel,lr,beg!z,beg,der,rel"),
        parse("obj-d;lw,pf=1,beg,erc!z,rel"),
        parse("obj-a;lw,pb=1,pb=2,pb=3,rel,lw,eri=1!z,eri=1,eri=0!z,rel;lr,all,all,rel;lr,beg!z,beg,der,nxt,der,rel"),
        // directed schedules (run lengths of the first scheduling decisions, see exec): the writer is stopped inside
        // erase - before the unlink, between unlink and the push of the zombie record, after it - while two readers
        // register and start a traversal; then the writer finishes and releases, the older reader releases (and
        // reclaims), and the younger reader goes on using its iterator
        parse("obj-d-1x18.2x7.3x7.1x11.2x6;lw,pf=1,beg,erc,rel;lr,beg,rel;lr,beg,der,nxt,rel"),
        parse("obj-d-1x21.2x7.3x7.1x8.2x6;lw,pf=1,beg,erc,rel;lr,beg,rel;lr,beg,der,nxt,rel"),
        parse("int-a-1x24.2x7.3x7.1x7.2x6;lw,pf=1,beg,erc,rel;lr,beg,rel;lr,beg,der,nxt,rel"),
        parse("obj-a-1x30.2x7.3x8.1x8.2x6;lw,pb=1,pb=2,beg,nxt,erc,rel;lr,beg,rel;lr,beg,nxt,der,nxt,der,rel"),
        // a reader registers before the writer has done anything (so nothing but the links it follows orders it after
        // the writer) and stops just before it loads m_head; the writer builds the list, appends and erases; the reader
        // then reaches a node only through the link that erase spliced in (predecessor's next / m_head): the splice
        // stores themselves must publish that node
        parse("obj-a-2x6.1x90;lw,pb=1,pb=2,rel,lw,pb=3,eri=1,rel;lr,beg,nxt,der,nxt,rel"),
        parse("obj-a-2x6.1x90;lw,pb=1,pb=2,rel,lw,eri=0,rel;lr,beg,der,nxt,rel"),
        parse("int-a-2x6.1x90;lw,pf=2,pf=1,rel,lw,pb=3,eri=1,rel;lr,beg,nxt,der,nxt,rel"),
    };
    return client_main(argc, argv, directed, gen, exec);
}
