// client: gmlc::concurrency::SearchableObjectHolder<Obj, Tag>
//
// config = <mode>[:op+op+...]     mode n: the holder is destroyed by the main thread after the run
//                                 mode d: one logical thread runs the single op `dtor` (destructor racing with
//                                         the last calls of the others — the situation its wait loop exists for)
//                                 ops after ':' are executed by the main thread (tid 0) before the threads start
// ops (fields separated by '.'; names a..d, types 0..2, object ids are unique per script):
//   add.N.K  addt.N.K.T  aty.N.T  emp  get  rm.N  rp.P.J  cp.N.M  chk.N.T  find.N  fp.P.J  fpt.P.J.T  drop  dtor
//   P = e<K> (object id == K) | T (always) | F (never);  J = the J-th invocation of the predicate throws (0: never)
// trace markers:
//   call <op fields>   ret <op> -> true|false|()|<id>|null|[id,id,...]   exc <op>
//   pcl K   (predicate invoked on object K; also a scheduling point)      uth   (that invocation throws)
//   rel K   (the caller drops one reference to K)                         pdt K (payload destructor of K)
//   mac <objectMap|typeMap> r|w   (tap build only: plain access to one of the two std::map objects of the holder)
#include "gmlc/concurrency/SearchableObjectHolder.hpp"

#include "vclient.hpp"
#include "vpayload.hpp"
#include <csignal>
#include <map>
#include <memory>
using namespace vclient;

#if defined(__SANITIZE_ADDRESS__)
extern "C" {
void __sanitizer_set_death_callback(void (*callback)(void));
void __asan_set_error_report_callback(void (*callback)(const char*));
const char* __asan_default_options() { return "detect_leaks=0:handle_abort=0:allocator_may_return_null=1"; }
}
#endif

namespace {

struct Obj {
    int id;
    explicit Obj(int i): id(i) {}
    Obj(const Obj&) = delete;
    ~Obj() { verif::emit("pdt " + std::to_string(id)); }
};

// type tag with a user-defined comparison: a (silent) scheduling point inside the holder's critical section
struct Tag {
    int v = 0;
    Tag() = default;
    explicit Tag(int x): v(x) {}
    friend bool operator==(const Tag& a, const Tag& b)
    {
        verif::sched();
        return a.v == b.v;
    }
};

using Holder = gmlc::concurrency::SearchableObjectHolder<Obj, Tag>;
using Ptr = std::shared_ptr<Obj>;

thread_local int t_pcalls = 0;
thread_local int t_in_holder = 0;  // the thread is inside a call of the holder (or its destructor)

struct PredSpec {
    char kind = 'F';
    int k = 0;
    int thr = 0;
};

PredSpec parse_pred(const std::string& p, const std::string& j)
{
    PredSpec ps;
    ps.kind = p.empty() ? 'F' : p[0];
    if (ps.kind == 'e') {
        ps.k = atoi(p.c_str() + 1);
    }
    ps.thr = atoi(j.c_str());
    return ps;
}

std::function<bool(const Ptr&)> make_pred(PredSpec ps)
{
    return [ps](const Ptr& o) {
        int c = ++t_pcalls;
        verif::sched();
        verif::emit("pcl " + std::to_string(o->id));
        if (ps.thr != 0 && c == ps.thr) {
            verif::emit("uth");
            throw vpay::Injected();
        }
        return ps.kind == 'T' ? true : (ps.kind == 'F' ? false : o->id == ps.k);
    };
}

std::string show(const Ptr& p) { return p ? std::to_string(p->id) : std::string("null"); }

struct Caller {
    std::vector<Ptr> held;
    void keep(const Ptr& p)
    {
        if (p) {
            held.push_back(p);
        }
    }
    void drop()
    {
        for (auto& p : held) {
            verif::emit("rel " + std::to_string(p->id));
            p.reset();
        }
        held.clear();
    }
};

std::string spaced(const std::vector<std::string>& f)
{
    std::string r;
    for (size_t i = 0; i < f.size(); ++i) {
        r += (i ? " " : "") + f[i];
    }
    return r;
}

// run one op against the holder; `H` may be reset by `dtor`
void run_op(std::unique_ptr<Holder>& H, Holder* h, const std::string& text, Caller& me)
{
    auto f = split(text, '.');
    const std::string& op = f[0];
    if (op == "drop") {
        me.drop();
        return;
    }
    if (op == "dtor") {
        verif::emit("call dtor");
        ++t_in_holder;
        H.reset();
        --t_in_holder;
#if defined(__SANITIZE_THREAD__)
        // the holder's memory is free again: stop tapping it before anything else can be allocated there
        verif::tap_clear();
        verif::unreg_range(&h->objectMap);
        verif::unreg_range(&h->typeMap);
#endif
        verif::emit("ret dtor");
        return;
    }
    verif::emit("call " + spaced(f));
    t_pcalls = 0;
    std::string res;
    struct InHolder {
        InHolder() { ++t_in_holder; }
        ~InHolder() { --t_in_holder; }
    } inHolder;
    try {
        if (op == "add") {
            res = h->addObject(f[1], std::make_shared<Obj>(atoi(f[2].c_str()))) ? "true" : "false";
        } else if (op == "addt") {
            res = h->addObject(f[1], std::make_shared<Obj>(atoi(f[2].c_str())), Tag(atoi(f[3].c_str()))) ? "true" : "false";
        } else if (op == "aty") {
            h->addType(f[1], Tag(atoi(f[2].c_str())));
            res = "()";
        } else if (op == "emp") {
            res = h->empty() ? "true" : "false";
        } else if (op == "get") {
            auto v = h->getObjects();
            res = "[";
            for (size_t i = 0; i < v.size(); ++i) {
                res += (i ? "," : "") + show(v[i]);
                me.keep(v[i]);
            }
            res += "]";
        } else if (op == "rm") {
            res = h->removeObject(f[1]) ? "true" : "false";
        } else if (op == "rp") {
            res = h->removeObject(make_pred(parse_pred(f[1], f[2]))) ? "true" : "false";
        } else if (op == "cp") {
            res = h->copyObject(f[1], f[2]) ? "true" : "false";
        } else if (op == "chk") {
            res = h->checkObjectType(f[1], Tag(atoi(f[2].c_str()))) ? "true" : "false";
        } else if (op == "find") {
            auto p = h->findObject(f[1]);
            res = show(p);
            me.keep(p);
        } else if (op == "fp") {
            auto p = h->findObject(make_pred(parse_pred(f[1], f[2])));
            res = show(p);
            me.keep(p);
        } else if (op == "fpt") {
            auto p = h->findObject(make_pred(parse_pred(f[1], f[2])), Tag(atoi(f[3].c_str())));
            res = show(p);
            me.keep(p);
        } else {
            verif::fail("client: unknown op " + text);
            res = "()";
        }
        verif::emit("ret " + op + " -> " + res);
    }
    catch (const vpay::Injected&) {
        verif::emit("exc " + op);
    }
}

// the tap prints `pld|pst <map>+<offset> <size> <value>`; offsets and values (node addresses) are of no interest
// and not reproducible: keep `mac <map> r|w`
void normalise(verif::Result& r)
{
    for (auto& l : r.trace) {
        auto sp = l.find(' ');
        if (sp == std::string::npos) {
            continue;
        }
        bool ld = l.compare(sp + 1, 4, "pld ") == 0;
        bool st = l.compare(sp + 1, 4, "pst ") == 0;
        if (!ld && !st) {
            continue;
        }
        auto plus = l.find('+', sp + 5);
        auto end = std::min(plus, l.find(' ', sp + 5));
        l = l.substr(0, sp) + " mac " + l.substr(sp + 5, end - (sp + 5)) + (ld ? " r" : " w");
    }
}

// ---- crash reporting: a sanitizer abort / signal dumps the run in progress as a failing run ---------
char g_report[400] = "sanitizer abort (details on stderr)";
void crash_dump(const char* why)
{
    static bool once = false;
    if (once) {
        _exit(3);
    }
    once = true;
    verif::Result r = verif::end();
    r.deadlock = false;
    r.steplimit = false;
    r.failures.push_back(std::string("crash: ") + why);
    normalise(r);
    if (cur().sc != nullptr) {
        dump(stdout, cur().seed, cur().strat, *cur().sc, r);
    }
    fflush(stdout);
    _exit(0);
}
void on_signal(int sig)
{
    snprintf(g_report, sizeof g_report, "signal %d inside the holder", sig);
    crash_dump(g_report);
}
#if defined(__SANITIZE_ADDRESS__)
void on_report(const char* text)
{
    // keep "ERROR: AddressSanitizer: <kind>" and the first frame inside the header under test
    std::string t(text);
    std::string kind = "AddressSanitizer error";
    auto e = t.find("ERROR: ");
    if (e != std::string::npos) {
        auto stop = t.find_first_of("\n", e);
        kind = t.substr(e + 7, std::min<size_t>(stop - e - 7, 60));
        auto on = kind.find(" on address");
        if (on != std::string::npos) {
            kind = kind.substr(0, on);
        }
    }
    std::string where;
    auto w = t.find("SearchableObjectHolder.hpp:");
    if (w != std::string::npos) {
        auto stop = t.find_first_of(" \n", w);
        where = " at " + t.substr(w, stop - w);
    }
    snprintf(g_report, sizeof g_report, "%s%s", kind.c_str(), where.c_str());
}
void on_death() { crash_dump(g_report); }
#endif

verif::Result exec(const Script& sc, const verif::Config& cfg)
{
    verif::begin(cfg);
    verif::emit("cfg soh");
    {
        auto cfgp = split(sc.config, ':');
        std::unique_ptr<Holder> H = std::make_unique<Holder>();
        Holder* h = H.get();
        verif::reg_name(&h->mapLock, "mapLock");
#if defined(__SANITIZE_THREAD__)
        // plain-access tap on the two std::map objects inside the holder (their tree headers: root, leftmost,
        // rightmost, node count): every operation on a map reads or writes them
        verif::reg_range(&h->objectMap, sizeof h->objectMap, "objectMap");
        verif::reg_range(&h->typeMap, sizeof h->typeMap, "typeMap");
        verif::tap_add(&h->objectMap, sizeof h->objectMap);
        verif::tap_add(&h->typeMap, sizeof h->typeMap);
#endif
        Caller mainc;
        if (cfgp.size() > 1 && !cfgp[1].empty()) {
            for (auto& op : split(cfgp[1], '+')) {
                run_op(H, h, op, mainc);
            }
        }
        std::vector<std::function<void()>> bodies;
        for (auto& ops : sc.threads) {
            bodies.push_back([&H, h, ops] {
                Caller me;
                for (auto& op : ops) {
                    run_op(H, h, op, me);
                }
                me.drop();
            });
        }
        verif::run_threads(bodies);
        after_run();
        mainc.drop();
        if (H) {
            run_op(H, h, "dtor", mainc);
        }
    }
    verif::Result r = verif::end();
    normalise(r);
    return r;
}

// ---- generators ------------------------------------------------------------------------------------
const char* kNames[] = {"a", "b", "c", "d"};

struct GenState {
    int nextId = 1;
    std::vector<int> ids;
    std::map<std::string, int> dist;
};
GenState* g_dist = nullptr;

std::string gen_pred(Rng& r, GenState& g)
{
    int k = r.below(10);
    std::string p;
    if (k < 6) {
        int id = (!g.ids.empty() && r.chance(5, 6)) ? g.ids[size_t(r.below(int(g.ids.size())))] : 90 + r.below(3);
        p = "e" + std::to_string(id);
    } else if (k < 8) {
        p = "T";
    } else {
        p = "F";
    }
    int thr = r.chance(1, 4) ? 1 + r.below(3) : 0;
    return p + "." + std::to_string(thr);
}

std::string gen_op(Rng& r, GenState& g, int nnames)
{
    auto name = [&] { return std::string(kNames[r.below(nnames)]); };
    auto ty = [&] { return std::to_string(r.below(3)); };
    static const int w[] = {14, 12, 7, 4, 8, 10, 10, 9, 7, 9, 6, 8, 6};  // add addt aty emp get rm rp cp chk find fp fpt drop
    int tot = 0;
    for (int x : w) {
        tot += x;
    }
    int pick = r.below(tot);
    int k = 0;
    while (pick >= w[k]) {
        pick -= w[k];
        ++k;
    }
    std::string op;
    switch (k) {
        case 0: {
            int id = g.nextId++;
            g.ids.push_back(id);
            op = "add." + name() + "." + std::to_string(id);
            break;
        }
        case 1: {
            int id = g.nextId++;
            g.ids.push_back(id);
            op = "addt." + name() + "." + std::to_string(id) + "." + ty();
            break;
        }
        case 2:
            op = "aty." + name() + "." + ty();
            break;
        case 3:
            op = "emp";
            break;
        case 4:
            op = "get";
            break;
        case 5:
            op = "rm." + name();
            break;
        case 6:
            op = "rp." + gen_pred(r, g);
            break;
        case 7:
            op = "cp." + name() + "." + name();
            break;
        case 8:
            op = "chk." + name() + "." + ty();
            break;
        case 9:
            op = "find." + name();
            break;
        case 10:
            op = "fp." + gen_pred(r, g);
            break;
        case 11:
            op = "fpt." + gen_pred(r, g) + "." + ty();
            break;
        default:
            op = "drop";
            break;
    }
    if (g_dist != nullptr) {
        g_dist->dist[split(op, '.')[0]]++;
    }
    return op;
}

Script gen(Rng& r, int size)
{
    Script s;
    GenState g;
    int kind = r.below(10);
    int nnames = 3 + r.below(2);
    if (kind < 4) {
        // sequential: one thread, a long random stream (duplicates, missing names, malformed orders included)
        s.config = "n";
        int n = 15 + r.below(25 * size);
        std::vector<std::string> ops;
        for (int i = 0; i < n; ++i) {
            ops.push_back(gen_op(r, g, nnames));
        }
        s.threads.push_back(ops);
        if (g_dist != nullptr) {
            g_dist->dist["#sequential"]++;
        }
    } else if (kind < 9) {
        // concurrent: 2..4 threads on a small domain so that they collide on the same names
        s.config = "n";
        int npre = r.below(4);
        std::string pre;
        for (int i = 0; i < npre; ++i) {
            int id = g.nextId++;
            g.ids.push_back(id);
            std::string one = r.chance(1, 2) ? std::string("add.") + kNames[r.below(nnames)] + "." + std::to_string(id) :
                                               std::string("addt.") + kNames[r.below(nnames)] + "." + std::to_string(id) + "." + std::to_string(r.below(3));
            pre += std::string(i ? "+" : "") + one;
        }
        if (!pre.empty()) {
            s.config += ":" + pre;
        }
        int nt = 2 + r.below(2 + (size > 1 ? 1 : 0));
        for (int t = 0; t < nt; ++t) {
            int n = 2 + r.below(4 + 2 * size);
            std::vector<std::string> ops;
            for (int i = 0; i < n; ++i) {
                ops.push_back(gen_op(r, g, nnames));
            }
            s.threads.push_back(ops);
        }
        if (g_dist != nullptr) {
            g_dist->dist["#concurrent"]++;
        }
    } else {
        // destructor race.  Safe under every schedule: every other thread has exactly ONE call; the map holds n
        // entries, k <= n of the others remove distinct entries, read-only callers exist only if k < n.  Then
        // "object map empty" implies "every other thread is done", and after each yield/sleep of the destructor
        // loop a waiting caller runs before the destructor re-locks.
        int n = 1 + r.below(3);
        std::string pre;
        for (int i = 0; i < n; ++i) {
            int id = g.nextId++;
            g.ids.push_back(id);
            pre += std::string(i ? "+" : "") + "addt." + kNames[i] + "." + std::to_string(id) + "." + std::to_string(r.below(3));
        }
        s.config = "d:" + pre;
        int k = r.below(n + 1);
        s.threads.push_back({"dtor"});
        for (int i = 0; i < k; ++i) {
            if (r.chance(1, 2)) {
                s.threads.push_back({std::string("rm.") + kNames[i]});
            } else {
                s.threads.push_back({"rp.e" + std::to_string(g.ids[size_t(i)]) + ".0"});
            }
        }
        if (k < n) {
            int ro = r.below(3);
            for (int i = 0; i < ro; ++i) {
                int c = r.below(4);
                s.threads.push_back({c == 0 ? std::string("get") : (c == 1 ? std::string("find.") + kNames[r.below(n)] :
                                     (c == 2 ? std::string("fp.T.0") : std::string("chk.a.1")))});
            }
        }
        if (g_dist != nullptr) {
            g_dist->dist["#dtor-race"]++;
        }
    }
    return s;
}

}  // namespace

#if defined(__SANITIZE_THREAD__)
// Tap build only: the tree NODES of the two maps are tapped as well.  They are recognised by their allocation size
// (exact node types of this standard library) while the allocating thread is inside a call of the holder.
namespace {
using ONode = std::_Rb_tree_node<std::pair<const std::string, Ptr>>;
using TNode = std::_Rb_tree_node<std::pair<const std::string, std::vector<Tag>>>;
static_assert(sizeof(ONode) != sizeof(TNode), "node sizes must differ");
thread_local int t_in_alloc = 0;
}  // namespace
void* operator new(size_t n)
{
    void* p = malloc(n != 0 ? n : 1);
    if (p == nullptr) {
        throw std::bad_alloc();
    }
    if (t_in_holder > 0 && t_in_alloc == 0 && verif::tracing() && (n == sizeof(ONode) || n == sizeof(TNode))) {
        ++t_in_alloc;
        verif::reg_range(p, n, n == sizeof(ONode) ? "objectMap" : "typeMap");
        verif::tap_add(p, n);
        --t_in_alloc;
    }
    return p;
}
static void tapped_free(void* p) noexcept
{
    // only inside a holder call: then this thread holds the scheduler's baton (map nodes are never freed elsewhere);
    // frees made by finishing OS threads run concurrently and must not touch the harness tables
    if (p != nullptr && t_in_alloc == 0 && t_in_holder > 0) {
        ++t_in_alloc;
        verif::tap_remove(p);
        verif::unreg_range(p);
        --t_in_alloc;
    }
    free(p);
}
void operator delete(void* p) noexcept { tapped_free(p); }
void operator delete(void* p, size_t) noexcept { tapped_free(p); }
#endif

int main(int argc, char** argv)
{
    for (int sig : {SIGSEGV, SIGBUS, SIGFPE, SIGILL, SIGABRT}) {
        signal(sig, on_signal);
    }
#if defined(__SANITIZE_ADDRESS__)
    __asan_set_error_report_callback(on_report);
    __sanitizer_set_death_callback(on_death);
#endif
    if (argc > 1 && std::string(argv[1]) == "--dist") {
        // op distribution of the random generator: --dist <scripts> <size>
        GenState d;
        g_dist = &d;
        long n = argc > 2 ? atol(argv[2]) : 1000;
        int size = argc > 3 ? atoi(argv[3]) : 1;
        long total = 0;
        for (long k = 0; k < n; ++k) {
            Rng rng(uint64_t(1000003 + k));
            Script sc = gen(rng, size);
            for (auto& t : sc.threads) {
                total += long(t.size());
            }
        }
        printf("scripts=%ld ops=%ld\n", n, total);
        for (auto& kv : d.dist) {
            printf("%-12s %d\n", kv.first.c_str(), kv.second);
        }
        return 0;
    }
    std::vector<Script> directed = {
        // every method, every result class, single thread
        parse("n;add.b.1,add.b.2,find.b,find.a,get,emp,rm.b,rm.b,emp,get"),
        parse("n;addt.c.1.0,addt.a.2.1,addt.c.3.2,chk.c.0,chk.c.2,chk.b.0,aty.c.2,chk.c.2,get,drop,rm.c,chk.c.0"),
        parse("n;aty.a.1,chk.a.1,addt.a.1.2,chk.a.2,chk.a.1,rm.a,chk.a.1,rm.a,chk.a.1"),
        parse("n;addt.a.1.0,add.b.2,cp.a.c,cp.a.c,cp.d.b,cp.b.d,chk.c.0,chk.d.0,get,rm.a,find.c,drop,rm.c"),
        parse("n;aty.c.1,addt.a.1.0,cp.a.c,chk.c.0,chk.c.1,cp.a.a"),
        // predicate forms: first match in key order, none, all three throw positions
        parse("n;add.c.1,add.a.2,add.b.3,fp.e3.0,fp.T.0,fp.F.0,fp.e9.0,rp.e3.0,rp.T.0,rp.F.0,get,rp.T.0,rp.T.0,emp"),
        parse("n;addt.a.1.0,addt.b.2.1,addt.c.3.1,add.d.4,fpt.T.0.1,fpt.T.0.2,fpt.e3.0.1,fpt.e3.0.0,fpt.e4.0.0,fpt.F.0.1"),
        parse("n;add.a.1,add.b.2,add.c.3,rp.e3.1,rp.e3.2,rp.e3.3,rp.e1.2,fp.T.1,fp.F.3,fp.F.4,fpt.T.2.0,get,rp.e3.0,get"),
        parse("n;rp.T.1,fp.T.1,fpt.T.1.0,rp.T.0,fp.T.0,get,emp"),
        // references outlive removal; destructor with a non-empty map (gives up after 7 rounds)
        parse("n;add.a.1,find.a,rm.a,get,drop"),
        parse("n;add.a.1,add.a.2,addt.a.3.1,add.b.4,cp.b.c,rm.b,get,rm.c"),
        parse("n:add.a.1+addt.b.2.1;find.a,rm.a,drop;find.a,rm.b,find.b"),
        // contention on the same names
        parse("n;add.a.1,find.a,rm.a;add.a.2,find.a,rm.a;get,get,emp"),
        parse("n:add.a.1+add.b.2+add.c.3;rp.T.0,rp.T.0;fp.T.0,fp.e3.0,drop;rp.e2.0,get"),
        parse("n:addt.a.1.0+addt.b.2.0;fpt.T.0.0,rp.T.2;cp.a.c,chk.c.0,rm.a;rp.T.1,aty.b.1,fpt.e2.0.1"),
        parse("n;add.a.1,cp.a.b,rm.a;find.b,find.a,drop;rp.e1.0,rp.e1.0"),
        // copy of a tagged object racing with removals of the copy's name: object and tags must appear / disappear together
        parse("n:addt.a.1.0;cp.a.b,chk.b.0,cp.a.b,chk.b.0;rm.b,rm.b,chk.b.0,rm.b,addt.b.2.1,chk.b.1;rm.b,chk.b.0,rm.b"),
        parse("n:addt.a.1.0+aty.a.1;cp.a.c,cp.a.d;rm.c,rm.d,rm.c,rm.d,chk.c.0,chk.d.1;rm.d,rm.c,chk.c.1,chk.d.0"),
        // destructor racing with the last calls
        parse("d:addt.a.1.0;dtor;rm.a"),
        parse("d:addt.a.1.0+addt.b.2.1;dtor;rm.a;rp.e2.0"),
        parse("d:addt.a.1.0+addt.b.2.1+add.c.3;dtor;rm.b;get;find.c"),
        parse("d:add.a.1;dtor;fp.T.0"),
    };
    return client_main(argc, argv, directed, gen, exec);
}
