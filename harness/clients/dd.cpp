// client: gmlc::concurrency::DelayedDestructor<Obj>  (and DelayedDestructorSingleThread<Obj>, config class 's')
//
// config = <class>:<cb>:<nshared>     class ∈ l (locked) | s (single-thread class, one script thread)
//                                     cb ∈ 1 (callBeforeDeleteFunction installed) | 0
//                                     nshared: objects 0..nshared-1 exist at start, every script thread holds one
//                                     external reference to each
// ops (script level)
//   n<k><X><Y>  new object k, the thread holds one external shared_ptr;  X = what ~Obj does, Y = what the callback does:
//               p nothing | a add a fresh object to the same container | s size() | d destroyObjects()
//               Y only: r re-add the element itself once (resurrection) | t throw
//   l<k>o<j>    new handle k that ALIASES object j (the thread must hold a reference to j): a shared_ptr<Obj> with the same get()
//               as j's handles but a control block of its own (aliasing constructor over a keep-alive record) — a "lease" on j.
//               For the container it is an object of its own: its own owners, its own reaping, its own callback; its
//               "destructor" is the destruction of the keep-alive record (pdt k / pde k).  The handle is never dereferenced.
//   u<k> duplicate the thread's reference | x<k> drop one reference | a<k> add (copy) | m<k> add (move: gives the reference away)
//   d destroyObjects() | g<ms> destroyObjects(ms) | s size()
// markers
//   new k | dup k | drop k | call add k | call addm k | call size | call destroy | call destroyd ms | call dtor
//   ret add | ret addm | ret size n | ret destroy n | ret destroyd n | ret dtor        (n = -1 for size_t(-1))
//   ucb k / uce k / uth k   callback for k begins / ends / throws;   pdt k / pde k   ~Obj of k begins / ends
#include "gmlc/concurrency/DelayedDestructor.hpp"

#include "vclient.hpp"
using namespace vclient;

namespace {

struct Obj;
using Ptr = std::shared_ptr<Obj>;
using DDL = gmlc::concurrency::DelayedDestructor<Obj>;
using DDS = gmlc::concurrency::DelayedDestructorSingleThread<Obj>;

struct Thrown {};

struct G {
    DDL* l = nullptr;
    DDS* s = nullptr;
    bool reent = false;                          // re-entrant behaviours allowed (container alive, not in its destructor)
    std::map<int, std::map<int, std::vector<Ptr>>> refs;  // tid -> object -> external references held by the script
    std::map<int, int> dtors;                    // object -> number of destructor runs
    std::map<int, int> lives;                    // object -> resurrections left
    // control block -> id of the alias handle that owns it (handles made by op l)
    std::map<std::weak_ptr<void>, int, std::owner_less<std::weak_ptr<void>>> alias;
};
G g;

std::string sz(size_t n) { return n == static_cast<size_t>(-1) ? std::string("-1") : std::to_string(n); }

bool lock_held_by_me()
{
    return g.l != nullptr && g.l->destructionLock.owner == verif::self() + 1;
}

int ext_total(int k)
{
    int n = 0;
    for (auto& t : g.refs) {
        auto it = t.second.find(k);
        if (it != t.second.end()) {
            n += int(it->second.size());
        }
    }
    return n;
}

void do_add(Ptr p, int k, bool moved);
void do_size();
void do_destroy();
Ptr do_new(int k, char x, char y);

void action(char a, int fresh)
{
    if (!g.reent) {
        return;
    }
    if (a == 'a') {
        while (g.dtors.count(fresh) != 0U) {
            fresh += 1000;  // ids stay unique even when faulty code runs a callback twice
        }
        Ptr p = do_new(fresh, 'p', 'p');
        g.refs[verif::self()][fresh].pop_back();  // the reference just created is the one handed over
        do_add(std::move(p), fresh, true);
    } else if (a == 's') {
        do_size();
    } else if (a == 'd') {
        do_destroy();
    }
}

struct Obj {
    int id;
    char x;
    char y;
    Obj(int i, char xx, char yy): id(i), x(xx), y(yy) {}
    Obj(const Obj&) = delete;
    ~Obj()
    {
        verif::emit("pdt " + std::to_string(id));
        if (++g.dtors[id] > 1) {
            verif::fail("object " + std::to_string(id) + " destroyed twice");
        }
        if (ext_total(id) > 0) {
            verif::fail("object " + std::to_string(id) + " destroyed while the script still holds a reference");
        }
        if (lock_held_by_me()) {
            verif::fail("destructor of object " + std::to_string(id) + " runs under destructionLock");
        }
        action(x, id + 100);
        verif::emit("pde " + std::to_string(id));
    }
};

// the keep-alive record behind an alias handle: its destruction is the "destructor" of that handle's object
struct Keeper {
    int id;
    explicit Keeper(int i): id(i) {}
    Keeper(const Keeper&) = delete;
    ~Keeper()
    {
        verif::emit("pdt " + std::to_string(id));
        if (++g.dtors[id] > 1) {
            verif::fail("object " + std::to_string(id) + " destroyed twice");
        }
        if (ext_total(id) > 0) {
            verif::fail("object " + std::to_string(id) + " destroyed while the script still holds a reference");
        }
        if (lock_held_by_me()) {
            verif::fail("destructor of object " + std::to_string(id) + " runs under destructionLock");
        }
        verif::emit("pde " + std::to_string(id));
    }
};

// identity of a handle = its control block; -1: an ordinary handle (identity = the object it points to)
int alias_id(const Ptr& p)
{
    auto it = g.alias.find(std::weak_ptr<void>(p));
    return it == g.alias.end() ? -1 : it->second;
}

void callback(Ptr& p)
{
    int al = alias_id(p);
    if (al >= 0) {
        // an alias handle is never dereferenced (the object whose address it carries may be gone)
        verif::emit("ucb " + std::to_string(al));
        if (lock_held_by_me()) {
            verif::fail("callback for object " + std::to_string(al) + " runs under destructionLock");
        }
        if (ext_total(al) > 0) {
            verif::fail("callback for object " + std::to_string(al) + " while the script still holds a reference");
        }
        verif::emit("uce " + std::to_string(al));
        return;
    }
    int k = p->id;
    verif::emit("ucb " + std::to_string(k));
    if (lock_held_by_me()) {
        verif::fail("callback for object " + std::to_string(k) + " runs under destructionLock");
    }
    if (ext_total(k) > 0) {
        verif::fail("callback for object " + std::to_string(k) + " while the script still holds a reference");
    }
    if (p->y == 't') {
        verif::emit("uth " + std::to_string(k));
        throw Thrown();
    }
    if (p->y == 'r') {
        if (g.reent && g.lives[k] > 0) {
            --g.lives[k];
            do_add(p, k, false);
        }
    } else {
        action(p->y, k + 200);
    }
    verif::emit("uce " + std::to_string(k));
}

Ptr do_new(int k, char x, char y)
{
    Ptr p = std::make_shared<Obj>(k, x, y);
    verif::emit("new " + std::to_string(k));
    g.refs[verif::self()][k].push_back(p);
    g.dtors[k];
    if (y == 'r') {
        g.lives[k] = 1;
    }
    return p;
}

Ptr do_alias(int k, const Ptr& target)
{
    auto keeper = std::make_shared<Keeper>(k);
    Ptr p(keeper, target.get());   // aliasing constructor: shares ownership of the record, points at the target object
    g.alias[std::weak_ptr<void>(p)] = k;
    keeper.reset();
    verif::emit("new " + std::to_string(k));
    g.refs[verif::self()][k].push_back(p);
    g.dtors[k];
    return p;
}

// the by-value parameter is a reference of its own from the moment of the call
void do_add(Ptr p, int k, bool moved)
{
    CallScope c(std::string(moved ? "addm " : "add ") + std::to_string(k));
    if (g.l != nullptr) {
        g.l->addObjectsToBeDestroyed(std::move(p));
    } else {
        g.s->addObjectsToBeDestroyed(std::move(p));
    }
    c.name = moved ? "addm" : "add";
    c.ret();
}

void do_size()
{
    CallScope c("size");
    size_t n = (g.l != nullptr) ? g.l->size() : g.s->size();
    c.ret(sz(n));
}

void do_destroy()
{
    CallScope c("destroy");
    size_t n = (g.l != nullptr) ? g.l->destroyObjects() : g.s->destroyObjects();
    c.ret(sz(n));
}

void do_destroyd(int ms)
{
    CallScope c("destroyd " + std::to_string(ms));
    size_t n = (g.l != nullptr) ? g.l->destroyObjects(std::chrono::milliseconds(ms)) :
                                  g.s->destroyObjects(std::chrono::milliseconds(ms));
    c.name = "destroyd";
    c.ret(sz(n));
}

void run_op(const std::string& op)
{
    int me = verif::self();
    char c = op[0];
    if (c == 'n') {
        size_t e = 1;
        while (e < op.size() && isdigit(static_cast<unsigned char>(op[e])) != 0) {
            ++e;
        }
        int k = atoi(op.substr(1, e - 1).c_str());
        char x = e < op.size() ? op[e] : 'p';
        char y = e + 1 < op.size() ? op[e + 1] : 'p';
        do_new(k, x, y);
        return;
    }
    if (c == 'l') {
        size_t o = op.find('o');
        int k = atoi(op.substr(1, o - 1).c_str());
        int j = atoi(op.substr(o + 1).c_str());
        auto& tj = g.refs[me][j];
        if (tj.empty()) {
            verif::fail("script error: thread holds no reference to object " + std::to_string(j));
            return;
        }
        do_alias(k, tj.back());
        return;
    }
    if (c == 'd') {
        do_destroy();
        return;
    }
    if (c == 's') {
        do_size();
        return;
    }
    int k = atoi(op.substr(1).c_str());
    if (c == 'g') {
        do_destroyd(k);
        return;
    }
    auto& mine = g.refs[me][k];
    if (mine.empty()) {
        verif::fail("script error: thread holds no reference to object " + std::to_string(k));
        return;
    }
    if (c == 'u') {
        verif::emit("dup " + std::to_string(k));
        Ptr p = mine.back();
        mine.push_back(std::move(p));
    } else if (c == 'x') {
        verif::emit("drop " + std::to_string(k));
        mine.pop_back();
    } else if (c == 'a') {
        do_add(mine.back(), k, false);
    } else if (c == 'm') {
        Ptr p = std::move(mine.back());
        mine.pop_back();
        do_add(std::move(p), k, true);
    }
}

verif::Result exec(const Script& sc, const verif::Config& cfg)
{
    verif::begin(cfg);
    auto cf = split(sc.config, ':');
    bool locked = cf[0] != "s";
    bool cb = cf.size() > 1 && cf[1] == "1";
    int nshared = cf.size() > 2 ? atoi(cf[2].c_str()) : 0;
    g = G();
    verif::emit(std::string("cfg dd ") + (locked ? "1" : "0") + (cb ? " 1 " : " 0 ") + std::to_string(nshared) + " " +
                std::to_string(sc.threads.size()));
    if (locked) {
        g.l = cb ? new DDL(callback) : new DDL();
        verif::reg_name(&g.l->destructionLock, "dlock");
    } else {
        g.s = cb ? new DDS(callback) : new DDS();
    }
    int nthreads = int(sc.threads.size());
    for (int k = 0; k < nshared; ++k) {
        Ptr p = std::make_shared<Obj>(k, 'p', 'p');
        g.dtors[k];
        for (int t = 1; t <= nthreads; ++t) {
            g.refs[t][k].push_back(p);
        }
    }
    g.reent = true;
    std::vector<std::function<void()>> bodies;
    for (auto& ops : sc.threads) {
        bodies.push_back([ops] {
            for (auto& op : ops) {
                run_op(op);
            }
        });
    }
    verif::run_threads(bodies);
    after_run();
    // the container is destroyed first (the script may still hold references), then the script's references go away
    g.reent = false;
    verif::emit("call dtor");
    delete g.l;
    delete g.s;
    g.l = nullptr;
    g.s = nullptr;
    verif::emit("ret dtor");
    for (auto& t : g.refs) {
        for (auto& o : t.second) {
            while (!o.second.empty()) {
                verif::emit("drop " + std::to_string(o.first));
                o.second.pop_back();
            }
        }
    }
    // every object ever created must have been destroyed exactly once by now
    for (auto& d : g.dtors) {
        if (d.second != 1) {
            verif::fail("object " + std::to_string(d.first) + " destroyed " + std::to_string(d.second) + " times");
        }
    }
    verif::emit("end");
    return verif::end();
}

}  // namespace

static Script gen(Rng& r, int size)
{
    Script s;
    bool cb = r.chance(2, 3);
    bool single = r.chance(1, 6);
    int nthreads = single ? 1 : 1 + r.below(3);
    int nshared = r.below(3);
    s.config = std::string(single ? "s:" : "l:") + (cb ? "1" : "0") + ":" + std::to_string(nshared);
    const char* xs = "pppppasd";
    const char* ys = "ppppasdrt";
    for (int t = 1; t <= nthreads; ++t) {
        std::vector<std::string> ops;
        std::map<int, int> held;
        for (int k = 0; k < nshared; ++k) {
            held[k] = 1;
        }
        int next = t * 1000;  // ids of different threads never collide (re-entrant code adds id + 100 / + 200)
        int n = 3 + r.below(6 + 3 * size);
        for (int i = 0; i < n; ++i) {
            int c = r.below(10);
            std::vector<int> have;
            for (auto& h : held) {
                if (h.second > 0) {
                    have.push_back(h.first);
                }
            }
            if (c <= 1 || (have.empty() && c <= 5)) {
                int k = next++;
                char x = xs[r.below(8)];
                char y = cb ? ys[r.below(9)] : 'p';
                ops.push_back("n" + std::to_string(k) + std::string(1, x) + std::string(1, y));
                held[k] = 1;
            } else if (c <= 5 && !have.empty()) {
                int k = r.pick(have);
                int w = r.below(9);
                if (w == 8) {
                    int a = next++;
                    ops.push_back("l" + std::to_string(a) + "o" + std::to_string(k));
                    held[a] = 1;
                } else if (w == 0) {
                    ops.push_back("u" + std::to_string(k));
                    ++held[k];
                } else if (w <= 2) {
                    ops.push_back("x" + std::to_string(k));
                    --held[k];
                } else if (w <= 4) {
                    ops.push_back("a" + std::to_string(k));
                } else {
                    ops.push_back("m" + std::to_string(k));
                    --held[k];
                }
            } else if (c <= 7) {
                ops.push_back("d");
            } else if (c == 8) {
                ops.push_back("s");
            } else {
                static const int ms[] = {0, 3, 20, 100, 150};
                ops.push_back("g" + std::to_string(ms[r.below(5)]));
            }
        }
        s.threads.push_back(ops);
    }
    return s;
}

int main(int argc, char** argv)
{
    std::vector<Script> directed = {
        parse("l:0:0;n1pp,m1,s,d,s"),
        parse("l:1:0;n1pp,a1,d,x1,d,s"),
        parse("l:1:0;n1pp,n2pp,m1,m2,d;s,d,s"),
        parse("l:1:1;a0,x0,d;x0,d,s;d,d"),
        // the same pointer twice: never selected, left to the vector's destruction
        parse("l:1:0;n1pp,a1,m1,d,s"),
        // alias handles (same address, own control block): each is an object of its own for the container
        parse("l:1:0;n1pp,l2o1,m1,a2,d,s,x2,d,s"),
        parse("l:1:0;n1pp,l2o1,u2,m1,a2,d,s,x2,d,x2,d,s"),
        parse("l:0:0;n1pp,l2o1,l3o1,m2,a3,a1,d,x1,d,s,x3,d,s"),
        parse("s:1:0;n1pp,l2o1,m1,a2,d,s,x2,d,s"),
        // re-entrant destructors and callbacks
        parse("l:1:0;n1ap,n2sp,n3dp,m1,m2,m3,d,d,s"),
        parse("l:1:0;n1pa,n2ps,n3pd,n4pp,m1,m2,m3,d,m4,d,s"),
        parse("l:1:0;n1pr,m1,d,d,s"),
        // throwing callback: first, middle, last of three
        parse("l:1:0;n1pt,n2pp,n3pp,m1,m2,m3,d,s,d"),
        parse("l:1:0;n1pp,n2pt,n3pp,m1,m2,m3,d,s;d,s"),
        parse("l:1:0;n1pp,n2pp,n3pt,m1,m2,m3,d,s,n4pp,m4,d"),
        // time-outs at both try_lock_for sites, delayed overload
        parse("l:1:0;n1pp,n2pp,m1,m2,d,d;d,d,s;n21pp,m21,d"),
        parse("l:0:0;n1pp,m1,g0,s;n21pp,m21,g100;d,d"),
        parse("l:1:0;n1pp,a1,g100,x1,g150;d,s,d"),
        parse("l:1:0;n1pp,a1,g3,g20;g100,d;s,s"),
        // objects still owned when the container dies; destructor retry loop
        parse("l:1:0;n1pp,a1,n2pp,m2;n21pp,a21,a21"),
        parse("l:0:1;a0;a0,x0"),
        // the single-thread class (same code without the lock)
        parse("s:1:0;n1pp,m1,s,d,s"),
        parse("s:1:1;n1ap,n2pd,n4pr,n5sa,a0,m1,m2,m4,m5,d,d,g100,s,x0,g3,d"),
        parse("s:1:0;n1pp,n2pt,n3pp,m1,m2,m3,d,s,d"),
        parse("s:0:0;n1pp,a1,g3,x1,g100,n2dp,m2,d,s"),
        parse("s:0:0;n1pp,a1,a1,n2pp,a2"),
    };
    return client_main(argc, argv, directed, gen, exec);
}
