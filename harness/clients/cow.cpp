// client: gmlc::libguarded::cow_guarded<vpay::Ver>           (script config: "-")
// ops (per logical thread, in order):
//   L            lock(): take the write handle (private copy)          L!   ... T's copy constructor throws inside lock()
//   w            write through the handle: value + 1                   g    read through the write handle
//   U            release: destroy the write handle (publishes)         C    cancel()   (on a null handle: the no-op form)
//   X            release from a destructor running during the stack unwinding of an unrelated exception (publishes too)
//   V            move-construct the write handle (twice: out and back), with a cancel() on the moved-from handle in between
//   S | St | Sf | Su   lock_shared / try_lock_shared / try_lock_shared_for / try_lock_shared_until: keep the snapshot
//   r            re-read every snapshot held (the value must be the one seen at the first read, the object alive)
//   D            drop the oldest snapshot held                         (everything still held is dropped at thread end)
// path forcing (directed scripts only; no trace events):
//   G<k>:<cond>  the k-th scheduling point of this thread from now on (inside the next library call) is blocked until
//                <cond> holds;  H<k>:<cond>  a second such gate;  <cond> = f<n> flag n posted | rl0 / rl1 | cl0 / cl1
//                m_readingLeft / m_countingLeft is false / true | g<t> thread t is parked at a gate
//   W:<cond>     wait (client level) until <cond> holds                P<n>  post flag n
// A thread never calls lock() while it owns a write handle (it would wait for itself).
// try_lock / try_lock_for / try_lock_until cannot be called: instantiating them is a compile error (`return handle();`
// needs a default-constructible deleter) — see checks/reg_cow.py.
// markers: call/ret lockShared <k> [v<id>] ; call lock ; ret lock v<id> ; exc lock ; call/ret release ; call/ret cancel ;
//   call/ret cancelNull ; call/ret move ; call/ret drop v<id> ; final line "0 fin v<left> v<right> <value>"
#include "gmlc/libguarded/cow_guarded.hpp"

#include "vclient.hpp"
#include "vpayload.hpp"
#include "vpayload_cow.hpp"
#include <deque>
#include <optional>
using namespace vclient;
using gmlc::libguarded::cow_guarded;
using vpay::Ver;

namespace {
using COW = cow_guarded<Ver>;
const std::chrono::milliseconds kDur(5);

std::vector<char>& flags()
{
    static std::vector<char> f(32, 0);
    return f;
}

// rename-tolerant access to the atomics of m_data (a refactored tree still builds; the model then rejects)
template <class G>
auto reading_left(G& g, int) -> decltype(g.m_data.m_readingLeft.raw())
{
    return g.m_data.m_readingLeft.raw();
}
template <class G>
bool reading_left(G&, long)
{
    return true;
}
template <class G>
auto counting_left(G& g, int) -> decltype(g.m_data.m_countingLeft.raw())
{
    return g.m_data.m_countingLeft.raw();
}
template <class G>
bool counting_left(G&, long)
{
    return true;
}

verif::Enabled cond_of(COW& g, const std::string& c)
{
    auto en = [](bool b) { return b ? int(verif::EN) : int(verif::DIS); };
    if (c[0] == 'f') {
        size_t n = size_t(atoi(c.c_str() + 1)) % 32;
        return [n, en] { return en(flags()[n] != 0); };
    }
    COW* pg = &g;
    if (c == "rl0" || c == "rl1") {
        bool want = c == "rl1";
        return [pg, want, en] { return en(bool(reading_left(*pg, 0)) == want); };
    }
    if (c == "cl0" || c == "cl1") {
        bool want = c == "cl1";
        return [pg, want, en] { return en(bool(counting_left(*pg, 0)) == want); };
    }
    if (c[0] == 'g') {
        int t = atoi(c.c_str() + 1);
        return [t, en] { return en(verif::at_gate(t)); };
    }
    return [] { return int(verif::EN); };
}

struct Snap {
    COW::shared_handle h;
    int id = -1;
    bool read = false;
    long first = 0;
};

std::string vname(const Ver* p) { return Ver::nm(p == nullptr ? -1 : p->raw_id()); }

void thread_body(COW& g, const std::vector<std::string>& ops)
{
    std::optional<COW::handle> wh;
    std::deque<Snap> snaps;
    auto live_handle = [&] { return wh.has_value() && bool(*wh); };
    auto release = [&] {
        if (live_handle()) {
            verif::emit("call release");
            wh.reset();
            verif::emit("ret release");
        } else {
            wh.reset();
        }
    };
    auto drop = [&] {
        if (snaps.empty()) {
            return;
        }
        std::string name = "drop " + Ver::nm(snaps.front().id);
        verif::emit("call " + name);
        snaps.pop_front();
        verif::emit("ret " + name);
    };
    for (auto& op : ops) {
        if (op[0] == 'L') {
            release();
            verif::emit("call lock");
            if (op.size() > 1 && op[1] == '!') {
                vpay::arm(1);
            }
            try {
                wh.emplace(g.lock());
                vpay::arm(0);
                if (!*wh) {
                    verif::fail("lock() returned a null handle");
                }
                verif::emit("ret lock " + vname(wh->get()));
            }
            catch (const vpay::Injected&) {
                vpay::arm(0);
                verif::emit("exc lock");
            }
        } else if (op == "w") {
            if (live_handle()) {
                (*wh)->set((*wh)->raw() + 1);
            }
        } else if (op == "g") {
            if (live_handle()) {
                (void)(*wh)->get();
            }
        } else if (op == "U") {
            release();
        } else if (op == "X") {
            // the same release, made from a destructor that runs while an UNRELATED exception unwinds this thread's stack
            // (a clean-up object that records its work in the cow_guarded): a release is a release, it publishes
            struct Unwinding {
                std::function<void()> f;
                ~Unwinding() { f(); }
            };
            try {
                Unwinding u{[&] { release(); }};
                throw vpay::Injected();
            }
            catch (const vpay::Injected&) {
            }
        } else if (op == "C") {
            if (live_handle()) {
                verif::emit("call cancel");
                wh->cancel();
                verif::emit("ret cancel");
                if (*wh) {
                    verif::fail("handle not null after cancel()");
                }
            } else if (wh.has_value()) {
                verif::emit("call cancelNull");
                wh->cancel();
                verif::emit("ret cancelNull");
            }
        } else if (op == "V") {
            if (live_handle()) {
                verif::emit("call move");
                COW::handle h2(std::move(*wh));
                if (!h2 || wh->get() != nullptr) {
                    verif::fail("move construction of the write handle lost the object");
                }
                // cancel() on the MOVED-FROM handle: it owns neither the copy nor the writer lock, so this must be a
                // no-op (no primitive event at all) while the moved-to handle keeps the lock
                wh->cancel();
                wh.emplace(std::move(h2));
                verif::emit("ret move");
            }
        } else if (op[0] == 'S') {
            int variant = op == "S" ? 0 : (op == "St" ? 1 : (op == "Sf" ? 2 : 3));
            std::string name = "lockShared " + std::to_string(variant);
            verif::emit("call " + name);
            Snap s;
            switch (variant) {
                case 0: s.h = g.lock_shared(); break;
                case 1: s.h = g.try_lock_shared(); break;
                case 2: s.h = g.try_lock_shared_for(kDur); break;
                default: s.h = g.try_lock_shared_until(std::chrono::steady_clock::now() + kDur); break;
            }
            if (!s.h) {
                verif::fail("lock_shared returned a null handle");
            } else {
                s.id = s.h->raw_id();
                if (s.id < 0) {
                    verif::fail("lock_shared returned a destroyed version");
                }
            }
            verif::emit("ret " + name + " " + Ver::nm(s.id));
            if (s.h) {
                snaps.push_back(std::move(s));
            }
        } else if (op == "r") {
            for (auto& s : snaps) {
                long v = s.h->get();
                if (s.h->raw_id() != s.id) {
                    verif::fail("snapshot " + Ver::nm(s.id) + " now names " + Ver::nm(s.h->raw_id()));
                }
                if (s.read && v != s.first) {
                    verif::fail("snapshot " + Ver::nm(s.id) + " changed: " + std::to_string(s.first) + " then " + std::to_string(v));
                }
                if (!s.read) {
                    s.read = true;
                    s.first = v;
                }
            }
        } else if (op == "D") {
            drop();
        } else if (op[0] == 'G' || op[0] == 'H') {
            auto colon = op.find(':');
            if (op[0] == 'G') {
                verif::gate_at(atoi(op.c_str() + 1), cond_of(g, op.substr(colon + 1)));
            } else {
                verif::gate_also(atoi(op.c_str() + 1), cond_of(g, op.substr(colon + 1)));
            }
        } else if (op[0] == 'W') {
            verif::sched(cond_of(g, op.substr(2)));
        } else if (op[0] == 'P') {
            flags()[size_t(atoi(op.c_str() + 1)) % 32] = 1;
        }
    }
    release();
    while (!snaps.empty()) {
        drop();
    }
}

}  // namespace

static verif::Result exec(const Script& sc, const verif::Config& cfg)
{
    Ver::reset();
    verif::begin(cfg);
    verif::g_post_unlock_sched = 1;  // the window between a release of the writer mutex and what the thread does next
    std::fill(flags().begin(), flags().end(), 0);
    verif::emit("cfg cow " + sc.config);
    {
        COW g(0L);
        VERIF_NAME(g, m_writeMutex, "wm");
        VERIF_NAME(g, m_data.m_readingLeft, "rl");
        VERIF_NAME(g, m_data.m_countingLeft, "cl");
        VERIF_NAME(g, m_data.m_leftReadCount, "lc");
        VERIF_NAME(g, m_data.m_rightReadCount, "rc");
        VERIF_NAME(g, m_data.m_writeMutex, "lwm");
        // the two shared_ptr copies inside m_data: plain accesses become pld/pst events (pointer word at +0, control-block
        // word at +8), pointer values are printed as version names, every such access is a scheduling point
        with_member(g, [](auto& x) -> decltype((void)x.m_data.m_left) {
            verif::reg_range(&x.m_data.m_left, sizeof(x.m_data.m_left), "left");
            verif::tap_add(&x.m_data.m_left, sizeof(x.m_data.m_left));
        });
        with_member(g, [](auto& x) -> decltype((void)x.m_data.m_right) {
            verif::reg_range(&x.m_data.m_right, sizeof(x.m_data.m_right), "right");
            verif::tap_add(&x.m_data.m_right, sizeof(x.m_data.m_right));
        });
        verif::tap_opts(true, true);
        std::vector<std::function<void()>> bodies;
        for (auto& ops : sc.threads) {
            bodies.push_back([&g, ops] { thread_body(g, ops); });
        }
        verif::run_threads(bodies);
        after_run();
        verif::tap_clear();
        {
            // harness peek at the final state, not recorded: both sides, value
            (void)verif::end();
            std::string l = "v?", r = "v?";
            long v = -1;
            bool dead = false;
            {
                auto fin = g.lock_shared();
                with_member(g, [&](auto& x) -> decltype((void)x.m_data.m_left) { l = vname(x.m_data.m_left.get()); });
                with_member(g, [&](auto& x) -> decltype((void)x.m_data.m_right) { r = vname(x.m_data.m_right.get()); });
                v = fin ? fin->raw() : -1;
                dead = fin && fin->raw_id() < 0;
            }
            verif::resume();
            if (dead) {
                verif::fail("final committed version is a destroyed object");
            }
            verif::emit("fin " + l + " " + r + " " + std::to_string(v));
        }
    }
    // everything constructed has been destroyed exactly once
    if (Ver::reg().constructed != Ver::reg().destroyed || !Ver::reg().live.empty()) {
        verif::fail("payload objects constructed " + std::to_string(Ver::reg().constructed) + ", destroyed " +
                    std::to_string(Ver::reg().destroyed));
    }
    return verif::end();
}

static Script gen(Rng& r, int size)
{
    Script s;
    s.config = "-";
    int nthreads = 2 + r.below(2 + size);
    bool any_writer = false;
    static const char* acq[] = {"S", "St", "Sf", "Su"};
    for (int t = 0; t < nthreads; ++t) {
        std::vector<std::string> ops;
        int role = r.below(3);  // 0 reader, 1 writer, 2 mixed
        if (t == nthreads - 1 && !any_writer) {
            role = 1;
        }
        int n = 1 + r.below(2 + size);
        int held = 0;
        for (int i = 0; i < n; ++i) {
            bool w = role == 1 || (role == 2 && r.chance(1, 2));
            if (w) {
                any_writer = true;
                if (r.chance(1, 8)) {
                    ops.push_back("L!");
                    continue;
                }
                ops.push_back("L");
                if (r.chance(1, 4)) {
                    ops.push_back("g");
                }
                ops.push_back("w");
                if (r.chance(1, 4)) {
                    ops.push_back("V");
                }
                if (r.chance(1, 4)) {
                    ops.push_back("r");
                }
                if (r.chance(1, 4)) {
                    ops.push_back("C");
                    if (r.chance(1, 3)) {
                        ops.push_back("C");
                    }
                }
                ops.push_back(r.chance(1, 6) ? "X" : "U");
            } else {
                ops.push_back(r.chance(1, 2) ? "S" : acq[r.below(4)]);
                ++held;
                int reads = r.below(3);
                for (int k = 0; k < reads; ++k) {
                    ops.push_back("r");
                }
                if (held > 0 && r.chance(1, 2)) {
                    ops.push_back("D");
                    --held;
                }
            }
        }
        if (held > 0 && r.chance(1, 2)) {
            ops.push_back("r");
        }
        s.threads.push_back(ops);
    }
    return s;
}

int main(int argc, char** argv)
{
    std::vector<Script> directed = {
        // single thread: every operation, both initial sides, all acquisition forms; snapshots kept across commits
        parse("-;S,r,L,g,w,g,U,St,r,L,w,V,w,U,Sf,r,L,w,C,C,U,Su,r,D,r,D,D,L!,L,w,U,r,D,S,r"),
        // a snapshot that is the last reference of an old version: destroyed by the drop, not by the release
        parse("-;S,L,w,U,r,L,w,U,r,D,S,D"),
        parse("-;S,L,w,X,r,L,w,w,X,S,r,D;S,r,L,w,X,r"),
        // cancel under contention: a second writer waits for the writer mutex and runs a whole transaction as soon as it is free
        parse("-;L,w,C,S,r,D,L,w,C,S,r;L,w,U,S,r,L,w,U;S,r,D,S,r"),
        parse("-;L,w,w,C,L,w,U,S,r;L,w,U,L,w,C,S,r"),
        // readers parked inside lock_shared (registered, side flag loaded) while a writer releases: second wait loop
        parse("-;G4:rl0,S,r,D;W:g1,L,w,U"),
        parse("-;L,w,U,G4:rl1,S,r,D;W:g1,L,w,U"),
        // a reader that arrives between the flip of m_readingLeft and the flip of m_countingLeft (both sides)
        parse("-;G3:rl0,S,r,D;W:g1,L,w,U"),
        parse("-;L,w,U,G3:rl1,S,r,D;W:g1,L,w,U"),
        // a stale reader — counting flag loaded before a release flipped it — registers in the counter the NEXT release's
        // first wait loop looks at, and stays registered until that release has flipped m_readingLeft (either counter)
        parse("-;G2:f1,H4:rl1,S,r,D;W:g1,L,w,U,P1,L,w,U"),
        parse("-;L,w,U,G2:f1,H4:rl0,S,r,D;W:g1,L,w,U,P1,L,w,U"),
        // writers contending for the writer mutex; cancel under contention; throw under contention
        parse("-;L,w,U,L,w,C,L,w,U;L,w,V,U,L!,L,w,U;S,r,S,r,r,D,S,r"),
        parse("-;L,w,C;L,w,U;L!,L,w,U;S,r,r,S,r"),
        // cancel frees the writer mutex at once: another writer locks while the cancelled (null) handle still exists
        parse("-;L,w,C,W:f1,U;L,w,U,P1"),
        // real time: a lock_shared called after a release returned
        parse("-;L,w,U,S,r,L,w,U,S,r;S,r,S,r,r"),
        // several readers keeping snapshots across several commits
        parse("-;S,r,S,r,S,r,r,D,r,D,r;Su,r,Sf,r,r;L,w,U,L,w,U,L,w,U"),
    };
    return client_main(argc, argv, directed, gen, exec);
}
