// client: gmlc::concurrency::Barrier   (config = participant count; ops: wait | drop)
// Built with the plain-access tap: threshold_/count_/generation_ are plain fields.
#include "gmlc/concurrency/Barrier.hpp"

#include "vclient.hpp"
using namespace vclient;
using gmlc::concurrency::Barrier;

static verif::Result exec(const Script& sc, const verif::Config& cfg)
{
    verif::begin(cfg);
    int n = atoi(sc.config.c_str());
    verif::emit("cfg barrier " + std::to_string(n));
    {
        Barrier B(static_cast<size_t>(n));
        VERIF_NAME(B, mtx, "mtx");
        VERIF_NAME(B, cv, "cv");
        VERIF_NAME(B, threshold_, "threshold");
        VERIF_NAME(B, count_, "count");
        VERIF_NAME(B, generation_, "generation");
        VERIF_TAP(B, threshold_);
        VERIF_TAP(B, count_);
        VERIF_TAP(B, generation_);
        std::vector<std::function<void()>> bodies;
        for (auto& ops : sc.threads) {
            bodies.push_back([&B, ops] {
                for (auto& op : ops) {
                    CallScope c(op);
                    if (op == "wait") {
                        B.wait();
                    } else if (op == "drop") {
                        B.wait_and_drop();
                    }
                    c.ret();
                }
            });
        }
        verif::run_threads(bodies);
        after_run();
        verif::tap_clear();
    }
    return verif::end();
}

// every participant either takes part in all G generations, or in g < G generations followed by a
// wait_and_drop (its (g+1)-th arrival): such scripts always terminate on a correct barrier
static Script gen(Rng& r, int size)
{
    Script s;
    int n = 1 + r.below(3 + size);
    int G = 1 + r.below(2 + size);
    s.config = std::to_string(n);
    for (int t = 0; t < n; ++t) {
        std::vector<std::string> ops;
        int g = r.chance(1, 3) ? r.below(G) : G;
        for (int i = 0; i < g; ++i) {
            ops.push_back("wait");
        }
        if (g < G) {
            ops.push_back("drop");
        }
        s.threads.push_back(ops);
    }
    return s;
}

int main(int argc, char** argv)
{
    std::vector<Script> directed = {
        parse("1;wait,wait"),
        parse("2;wait;wait"),
        parse("2;wait,wait,wait;wait,wait,wait"),
        parse("3;wait,wait;wait,drop;drop"),
        parse("3;drop;drop;drop"),
        parse("4;wait,wait,wait;wait,wait,drop;wait,drop;drop"),
        parse("2;wait,drop;wait,wait"),
        // lapping: a fast thread re-enters (and finally drops) while the slow one is still inside cv.wait
        parse("2;wait,wait,wait,wait;wait,wait,wait,drop"),
        parse("3;wait,wait,drop;wait,drop;wait,wait,wait"),
    };
    return client_main(argc, argv, directed, gen, exec);
}
