// client: TWO atomic_guarded<vpay::Pay, M> wrappers and the operations that involve both (C15: "atomic_guarded ... is one
// atomic register" also when the value stored comes from another atomic_guarded: `a = b` loads b under b's lock).
//   config = m | tm | sm | stm     (mutex type of both wrappers)
//   ops: s1=<v> s2=<v>   store a fresh value into wrapper 1 / 2
//        l1 l2           load
//        a12 a21         wrapper1 = wrapper2 / wrapper2 = wrapper1   (assignment FROM another atomic_guarded)
//        x12             wrapper1.exchange(wrapper2.load())
// There is no Lean component model for two wrappers; the traces are checked by the generic happens-before layer
// (`driver hb`: every access to a payload must be ordered with every conflicting one — each payload under ITS mutex) and by
// the payload's own torn-read detector.  Locks are never nested in opposite orders by these operations on the unmodified
// code (`a = b` takes a's lock, then b's; the scripts use only one direction per run), so every script terminates.
#include "gmlc/libguarded/atomic_guarded.hpp"

#include "vclient.hpp"
#include "vpayload.hpp"
using namespace vclient;
using gmlc::libguarded::atomic_guarded;
using vpay::Pay;

namespace {

template <class M>
verif::Result run_m(const Script& sc)
{
    atomic_guarded<Pay, M> w1(0L);
    atomic_guarded<Pay, M> w2(0L);
    VERIF_NAME(w1, m_obj, "P1");
    VERIF_NAME(w1, m_mutex, "m1");
    VERIF_NAME(w2, m_obj, "P2");
    VERIF_NAME(w2, m_mutex, "m2");
    std::vector<std::function<void()>> bodies;
    for (auto& ops : sc.threads) {
        bodies.push_back([&w1, &w2, ops] {
            long fresh = long(verif::self()) * 100;
            for (auto& op : ops) {
                CallScope c(op);
                if (op.rfind("s1=", 0) == 0 || op.rfind("s2=", 0) == 0) {
                    Pay nv(++fresh);
                    (op[1] == '1' ? w1 : w2).store(nv);
                    c.ret();
                } else if (op == "l1" || op == "l2") {
                    Pay r = (op[1] == '1' ? w1 : w2).load();
                    c.ret(std::to_string(r.a));
                } else if (op == "a12") {
                    w1 = w2;
                    c.ret();
                } else if (op == "a21") {
                    w2 = w1;
                    c.ret();
                } else if (op == "x12") {
                    Pay r = w1.exchange(w2.load());
                    c.ret(std::to_string(r.a));
                } else {
                    verif::fail("unknown op " + op);
                    c.ret();
                }
            }
        });
    }
    verif::run_threads(bodies);
    after_run();
    verif::unreg(&w1.m_obj);
    verif::unreg(&w2.m_obj);
    return verif::end();
}

verif::Result exec(const Script& sc, const verif::Config& cfg)
{
    verif::begin(cfg);
    verif::emit("cfg ag2 " + sc.config);
    if (sc.config == "tm") {
        return run_m<std::timed_mutex>(sc);
    }
    if (sc.config == "sm") {
        return run_m<std::shared_mutex>(sc);
    }
    if (sc.config == "stm") {
        return run_m<std::shared_timed_mutex>(sc);
    }
    return run_m<std::mutex>(sc);
}

Script gen(Rng& r, int size)
{
    static const std::vector<std::string> mks = {"m", "tm", "sm", "stm"};
    Script s;
    s.config = r.pick(mks);
    // one nesting direction per script (a12 / x12: lock 1 then lock 2, or a21: lock 2 then lock 1): no lock-order cycle
    bool dir12 = r.chance(1, 2);
    std::vector<std::string> ops = {"s1=0", "s2=0", "l1", "l2", dir12 ? "a12" : "a21", dir12 ? "a12" : "a21"};
    if (dir12) {
        ops.push_back("x12");
    }
    int nthreads = 2 + r.below(2 + size);
    for (int t = 0; t < nthreads; ++t) {
        std::vector<std::string> my;
        int n = 1 + r.below(3 + size);
        for (int i = 0; i < n; ++i) {
            my.push_back(r.pick(ops));
        }
        s.threads.push_back(my);
    }
    return s;
}

}  // namespace

int main(int argc, char** argv)
{
    std::vector<Script> directed = {
        parse("m;s2=0,s2=0,s2=0;a12,l1,a12,l1;l2,s1=0"),
        parse("stm;s1=0,s1=0,l1;a21,l2,a21;s1=0,a21"),
        parse("tm;s2=0,a12,s2=0;x12,l1;a12,l1,l2"),
        parse("sm;a12;s2=0;l1"),
    };
    return client_main(argc, argv, directed, gen, exec);
}
