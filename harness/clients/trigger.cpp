// client: gmlc::concurrency::TriggerVariable
//   config = 0 | 1   (constructed inactive / active)
//   ops: activate | trigger | wait | waitFor | waitAct | waitForAct | reset | isActive | isTriggered
//        wtrig = write client datum d0, then trigger() | waitR / waitForR = wait() / wait_for(), then read d0 if true
//        tspin   = `while (!tv.trigger()) yield();`  (a triggerer that insists; each attempt is its own call/ret)
#include "gmlc/concurrency/TriggerVariable.hpp"

#include "vclient.hpp"
using namespace vclient;
using gmlc::concurrency::TriggerVariable;

static const char* bs(bool v)
{
    return v ? "1" : "0";
}

static verif::Result exec(const Script& sc, const verif::Config& cfg)
{
    verif::begin(cfg);
    bool active = sc.config == "1";
    verif::emit(std::string("cfg trigger ") + bs(active));
    {
        TriggerVariable tv(active);
        verif::reg_name(&tv.triggered, "triggered");
        verif::reg_name(&tv.activated, "activated");
        verif::reg_name(&tv.triggerLock, "triggerLock");
        verif::reg_name(&tv.activeLock, "activeLock");
        verif::reg_name(&tv.cv_trigger, "cv_trigger");
        verif::reg_name(&tv.cv_active, "cv_active");
        long data0 = 0;  // client datum published by `wtrig`, read by `waitR` / `waitForR`
        std::vector<std::function<void()>> bodies;
        for (auto& ops : sc.threads) {
            bodies.push_back([&tv, &data0, ops] {
                const std::chrono::milliseconds d(10);
                for (auto& op : ops) {
                    if (op == "tspin") {
                        for (;;) {
                            CallScope c("trigger");
                            bool r = tv.trigger();
                            c.ret(bs(r));
                            if (r) {
                                break;
                            }
                            std::this_thread::yield();
                        }
                        continue;
                    }
                    // publication through trigger() / wait(): `wtrig` writes plain datum d0 and then calls trigger();
                    // `waitR` / `waitForR` call wait() / wait_for() and read d0 when the call returned true
                    if (op == "wtrig") {
                        data0 = 1;
                        verif::emit("pwr d0 1");
                        CallScope c("trigger");
                        c.ret(bs(tv.trigger()));
                        continue;
                    }
                    if (op == "waitR" || op == "waitForR") {
                        bool ok = false;
                        {
                            CallScope c(op == "waitR" ? "wait" : "waitFor");
                            ok = (op == "waitR") ? tv.wait() : tv.wait_for(d);
                            c.ret(bs(ok));
                        }
                        if (ok) {
                            verif::emit("prd d0 " + std::to_string(data0));
                        }
                        continue;
                    }
                    CallScope c(op);
                    if (op == "activate") {
                        c.ret(bs(tv.activate()));
                    } else if (op == "trigger") {
                        c.ret(bs(tv.trigger()));
                    } else if (op == "wait") {
                        c.ret(bs(tv.wait()));
                    } else if (op == "waitFor") {
                        c.ret(bs(tv.wait_for(d)));
                    } else if (op == "waitAct") {
                        tv.waitActivation();
                        c.ret();
                    } else if (op == "waitForAct") {
                        c.ret(bs(tv.wait_forActivation(d)));
                    } else if (op == "reset") {
                        tv.reset();
                        c.ret();
                    } else if (op == "isActive") {
                        c.ret(bs(tv.isActive()));
                    } else if (op == "isTriggered") {
                        c.ret(bs(tv.isTriggered()));
                    } else {
                        verif::fail("unknown op " + op);
                    }
                }
            });
        }
        verif::run_threads(bodies);
        after_run();
    }
    return verif::end();
}

// ---- script generation -------------------------------------------------------------------------------
// Every generated script terminates under EVERY schedule on correct code, so that a deadlock / step-limit
// verdict is a finding.  What has to be avoided (all of it is behaviour of the correct code):
//  * an untimed wait() blocks for good when the last store to `triggered` is a clear: two overlapping
//    activate() calls, or an activate() after the last trigger() (the property's re-activation proviso);
//  * an untimed waitActivation() blocks for good when a reset() slips in before it looks again;
//  * reset()'s unlock/trigger/lock loop spins without yielding while `activated` is false and `triggered`
//    is false, i.e. while another reset() has deactivated and an activate() sits between its clear and
//    its set-active step (needs two resetters and an activator; unfair schedules would spin for ever).
// Four families:
//  F1 controller : ONE thread does all activate/reset calls (plus triggers) and its sequence ends with a
//                  trigger/reset after its last activate; the others trigger, wait, wait_for, wait_forActivation
//                  (and waitActivation when the controller never resets and the variable gets active).
//  F2 timed      : everybody does everything, but only timed waits; at most one thread resets.
//  F3 handshake  : exactly one activate() in the whole script, no reset; ONE releaser thread insists
//                  (`tspin`) until its trigger() succeeds; all four waits anywhere.
//  F4 shutdown   : constructed active, nobody activates; several resetters / triggerers / waiters; one
//                  thread starts with trigger or reset.
//  F5 storm      : several threads that only activate, one thread that only resets (no waits at all): stale
//                  activators (two that both read `activated = false`) clearing `triggered` around reset()'s loop.
static const std::vector<std::string> kObs = {"isActive", "isTriggered"};

static std::string pickw(Rng& r, const std::vector<std::string>& v)
{
    return v[size_t(r.below(int(v.size())))];
}

static Script gen(Rng& r, int size)
{
    Script s;
    int fam = r.below(13);
    int nothers = 1 + r.below(2 + size);
    if (fam == 12) {
        // F6 publication: constructed active, nobody activates or resets; ONE thread writes the datum and triggers once,
        // the others wait (timed or not) and read the datum when their wait returned true
        s.config = "1";
        std::vector<std::string> w;
        if (r.chance(1, 2)) {
            w.push_back(pickw(r, kObs));
        }
        w.push_back("wtrig");
        s.threads.push_back(w);
        for (int t = 0; t < nothers; ++t) {
            std::vector<std::string> ops;
            int n = 1 + r.below(3);
            for (int i = 0; i < n; ++i) {
                ops.push_back(r.chance(1, 2) ? "waitR" : "waitForR");
            }
            s.threads.push_back(ops);
        }
        return s;
    }
    if (fam < 4) {
        // F1
        bool active = r.chance(1, 3);
        s.config = bs(active);
        std::vector<std::string> ctl;
        int n = 2 + r.below(3 + size);
        static const std::vector<std::string> cops = {"activate", "activate", "activate", "trigger", "trigger", "trigger",
                                                      "reset", "reset", "isActive", "isTriggered"};
        bool open = active;  // an activation not yet followed by trigger/reset in this thread
        bool resets = false;
        bool activates = active;
        for (int i = 0; i < n; ++i) {
            std::string op = pickw(r, cops);
            if (op == "activate") {
                open = true;
                activates = true;
            } else if (op == "trigger" || op == "reset") {
                open = false;
                resets = resets || op == "reset";
            }
            ctl.push_back(op);
        }
        if (open) {
            bool rs = r.chance(1, 3);
            ctl.push_back(rs ? "reset" : "trigger");
            resets = resets || rs;
        }
        std::vector<std::string> wops = {"trigger", "wait", "wait", "wait", "waitFor", "waitFor", "waitForAct", "isActive", "isTriggered"};
        if (!resets && activates) {
            wops.push_back("waitAct");
            wops.push_back("waitAct");
        }
        int cpos = r.below(nothers + 1);
        for (int t = 0; t <= nothers; ++t) {
            if (t == cpos) {
                s.threads.push_back(ctl);
                continue;
            }
            std::vector<std::string> ops;
            int m = 1 + r.below(2 + size);
            for (int i = 0; i < m; ++i) {
                ops.push_back(pickw(r, wops));
            }
            s.threads.push_back(ops);
        }
    } else if (fam < 6) {
        // F2
        s.config = bs(r.chance(1, 2));
        static const std::vector<std::string> ops2 = {"activate", "activate", "trigger", "trigger", "waitFor", "waitFor",
                                                      "waitForAct", "waitForAct", "isActive", "isTriggered"};
        int resetter = r.below(nothers + 2);
        for (int t = 0; t <= nothers; ++t) {
            std::vector<std::string> ops;
            int m = 1 + r.below(3 + size);
            for (int i = 0; i < m; ++i) {
                ops.push_back((t == resetter && r.chance(1, 3)) ? std::string("reset") : pickw(r, ops2));
            }
            s.threads.push_back(ops);
        }
    } else if (fam < 8) {
        // F3
        s.config = "0";
        static const std::vector<std::string> pre = {"wait", "waitFor", "waitForAct", "trigger", "isActive", "isTriggered"};
        static const std::vector<std::string> nonblocking = {"trigger", "waitFor", "waitForAct", "isActive", "isTriggered"};
        // (only ONE thread spins: two spinners un-yield each other and an unfair schedule could starve the activator)
        static const std::vector<std::string> full = {"trigger", "wait", "wait", "waitFor", "waitAct", "waitAct",
                                                      "waitForAct", "isActive", "isTriggered"};
        std::vector<std::string> act;
        for (int i = r.below(3); i > 0; --i) {
            act.push_back(pickw(r, pre));
        }
        act.push_back("activate");
        for (int i = r.below(3); i > 0; --i) {
            act.push_back(pickw(r, full));
        }
        std::vector<std::string> rel;
        if (r.chance(1, 2)) {
            rel.push_back(pickw(r, nonblocking));
        }
        rel.push_back("tspin");
        for (int i = r.below(2 + size); i > 0; --i) {
            rel.push_back(pickw(r, full));
        }
        int apos = r.below(nothers + 2);
        int rpos = r.below(nothers + 1);
        if (rpos >= apos) {
            ++rpos;
        }
        for (int t = 0; t < nothers + 2; ++t) {
            if (t == apos) {
                s.threads.push_back(act);
            } else if (t == rpos) {
                s.threads.push_back(rel);
            } else {
                std::vector<std::string> ops;
                int m = 1 + r.below(2 + size);
                for (int i = 0; i < m; ++i) {
                    ops.push_back(pickw(r, full));
                }
                s.threads.push_back(ops);
            }
        }
    } else if (fam >= 10) {
        // F5
        s.config = "0";
        int nact = 3 + r.below(2);
        for (int t = 0; t < nact; ++t) {
            std::vector<std::string> ops(size_t(3 + r.below(3 + size)), "activate");
            if (r.chance(1, 4)) {
                ops.push_back(pickw(r, kObs));
            }
            s.threads.push_back(ops);
        }
        s.threads.push_back(std::vector<std::string>(size_t(3 + r.below(3 + size)), "reset"));
    } else {
        // F4
        s.config = "1";
        static const std::vector<std::string> ops4 = {"trigger", "reset", "reset", "wait", "wait", "waitFor", "waitForAct",
                                                      "isActive", "isTriggered"};
        std::vector<std::string> closer;
        closer.push_back(r.chance(1, 2) ? "trigger" : "reset");
        for (int i = r.below(2 + size); i > 0; --i) {
            closer.push_back(pickw(r, ops4));
        }
        int cpos = r.below(nothers + 1);
        for (int t = 0; t <= nothers; ++t) {
            if (t == cpos) {
                s.threads.push_back(closer);
                continue;
            }
            std::vector<std::string> ops;
            int m = 1 + r.below(2 + size);
            for (int i = 0; i < m; ++i) {
                ops.push_back(pickw(r, ops4));
            }
            s.threads.push_back(ops);
        }
    }
    return s;
}

int main(int argc, char** argv)
{
    std::vector<Script> directed = {
        // every method alone, both initial states
        parse("0;isActive,isTriggered,trigger,wait,waitFor,activate,activate,isActive,isTriggered,trigger,isTriggered,wait,waitFor,"
              "waitAct,waitForAct,reset,reset,isActive,isTriggered,waitForAct"),
        parse("1;isActive,waitFor,reset,trigger,activate,waitFor,trigger,waitFor,reset"),
        // waiters against the events they wait for
        parse("1;wait;trigger"),
        // publication of client data through trigger() / wait()
        parse("1;wtrig;waitR;waitForR,waitForR,waitR"),
        parse("1;isTriggered,wtrig;waitForR,waitForR,waitForR;waitR"),
        parse("1;wait,wait;waitFor;trigger"),
        parse("0;waitAct;activate"),
        parse("0;waitAct;waitForAct;waitAct;activate"),
        parse("0;waitForAct;activate"),
        parse("1;waitFor;trigger"),
        // reset releases the waiters; nested trigger() inside reset, two resetters
        parse("1;wait;reset"),
        parse("1;wait;wait;reset;reset"),
        parse("1;reset;reset;reset"),
        parse("1;reset;trigger;wait"),
        // time-outs that see the event late
        parse("1;waitFor;waitFor;isActive,isTriggered,trigger"),
        parse("0;waitForAct;waitForAct;isActive,isTriggered,activate"),
        // late wake-ups: the event lands while several timed waiters sleep; each notified one may report a time-out
        parse("1;waitFor;waitFor;waitFor;waitFor;isActive,isTriggered,isActive,trigger"),
        parse("0;waitForAct;waitForAct;waitForAct;waitForAct;isActive,isTriggered,isActive,activate"),
        parse("1;waitFor,waitFor;waitFor,waitFor;waitFor;isActive,isTriggered,trigger,reset,activate,trigger"),
        // spurious wake-ups need somebody else runnable
        parse("1;wait;wait;isActive,isTriggered,isActive,isTriggered,isActive,isTriggered,trigger"),
        parse("0;waitAct;waitAct;isActive,isTriggered,isActive,isTriggered,isActive,isTriggered,activate"),
        // the handshake: a single activation, an insisting triggerer
        parse("0;activate;tspin;wait;wait"),
        parse("0;wait,activate,wait;tspin,wait;waitAct,wait"),
        // overlapping activators (timed waiters only: a late clear may undo a trigger)
        parse("0;activate;activate;trigger,waitFor;waitFor"),
        parse("0;activate,trigger;activate,trigger;reset,waitForAct;waitFor"),
        // stale activators around reset()'s unlock/trigger/lock loop
        parse("0;activate;activate;reset"),
        parse("0;activate,activate,activate;activate,activate,activate;activate,activate,activate;reset,reset,reset,reset"),
        // controller cycles
        parse("0;activate,trigger,reset,activate,reset;wait,wait;waitFor,wait;trigger,trigger"),
    };
    return client_main(argc, argv, directed, gen, exec);
}
