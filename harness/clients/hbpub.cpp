// client: publication patterns for C07 (happens-before layer).  Client data (one traced payload slot
// per thread) is handed from thread to thread THROUGH the library's primitives only:
//   L:<start>  gmlc::concurrency::Latch    ops: w | arrive | wait | aaw | r<u>
//              a thread writes its own slot only before one of its arrivals; slots of other threads are
//              read only after a wait()/arrive_and_wait() returned; total number of arrivals == start
//              (so the latch opens exactly after the last write) — includes the lock-free fast path of
//              wait() (the seq_cst load that sees 0 after the RMW chain of the arrivals)
//   B:<n>      gmlc::concurrency::Barrier  ops: w | bw | bd | r<u>
//              phases  w ; bw ; r* ; bw   (write own slot, barrier, read any slot, barrier); a thread
//              leaves with  w ; bd  (wait_and_drop) and reads nothing afterwards
// On correct code every generated script is race-free and terminates under every schedule.  The
// happens-before checker works from the memory orders WRITTEN IN THE SOURCE, so a weakened order in
// Latch.hpp / a field touched outside the mutex in Barrier.hpp shows up as a race on a slot (or on a
// tapped field) even on the sequentially consistent schedules the harness runs.
// Built with the plain-access tap (Barrier's plain fields).
#include "gmlc/concurrency/Barrier.hpp"
#include "gmlc/concurrency/Latch.hpp"

#include "vclient.hpp"
#include "vpayload.hpp"
using namespace vclient;
using gmlc::concurrency::Barrier;
using gmlc::concurrency::Latch;
using vpay::Pay;

struct Slots {
    std::vector<Pay> s;
    std::vector<long> next;
    explicit Slots(size_t n): s(n), next(n, 0)
    {
        for (size_t i = 0; i < n; ++i) {
            verif::reg_name(&s[i], "D" + std::to_string(i + 1));
        }
    }
    ~Slots()
    {
        for (auto& p : s) {
            verif::unreg(&p);
        }
    }
};

static void slot_op(Slots& sl, size_t me, const std::string& op)
{
    if (op == "w") {
        sl.s[me].set(static_cast<long>(me + 1) * 100 + (++sl.next[me]));
    } else if (op[0] == 'r') {
        size_t u = static_cast<size_t>(atoi(op.c_str() + 1)) - 1;
        if (u < sl.s.size()) {
            (void)sl.s[u].get();
        }
    }
}

static verif::Result exec(const Script& sc, const verif::Config& cfg)
{
    verif::begin(cfg);
    auto parts = split(sc.config, ':');
    std::string kind = parts[0];
    int n = parts.size() > 1 ? atoi(parts[1].c_str()) : 1;
    verif::emit("cfg hbpub " + kind + " " + std::to_string(n));
    Slots sl(sc.threads.size());
    std::vector<std::function<void()>> bodies;
    if (kind == "L") {
        Latch L(n);
        verif::reg_name(&L.mtx, "mtx");
        verif::reg_name(&L.cv, "cv");
        verif::reg_name(&L.counter_, "counter");
        for (size_t t = 0; t < sc.threads.size(); ++t) {
            auto ops = sc.threads[t];
            bodies.push_back([&L, &sl, ops, t] {
                for (auto& op : ops) {
                    if (op == "arrive") {
                        CallScope c(op);
                        L.arrive();
                        c.ret();
                    } else if (op == "wait") {
                        CallScope c(op);
                        L.wait();
                        c.ret();
                    } else if (op == "aaw") {
                        CallScope c(op);
                        L.arrive_and_wait();
                        c.ret();
                    } else {
                        slot_op(sl, t, op);
                    }
                }
            });
        }
        verif::run_threads(bodies);
        after_run();
        // the main thread joined everybody: it may look at every slot
        for (size_t t = 0; t < sc.threads.size(); ++t) {
            (void)sl.s[t].get();
        }
    } else {
        Barrier B(static_cast<size_t>(n));
        verif::reg_name(&B.mtx, "mtx");
        verif::reg_name(&B.cv, "cv");
        verif::reg_name(&B.threshold_, "threshold");
        verif::reg_name(&B.count_, "count");
        verif::reg_name(&B.generation_, "generation");
        verif::tap_add(&B.threshold_, sizeof(B.threshold_));
        verif::tap_add(&B.count_, sizeof(B.count_));
        verif::tap_add(&B.generation_, sizeof(B.generation_));
        for (size_t t = 0; t < sc.threads.size(); ++t) {
            auto ops = sc.threads[t];
            bodies.push_back([&B, &sl, ops, t] {
                for (auto& op : ops) {
                    if (op == "bw") {
                        CallScope c(op);
                        B.wait();
                        c.ret();
                    } else if (op == "bd") {
                        CallScope c(op);
                        B.wait_and_drop();
                        c.ret();
                    } else {
                        slot_op(sl, t, op);
                    }
                }
            });
        }
        verif::run_threads(bodies);
        after_run();
        for (size_t t = 0; t < sc.threads.size(); ++t) {
            (void)sl.s[t].get();
        }
        verif::tap_clear();
    }
    return verif::end();
}

static std::string rd(int u) { return "r" + std::to_string(u + 1); }

static Script gen(Rng& r, int size)
{
    Script s;
    if (r.chance(1, 2)) {
        // Latch: total arrivals == start
        int nthreads = 2 + r.below(2 + size);
        int total = 0;
        for (int t = 0; t < nthreads; ++t) {
            std::vector<std::string> ops;
            int k = r.below(3);
            bool waited = false;
            for (int i = 0; i < k; ++i) {
                if (r.chance(3, 4)) {
                    ops.push_back("w");
                }
                if (i + 1 == k && r.chance(1, 3)) {
                    ops.push_back("aaw");
                    waited = true;
                } else {
                    ops.push_back("arrive");
                }
                ++total;
            }
            if (!waited && r.chance(2, 3)) {
                ops.push_back("wait");
                waited = true;
            }
            if (waited) {
                int nr = 1 + r.below(3);
                for (int i = 0; i < nr; ++i) {
                    ops.push_back(rd(r.below(nthreads)));
                }
                if (r.chance(1, 4)) {
                    ops.push_back("wait");  // fast path: already open
                    ops.push_back(rd(r.below(nthreads)));
                }
            } else {
                ops.push_back(rd(t));
            }
            s.threads.push_back(ops);
        }
        s.config = "L:" + std::to_string(total);
    } else {
        int n = 2 + r.below(2 + size);
        int G = 1 + r.below(2 + size);
        s.config = "B:" + std::to_string(n);
        for (int t = 0; t < n; ++t) {
            std::vector<std::string> ops;
            int g = r.chance(1, 4) ? r.below(G) : G;  // phases done in full; g < G: drops in phase g+1
            for (int p = 0; p < g; ++p) {
                ops.push_back("w");
                ops.push_back("bw");
                int nr = r.below(3);
                for (int i = 0; i < nr; ++i) {
                    ops.push_back(rd(r.below(n)));
                }
                ops.push_back("bw");
            }
            if (g < G) {
                ops.push_back("w");
                ops.push_back("bd");
                ops.push_back(rd(t));
            }
            s.threads.push_back(ops);
        }
    }
    return s;
}

int main(int argc, char** argv)
{
    std::vector<Script> directed = {
        // latch: writer arrives, reader waits (slow path or fast path depending on the schedule)
        parse("L:1;w,arrive;wait,r1"),
        parse("L:2;w,arrive;w,arrive;wait,r1,r2"),
        parse("L:2;w,aaw,r2;w,aaw,r1"),
        parse("L:3;w,arrive,w,arrive;w,aaw,r1;wait,r1,r2,wait,r2"),
        parse("L:0;wait,r1;r2"),
        parse("L:2;w,arrive;w,arrive,wait,r1;wait,r1,r2;wait,r2,r1"),
        // barrier: phases
        parse("B:2;w,bw,r2,bw;w,bw,r1,bw"),
        parse("B:2;w,bw,r2,bw,w,bw,r2,bw;w,bw,r1,bw,w,bw,r1,bw"),
        parse("B:3;w,bw,r2,r3,bw,w,bw,r2,bw;w,bw,r1,bw,w,bw,r3,bw;w,bd,r3"),
        parse("B:3;w,bd;w,bd;w,bd,r3"),
        parse("B:1;w,bw,r1,bw"),
    };
    return client_main(argc, argv, directed, gen, exec);
}
