// client: gmlc::concurrency::DelayedObjects<X>    (built with the plain-access tap)
//
// script:  <int|str>;op,op,...;op,...        one ';'-part per logical thread
//   config  int : X = traced value holding a long         str : X = traced value holding a long std::string
//   ops     gI<k>:<L> gS<k>:<L>    getFuture(int k) / getFuture("s<k>"); the future is kept under label L
//           sI<k>=<v>c sI<k>=<v>m  setDelayedValue(int k, const X&) / (int k, X&&)       (sS...: string key)
//           F<v>                   fulfillAllPromises(v)
//           rI<k> rS<k>            isRecognized          cI<k> cS<k>  isCompleted         fI<k> fS<k>  finishedWithValue
//           aw<L>                  await future L (scheduling point enabled when wait_for(0) says ready), read it
//           po<L>                  poll future L once, read it if ready
//           af<L>                  harness-level wait until the getFuture call for label L has returned
// After the threads are done the container is destroyed (with whatever is still pending) and every future
// not read so far is read.
//
// trace (besides the shim's mlk/mul/yld and the tap's pld/pst on the four maps pI pS uI uS):
//   call <op..> / ret <op..> <-|0|1>   op = getI k id | getS sk id | setI k v c|m | setS sk v c|m | ful v |
//                                           recI k | recS sk | compI k | compS sk | finI k | finS sk | dtor
//   pset c|m v      an X is copy/move-constructed inside the library (= std::promise::set_value)
//   pdef            an X is default-constructed inside the library (the destructor's X{})
//   ptmp            an X temporary is copy/move-constructed on the stack inside the library (not a set_value)
//   got id v | got id broken | got id hang     what future `id` yielded
//   exc <op..> <what>                  an exception escaped the API
#include "gmlc/concurrency/DelayedObjects.hpp"

#include "vclient.hpp"
#include <sys/personality.h>
using namespace vclient;
using gmlc::concurrency::DelayedObjects;

// ---- traced value type ---------------------------------------------------------------------------
static thread_local int t_api = 0;          // > 0 while this thread is inside the library
static std::mutex* g_lock = nullptr;        // the container's promiseLock (the shim's mutex)

template <class P>
struct Codec;
template <>
struct Codec<long> {
    static long enc(long v) { return v; }
    static long dec(const long& p) { return p; }
};
template <>
struct Codec<std::string> {
    // long enough to live on the heap (no small-string optimisation)
    static std::string enc(long v) { return std::string(40, 'x') + std::to_string(v); }
    static long dec(const std::string& p) { return p.size() > 40 ? atol(p.c_str() + 40) : -999; }
};

template <class P>
struct TV {
    P p;
    TV(): p(Codec<P>::enc(0))
    {
        if (t_api > 0) {
            verif::emit("pdef");
        }
    }
    explicit TV(long v): p(Codec<P>::enc(v)) {}
    TV(const TV& o): p(o.p) { note('c'); }
    TV(TV&& o) noexcept: p(std::move(o.p)) { note('m'); }
    TV& operator=(const TV& o) = default;
    TV& operator=(TV&& o) = default;
    long value() const { return Codec<P>::dec(p); }
    void note(char how) const
    {
        if (t_api <= 0) {
            return;
        }
        // an interleaving point inside the library
        verif::sched();
        // a temporary on this thread's stack (harmless extra copy) is not a set_value: set_value constructs into the
        // heap-allocated result object of the shared state
        char probe = 0;
        auto a = reinterpret_cast<uintptr_t>(this);
        auto b = reinterpret_cast<uintptr_t>(&probe);
        if ((a > b ? a - b : b - a) < (1u << 18)) {
            verif::emit("ptmp");
            return;
        }
        if (g_lock != nullptr && g_lock->owner != verif::self() + 1) {
            verif::fail("a promise is satisfied while promiseLock is not held by the satisfying thread");
        }
        verif::emit(std::string("pset ") + how + " " + std::to_string(value()));
    }
};

struct ApiScope {
    ApiScope() { ++t_api; }
    ~ApiScope() { --t_api; }
};

// ---- script interpreter ----------------------------------------------------------------------------
template <class P>
struct Runner {
    using X = TV<P>;
    std::unique_ptr<DelayedObjects<X>> objs;
    struct Fut {
        std::future<X> f;
        bool have = false;
        bool consumed = false;
        bool strKey = false;
        long key = 0;
    };
    std::vector<Fut> futs;                 // by promise id
    std::map<std::string, int> label2id;
    int nextId = 0;

    static std::string skey(long k) { return "s" + std::to_string(k); }

    void read(int id, bool final)
    {
        auto& F = futs[size_t(id)];
        if (!F.have || F.consumed) {
            return;
        }
        if (F.f.wait_for(std::chrono::seconds(0)) != std::future_status::ready) {
            if (final) {
                verif::emit("got " + std::to_string(id) + " hang");
                verif::fail("future " + std::to_string(id) + " is not ready after the container was destroyed");
            }
            return;
        }
        F.consumed = true;
        try {
            X x = F.f.get();
            verif::emit("got " + std::to_string(id) + " " + std::to_string(x.value()));
        }
        catch (const std::future_error& e) {
            if (e.code() == std::future_errc::broken_promise) {
                verif::emit("got " + std::to_string(id) + " broken");
            } else {
                verif::emit("got " + std::to_string(id) + " error");
            }
        }
    }
    bool ready(int id)
    {
        auto& F = futs[size_t(id)];
        return F.consumed || (F.have && F.f.wait_for(std::chrono::seconds(0)) == std::future_status::ready);
    }

    template <class Fn>
    void api(const std::string& text, Fn&& fn)
    {
        verif::emit("call " + text);
        std::string res;
        try {
            ApiScope a;
            res = fn();
        }
        catch (const std::exception& e) {
            std::string w = e.what();
            for (auto& ch : w) {
                if (ch == ' ') {
                    ch = '_';
                }
            }
            verif::emit("exc " + text + " " + w);
            return;
        }
        verif::emit("ret " + text + " " + res);
    }

    void op(const std::string& o)
    {
        char c0 = o[0];
        char c1 = o.size() > 1 ? o[1] : ' ';
        bool str = (c1 == 'S');
        if (c0 == 'g') {
            auto colon = o.find(':');
            long k = atol(o.substr(2, colon - 2).c_str());
            std::string lab = o.substr(colon + 1);
            int id = nextId++;
            label2id[lab] = id;
            if (futs.size() <= size_t(id)) {
                futs.resize(size_t(id) + 1);
            }
            std::string text = std::string(str ? "getS " : "getI ") + (str ? skey(k) : std::to_string(k)) + " " + std::to_string(id);
            api(text, [&] {
                std::future<X> f = str ? objs->getFuture(skey(k)) : objs->getFuture(int(k));
                auto& F = futs[size_t(id)];
                F.f = std::move(f);
                F.have = true;
                F.strKey = str;
                F.key = k;
                return std::string("-");
            });
        } else if (c0 == 's') {
            auto eq = o.find('=');
            long k = atol(o.substr(2, eq - 2).c_str());
            long v = atol(o.substr(eq + 1).c_str());
            char how = o.back();
            std::string text = std::string(str ? "setS " : "setI ") + (str ? skey(k) : std::to_string(k)) + " " + std::to_string(v) + " " + how;
            X x(v);
            api(text, [&] {
                if (how == 'm') {
                    if (str) {
                        objs->setDelayedValue(skey(k), std::move(x));
                    } else {
                        objs->setDelayedValue(int(k), std::move(x));
                    }
                } else {
                    if (str) {
                        objs->setDelayedValue(skey(k), static_cast<const X&>(x));
                    } else {
                        objs->setDelayedValue(int(k), static_cast<const X&>(x));
                    }
                }
                return std::string("-");
            });
        } else if (c0 == 'F') {
            long v = atol(o.substr(1).c_str());
            X x(v);
            api("ful " + std::to_string(v), [&] {
                if ((v & 1) != 0) {
                    // unusual but legal argument category: an rvalue (binds to const X& today; an X&& overload, if a
                    // tree under test has one, must still deliver the SAME value to every pending future)
                    objs->fulfillAllPromises(std::move(x));
                } else {
                    objs->fulfillAllPromises(x);
                }
                return std::string("-");
            });
        } else if (c0 == 'r' || c0 == 'c' || c0 == 'f') {
            long k = atol(o.substr(2).c_str());
            std::string nm = c0 == 'r' ? "rec" : (c0 == 'c' ? "comp" : "fin");
            std::string text = nm + (str ? "S " : "I ") + (str ? skey(k) : std::to_string(k));
            bool completed = false;
            api(text, [&] {
                if (c0 == 'r') {
                    bool b = str ? objs->isRecognized(skey(k)) : objs->isRecognized(int(k));
                    return std::string(b ? "1" : "0");
                }
                if (c0 == 'c') {
                    bool b = str ? objs->isCompleted(skey(k)) : objs->isCompleted(int(k));
                    completed = b;
                    return std::string(b ? "1" : "0");
                }
                if (str) {
                    objs->finishedWithValue(skey(k));
                } else {
                    objs->finishedWithValue(int(k));
                }
                return std::string("-");
            });
            // (no client-side life-cycle monitor here: with other threads running between the call's unlock and its return
            //  any such check is racy; the python oracle judges the answers of the queries)
            (void)completed;
        } else if (c0 == 'a' && c1 == 'w') {
            // harness await: a scheduling point that is enabled once the future is ready (the scheduler polls
            // wait_for(0) on behalf of the consumer; never a blocking get() it cannot see).  A future that is never
            // satisfied shows up as a deadlock verdict with this thread blocked.
            std::string lab = o.substr(2);
            auto have = [this, lab] {
                auto it = label2id.find(lab);
                return it != label2id.end() && futs.size() > size_t(it->second) && futs[size_t(it->second)].have;
            };
            verif::sched([have] { return have() ? int(verif::EN) : int(verif::DIS); });
            int id = label2id[lab];
            verif::sched([this, id] { return ready(id) ? int(verif::EN) : int(verif::DIS); });
            read(id, false);
        } else if (c0 == 'p' && c1 == 'o') {
            auto it = label2id.find(o.substr(2));
            if (it != label2id.end() && futs.size() > size_t(it->second)) {
                read(it->second, false);
            }
        } else if (c0 == 'a' && c1 == 'f') {
            std::string lab = o.substr(2);
            verif::sched([this, lab] {
                auto it = label2id.find(lab);
                bool ok = it != label2id.end() && futs.size() > size_t(it->second) && futs[size_t(it->second)].have;
                return ok ? int(verif::EN) : int(verif::DIS);
            });
        }
    }

    verif::Result run(const Script& sc, const verif::Config& cfg)
    {
        verif::begin(cfg);
        verif::emit("cfg dobj " + sc.config);
        objs = std::make_unique<DelayedObjects<X>>();
        auto& D = *objs;
        verif::reg_name(&D.promiseLock, "promiseLock");
        g_lock = &D.promiseLock;
        verif::reg_range(&D.promiseByInteger, sizeof(D.promiseByInteger), "pI");
        verif::reg_range(&D.promiseByString, sizeof(D.promiseByString), "pS");
        verif::reg_range(&D.usedPromiseByInteger, sizeof(D.usedPromiseByInteger), "uI");
        verif::reg_range(&D.usedPromiseByString, sizeof(D.usedPromiseByString), "uS");
        verif::tap_add(&D.promiseByInteger, sizeof(D.promiseByInteger));
        verif::tap_add(&D.promiseByString, sizeof(D.promiseByString));
        verif::tap_add(&D.usedPromiseByInteger, sizeof(D.usedPromiseByInteger));
        verif::tap_add(&D.usedPromiseByString, sizeof(D.usedPromiseByString));
        const void* maps[4] = {&D.promiseByInteger, &D.promiseByString, &D.usedPromiseByInteger, &D.usedPromiseByString};
        futs.reserve(256);
        std::vector<std::function<void()>> bodies;
        for (auto& ops : sc.threads) {
            bodies.push_back([this, ops] {
                for (auto& o : ops) {
                    op(o);
                }
            });
        }
        verif::run_threads(bodies);
        after_run();
        // destruction with outstanding futures, then read whatever has not been read
        api("dtor", [&] {
            objs.reset();
            return std::string("-");
        });
        verif::tap_clear();
        for (const void* m : maps) {
            verif::unreg_range(m);
        }
        g_lock = nullptr;
        for (size_t i = 0; i < futs.size(); ++i) {
            read(int(i), true);
        }
        return verif::end();
    }
};

static verif::Result exec(const Script& sc, const verif::Config& cfg)
{
    // watchdog: a run takes milliseconds; broken library code (e.g. a map modified while it is iterated) can spin
    // forever without reaching a scheduling point, which only a timer can turn into a verdict (SIGALRM => crash)
    alarm(20);
    struct Disarm {
        ~Disarm() { alarm(0); }
    } disarm;
    if (sc.config == "str") {
        Runner<std::string> r;
        return r.run(sc, cfg);
    }
    Runner<long> r;
    return r.run(sc, cfg);
}

// Random scripts.  A single global sequence of (thread, op) is generated and then split by thread; every
// blocking harness op depends only on ops that are EARLIER in that sequence (af L: the getFuture of L;
// aw L: an `af L, F v` pair placed earlier, i.e. a fulfillAllPromises that certainly runs after the
// getFuture of L), so by induction along the sequence every op is eventually executed under every schedule.
static Script gen(Rng& r, int size)
{
    Script s;
    s.config = r.chance(1, 4) ? "str" : "int";
    bool sequential = r.chance(1, 4);
    int nthreads = sequential ? 1 : 2 + r.below(3);
    int nops = sequential ? 25 + r.below(40 * size) : 6 + r.below(8 + 6 * size);
    s.threads.resize(size_t(nthreads));
    struct Lab {
        std::string name;
        bool closed = false;
        bool awaited = false;
    };
    std::vector<Lab> labs;
    int nkeysI = 1 + r.below(3);
    int nkeysS = 1 + r.below(2);
    auto key = [&](bool str) { return std::to_string(1 + r.below(str ? nkeysS : nkeysI)); };
    auto IS = [&](bool str) { return std::string(str ? "S" : "I"); };
    for (int n = 0; n < nops; ++n) {
        auto& th = s.threads[size_t(r.below(nthreads))];
        bool str = r.chance(1, 3);
        int w = r.below(100);
        if (w < 24) {
            Lab l;
            l.name = "L" + std::to_string(labs.size());
            th.push_back("g" + IS(str) + key(str) + ":" + l.name);
            labs.push_back(l);
        } else if (w < 48) {
            th.push_back("s" + IS(str) + key(str) + "=" + std::to_string(1 + r.below(9)) + (r.chance(1, 2) ? "c" : "m"));
        } else if (w < 54) {
            th.push_back("F" + std::to_string(10 + r.below(9)));
        } else if (w < 62) {
            th.push_back("r" + IS(str) + key(str));
        } else if (w < 72) {
            th.push_back("c" + IS(str) + key(str));
        } else if (w < 80) {
            th.push_back("f" + IS(str) + key(str));
        } else if (w < 87) {
            // closer pair for a label
            std::vector<size_t> open;
            for (size_t i = 0; i < labs.size(); ++i) {
                if (!labs[i].closed) {
                    open.push_back(i);
                }
            }
            if (!open.empty()) {
                auto i = r.pick(open);
                labs[i].closed = true;
                th.push_back("af" + labs[i].name);
                th.push_back("F" + std::to_string(20 + r.below(9)));
            }
        } else if (w < 94) {
            std::vector<size_t> ok;
            for (size_t i = 0; i < labs.size(); ++i) {
                if (labs[i].closed && !labs[i].awaited) {
                    ok.push_back(i);
                }
            }
            if (!ok.empty()) {
                auto i = r.pick(ok);
                labs[i].awaited = true;
                th.push_back("aw" + labs[i].name);
            }
        } else if (!labs.empty()) {
            th.push_back("po" + labs[size_t(r.below(int(labs.size())))].name);
        }
    }
    return s;
}

int main(int argc, char** argv)
{
    // the tap prints the values stored in the map headers (heap addresses): switch address-space randomisation off
    // so that a given seed gives the same trace text on every run
    if (getenv("VERIF_DOBJ_NOASLR") == nullptr) {
        int pers = personality(0xffffffff);
        if (pers != -1 && (pers & ADDR_NO_RANDOMIZE) == 0 && personality(pers | ADDR_NO_RANDOMIZE) != -1) {
            setenv("VERIF_DOBJ_NOASLR", "1", 1);
            execv("/proc/self/exe", argv);
        }
    }
    // every phase (unknown / pending / completed / completed-and-requested-again) x every method, for int keys
    // with the copy overload first and string keys with the move overload first
    const std::string lifeI =
        "rI1,cI1,fI1,sI1=4c,gI1:a,rI1,cI1,fI1,gI1:b,sI1=5c,rI1,cI1,sI1=6m,gI1:c,rI1,cI1,fI1,sI1=7m,gI1:e,gI1:f,sI1=8c,fI1,"
        "rI1,F9,gI2:g,F3,gI2:h,gS1:i,gI3:k,F4,gI3:j,poa,pob";
    const std::string lifeS =
        "rS1,cS1,fS1,sS1=4m,gS1:a,rS1,cS1,fS1,gS1:b,sS1=5m,rS1,cS1,sS1=6c,gS1:c,rS1,cS1,fS1,sS1=7c,gS1:e,gS1:f,sS1=8m,fS1,"
        "rS1,F9,gS2:g,F3,gS2:h,gI1:i,gS3:k,F4,gS3:j,poa,pob";
    std::vector<Script> directed = {
        parse("int;" + lifeI),
        parse("int;" + lifeS),
        parse("str;" + lifeI),
        parse("str;" + lifeS),
        // nothing pending at destruction
        parse("int;gI1:a,gS1:b,F1"),
        // the tests' happy paths
        parse("str;gS1:a,gI45:b,rS1,rI45,rS2,rI67,cS1,cI45,sS1=1c,awa,sI45=2c,awb,rS1,rI45,cS1,cI45,fS1,rS1,rI45,fI45,rI45"),
        parse("int;gS1:a,gS2:b,gI45:c,gI55:d,F19,awa,awb,awc,awd"),
        // consumer blocked on a future, setter in another thread; set racing with fulfillAll
        parse("int;gI1:a,awa;afa,sI1=5c"),
        parse("int;gI1:a,gS1:b,awa,awb;afa,sI1=5m,afb,F7;sI1=6c,sS1=8m,F9"),
        parse("str;gI1:a,gI2:b,awa;afa,afb,F3;sI1=4c,sI2=5m,cI1,cI2;rI1,fI1,gI1:c,poc"),
        // double request of a pending key under concurrency: the first future is broken
        parse("int;gI1:a,gI1:b,awa;afb,F2;sI1=1c,cI1"),
        // everything left to the destructor
        parse("int;gI1:a,gS1:b;gI2:c,gI1:d;rI1,cI1,fI1"),
    };
    return client_main(argc, argv, directed, gen, exec);
}
