// client: the lock-based wrappers — guarded, guarded_opt, shared_guarded, shared_guarded_opt,
// ordered_guarded, atomic_guarded — over mutex / timed_mutex / shared_mutex / shared_timed_mutex.
//
// config  = <wrapper>:<mutex>:<enabled>[:d]  (d = use the (bool) constructor of go/sgo)   wrapper ∈ g go sg sgo og ag ; mutex ∈ m tm sm stm ; enabled ∈ 1 0
// ops     = <acq>[variant][!k]  or  <whole>[=v][!k]
//   acq   : L lock | T try_lock | Tf try_lock_for | Tu try_lock_until | Tz/Tn try_lock_for(0 / negative) | Tp try_lock_until(past)
//           (Sz Sn Sp: the same boundary arguments for the shared timed forms)
//           S lock_shared | Sc const lock() | St try_lock_shared | Sf try_lock_shared_for | Su try_lock_shared_until
//   variant (handle life cycle): '' use+destroy | k unlock()+destroy | m move-construct | a move-assign both ways
//   whole : ld load | st=v store | as=v operator= | cv operator T | md modify | rd read | xc=v exchange (rvalue) | xl=v exchange (lvalue argument) | ce=e/d compare_exchange
//   !k    : the k-th user-code invocation inside the op throws (fault injection)
// markers: call/ret/exc <op>; acq <X|S> <b|t|f|u>; got <slot> <0|1>; hd/hu/hmc/hma <slots>; he [<bool>];
//          hfree = by the handle semantics of C01/C08 no handle of this thread owns the lock at this point
#include "gmlc/libguarded/atomic_guarded.hpp"
#include "gmlc/libguarded/guarded.hpp"
#include "gmlc/libguarded/guarded_opt.hpp"
#include "gmlc/libguarded/ordered_guarded.hpp"
#include "gmlc/libguarded/shared_guarded.hpp"
#include "gmlc/libguarded/shared_guarded_opt.hpp"

#include "vclient.hpp"
#include "vpayload.hpp"
#include <optional>
using namespace vclient;
using namespace gmlc::libguarded;
using vpay::Pay;

namespace {

template <class M>
struct MK {
    static constexpr bool timed = false;
    static constexpr bool sharedTimed = false;
};
template <>
struct MK<std::timed_mutex> {
    static constexpr bool timed = true;
    static constexpr bool sharedTimed = true;  // shared_locker falls back to unique_lock<timed_mutex>
};
template <>
struct MK<std::shared_timed_mutex> {
    static constexpr bool timed = true;
    static constexpr bool sharedTimed = true;
};

const std::chrono::milliseconds kDur(5);

// ---- handle sessions ---------------------------------------------------------------------------
template <class H, class AcqFn>
void session(AcqFn acquire, bool exclusive, char variant)
{
    std::optional<H> a;
    std::optional<H> b;
    a.emplace(acquire());
    bool got = static_cast<bool>(*a);
    verif::emit(std::string("got a ") + (got ? "1" : "0"));
    auto use = [exclusive](H& h) {
        if (!h) {
            return;
        }
        if constexpr (std::is_const_v<std::remove_pointer_t<decltype(h.operator->())>>) {
            (void)h->get();
        } else {
            if (exclusive) {
                long v = (*h).get();  // operator* and operator-> both in use
                h->set(v + 1);
            } else {
                (void)(*h).get();
            }
        }
    };
    if (variant == 'k') {
        use(*a);
        verif::emit("hu a");
        a->unlock();
        verif::emit(std::string("he ") + (static_cast<bool>(*a) ? "1" : "0"));
        verif::emit("hfree");  // per C08 nothing owns the lock after unlock()
    } else if (variant == 'm') {
        verif::emit("hmc a b");
        b.emplace(std::move(*a));
        verif::emit("he");
        use(*b);
        verif::emit("hd a");
        a.reset();
        verif::emit("he");
        verif::emit("hd b");
        b.reset();
        verif::emit("he");
        verif::emit("hfree");  // the only owner (b) is gone
    } else if (variant == 'a') {
        verif::emit("hmc a b");
        b.emplace(std::move(*a));  // b owns, a is a husk
        verif::emit("he");
        verif::emit("hma b a");
        *a = std::move(*b);  // a owns again (owning onto husk: nothing released)
        verif::emit("he");
        use(*a);
        verif::emit("hma b a");
        *a = std::move(*b);  // husk onto owning: a releases the lock
        verif::emit("he");
        verif::emit("hfree");  // a's ownership ended at the assignment, b was moved from: nobody owns the lock
        verif::emit("hd b");
        b.reset();
        verif::emit("he");
    } else {
        use(*a);
    }
    if (a) {
        verif::emit("hd a");
        a.reset();
        verif::emit("he");
    }
    // spec-level ownership (C01/C08): every handle of this session has been destroyed
    verif::emit("hfree");
}

struct OpSpec {
    std::string name;   // e.g. "L", "Tf", "ld"
    char variant = 0;   // k m a
    long v1 = 0;
    long v2 = 0;
    int throwAt = 0;
};

OpSpec parse_op(const std::string& s)
{
    OpSpec o;
    std::string body = s;
    auto bang = body.find('!');
    if (bang != std::string::npos) {
        o.throwAt = atoi(body.substr(bang + 1).c_str());
        body = body.substr(0, bang);
    }
    auto eq = body.find('=');
    if (eq != std::string::npos) {
        std::string vals = body.substr(eq + 1);
        body = body.substr(0, eq);
        auto sl = vals.find('/');
        o.v1 = atol(vals.c_str());
        if (sl != std::string::npos) {
            o.v2 = atol(vals.substr(sl + 1).c_str());
        }
    }
    static const std::vector<std::string> acqs = {"Tf", "Tu", "Tz", "Tn", "Tp", "Sc", "St", "Sf", "Su", "Sz", "Sn", "Sp", "L", "T", "S"};
    for (auto& a : acqs) {
        if (body.compare(0, a.size(), a) == 0) {
            std::string rest = body.substr(a.size());
            if (rest.empty() || rest == "k" || rest == "m" || rest == "a") {
                o.name = a;
                o.variant = rest.empty() ? 0 : rest[0];
                return o;
            }
        }
    }
    o.name = body;
    return o;
}

enum class WK { g, go, sg, sgo, og, ag };

// identity tags for the values handed to whole-object operations (vpay::Pay::rev: equal values that are not the same
// object); `rrv <rev>` reports the tag of the value an operation handed back (marker for the python oracle)
static int g_rev_counter = 0;
static long next_rev()
{
    return long(verif::self()) * 1000 + (++g_rev_counter);
}

template <WK K, class W, class M>
void do_op(W& w, const std::string& text)
{
    OpSpec o = parse_op(text);
    constexpr bool hasX = (K == WK::g || K == WK::go || K == WK::sg || K == WK::sgo);
    constexpr bool hasS = (K == WK::sg || K == WK::sgo || K == WK::og);
    constexpr bool hasLS = (K == WK::g || K == WK::go || K == WK::og || K == WK::ag);
    verif::emit("call " + text);
    vpay::arm(o.throwAt);
    try {
        std::string result;
        bool done = false;
        if constexpr (hasX) {
            using H = lock_handle<Pay, M>;
            if (o.name == "L") {
                verif::emit("acq X b");
                session<H>([&] { return w.lock(); }, true, o.variant);
                done = true;
            } else if (o.name == "T") {
                verif::emit("acq X t");
                session<H>([&] { return w.try_lock(); }, true, o.variant);
                done = true;
            }
            if constexpr (MK<M>::timed) {
                if (o.name == "Tf") {
                    verif::emit("acq X f");
                    session<H>([&] { return w.try_lock_for(kDur); }, true, o.variant);
                    done = true;
                } else if (o.name == "Tu") {
                    verif::emit("acq X u");
                    session<H>([&] { return w.try_lock_until(std::chrono::steady_clock::now() + kDur); }, true, o.variant);
                    done = true;
                } else if (o.name == "Tz" || o.name == "Tn") {
                    // boundary arguments: zero / negative duration
                    auto d = std::chrono::milliseconds(o.name == "Tz" ? 0 : -3);
                    verif::emit("acq X f");
                    session<H>([&] { return w.try_lock_for(d); }, true, o.variant);
                    done = true;
                } else if (o.name == "Tp") {
                    // boundary argument: a deadline that has already passed
                    verif::emit("acq X u");
                    session<H>([&] { return w.try_lock_until(std::chrono::steady_clock::now() - kDur); }, true, o.variant);
                    done = true;
                }
            }
        }
        if constexpr (hasS) {
            using SH = shared_lock_handle<Pay, M>;
            const W& cw = w;
            if (o.name == "S") {
                verif::emit("acq S b");
                session<SH>([&] { return cw.lock_shared(); }, false, o.variant);
                done = true;
            } else if (o.name == "St") {
                verif::emit("acq S t");
                session<SH>([&] { return cw.try_lock_shared(); }, false, o.variant);
                done = true;
            }
            if constexpr (K == WK::sg || K == WK::sgo) {
                if (o.name == "Sc") {
                    verif::emit("acq S b");
                    session<SH>([&] { return cw.lock(); }, false, o.variant);
                    done = true;
                }
            }
            if constexpr (MK<M>::sharedTimed) {
                if (o.name == "Sf") {
                    verif::emit("acq S f");
                    session<SH>([&] { return cw.try_lock_shared_for(kDur); }, false, o.variant);
                    done = true;
                } else if (o.name == "Su") {
                    verif::emit("acq S u");
                    session<SH>([&] { return cw.try_lock_shared_until(std::chrono::steady_clock::now() + kDur); }, false, o.variant);
                    done = true;
                } else if (o.name == "Sz" || o.name == "Sn") {
                    auto d = std::chrono::milliseconds(o.name == "Sz" ? 0 : -3);
                    verif::emit("acq S f");
                    session<SH>([&] { return cw.try_lock_shared_for(d); }, false, o.variant);
                    done = true;
                } else if (o.name == "Sp") {
                    verif::emit("acq S u");
                    session<SH>([&] { return cw.try_lock_shared_until(std::chrono::steady_clock::now() - kDur); }, false, o.variant);
                    done = true;
                }
            }
        }
        if constexpr (hasLS) {
            if (o.name == "ld") {
                Pay r = w.load();
                result = std::to_string(r.a);
                verif::emit("rrv " + std::to_string(r.rev));
                done = true;
            } else if (o.name == "st") {
                Pay nv(o.v1);
                nv.rev = next_rev();
                w.store(nv);
                done = true;
            } else if (o.name == "as") {
                Pay nv(o.v1);
                nv.rev = next_rev();
                w = nv;
                done = true;
            }
        }
        // operator T() const of guarded / guarded_opt does not compile (their mutex is not mutable): og, ag only
        if constexpr (K == WK::og || K == WK::ag) {
            if (o.name == "cv") {
                Pay r = static_cast<Pay>(w);
                result = std::to_string(r.a);
                verif::emit("rrv " + std::to_string(r.rev));
                done = true;
            }
        }
        if constexpr (K == WK::og) {
            if (o.name == "md") {
                w.modify([](Pay& p) {
                    vpay::user_call();
                    long v = p.get();
                    p.set(v + 1);
                });
                done = true;
            } else if (o.name == "mc") {
                // a functor whose parameter is `const T&` but which still modifies the object (shallow const: what a
                // pointer-like or mutable-member T allows): modify() promises exclusive access whatever the signature
                w.modify([](const Pay& cp) {
                    vpay::user_call();
                    Pay& p = const_cast<Pay&>(cp);  // the wrapped object itself is not const
                    long v = p.get();
                    p.set(v + 1);
                });
                done = true;
            } else if (o.name == "mv") {
                // the value-returning overload of modify
                long seen = -1;
                long r = w.modify([&seen](Pay& p) {
                    vpay::user_call();
                    long v = p.get();
                    seen = v;
                    p.set(v + 1);
                    return v;
                });
                if (r != seen) {
                    verif::fail("modify returned " + std::to_string(r) + " but its functor returned " + std::to_string(seen));
                }
                done = true;
            } else if (o.name == "rv") {
                // the void overload of read
                long seen = -1;
                w.read([&seen](const Pay& p) {
                    vpay::user_call();
                    seen = p.get();
                });
                result = std::to_string(seen);
                done = true;
            } else if (o.name == "rd") {
                long r = w.read([](const Pay& p) {
                    vpay::user_call();
                    return p.get();
                });
                result = std::to_string(r);
                done = true;
            }
        }
        if constexpr (K == WK::ag) {
            if (o.name == "xc") {
                Pay nv(o.v1);
                nv.rev = next_rev();
                Pay r = w.exchange(std::move(nv));
                result = std::to_string(r.a);
                verif::emit("rrv " + std::to_string(r.rev));
                done = true;
            } else if (o.name == "xl") {
                // exchange called with an LVALUE: the by-value parameter is copy-constructed by the call itself, before
                // any lock operation (fault point 1); a failed copy must leave the register untouched
                Pay nv(o.v1);
                nv.rev = next_rev();
                Pay r = w.exchange(nv);
                result = std::to_string(r.a);
                verif::emit("rrv " + std::to_string(r.rev));
                done = true;
            } else if (o.name == "ce") {
                Pay expected(o.v1);
                Pay desired(o.v2);
                expected.rev = next_rev();
                desired.rev = next_rev();
                bool ok = w.compare_exchange(expected, desired);
                result = std::string(ok ? "1 " : "0 ") + std::to_string(expected.a);
                verif::emit("rrv " + std::to_string(expected.rev));
                done = true;
            }
        }
        vpay::arm(0);
        if (!done) {
            verif::emit("ret " + text + " unsupported");
            return;
        }
        verif::emit("ret " + text + (result.empty() ? "" : " " + result));
    }
    catch (const vpay::Injected&) {
        vpay::arm(0);
        verif::emit("exc " + text);
    }
    // whatever the operation did (returned or threw): when nobody holds the lock the wrapped object must not be a
    // moved-from husk (harness peek: one logical thread runs at a time; the flag is not part of the traced value)
    if (!vpay::unprotected() && w.m_mutex.free_x() && w.m_obj.husk) {
        verif::fail("after " + text + " the wrapped object is left in a moved-from state although nobody holds the lock");
    }
}

template <WK K, class W, class M>
verif::Result run_with(W& w, const Script& sc)
{
    verif::reg_name(&w.m_obj, "P");
    verif::reg_name(&w.m_mutex, "m");
    std::vector<std::function<void()>> bodies;
    for (auto& ops : sc.threads) {
        bodies.push_back([&w, ops] {
            for (auto& op : ops) {
                do_op<K, W, M>(w, op);
            }
        });
    }
    verif::run_threads(bodies);
    after_run();
    // final value, read by the main thread through the wrapper's own lock-free back door
    if (!vpay::unprotected()) {
        verif::emit("final " + std::to_string(w.m_obj.a) + " " + std::to_string(w.m_obj.b));
    }
    verif::unreg(&w.m_obj);
    return verif::end();
}

template <class M>
verif::Result exec_m(const std::string& wk, bool enabled, bool defctor, const Script& sc)
{
    if (wk == "g") {
        guarded<Pay, M> w(0L);
        return run_with<WK::g, guarded<Pay, M>, M>(w, sc);
    }
    if (wk == "go") {
        if (defctor) {
            guarded_opt<Pay, M> w(enabled);  // the (bool) constructor: T default-constructed
            return run_with<WK::go, guarded_opt<Pay, M>, M>(w, sc);
        }
        guarded_opt<Pay, M> w(enabled, 0L);
        return run_with<WK::go, guarded_opt<Pay, M>, M>(w, sc);
    }
    if (wk == "sg") {
        shared_guarded<Pay, M> w(0L);
        return run_with<WK::sg, shared_guarded<Pay, M>, M>(w, sc);
    }
    if (wk == "sgo") {
        if (defctor) {
            shared_guarded_opt<Pay, M> w(enabled);
            return run_with<WK::sgo, shared_guarded_opt<Pay, M>, M>(w, sc);
        }
        shared_guarded_opt<Pay, M> w(enabled, 0L);
        return run_with<WK::sgo, shared_guarded_opt<Pay, M>, M>(w, sc);
    }
    if (wk == "og") {
        ordered_guarded<Pay, M> w(0L);
        return run_with<WK::og, ordered_guarded<Pay, M>, M>(w, sc);
    }
    atomic_guarded<Pay, M> w(0L);
    return run_with<WK::ag, atomic_guarded<Pay, M>, M>(w, sc);
}

verif::Result exec(const Script& sc, const verif::Config& cfg)
{
    verif::begin(cfg);
    g_rev_counter = 0;
    auto parts = split(sc.config, ':');
    std::string wk = parts[0];
    std::string mk = parts.size() > 1 ? parts[1] : "m";
    bool enabled = parts.size() > 2 ? parts[2] != "0" : true;
    bool defctor = parts.size() > 3 && parts[3] == "d";
    verif::emit("cfg lockfam " + wk + " " + mk + " " + (enabled ? "1" : "0"));
    vpay::unprotected() = !enabled;
    if (mk == "m") {
        return exec_m<std::mutex>(wk, enabled, defctor, sc);
    }
    if (mk == "tm") {
        return exec_m<std::timed_mutex>(wk, enabled, defctor, sc);
    }
    if (mk == "sm") {
        return exec_m<std::shared_mutex>(wk, enabled, defctor, sc);
    }
    return exec_m<std::shared_timed_mutex>(wk, enabled, defctor, sc);
}

std::vector<std::string> ops_for(const std::string& wk, const std::string& mk, bool faults)
{
    bool timed = (mk == "tm" || mk == "stm");
    std::vector<std::string> ops;
    bool hasX = (wk == "g" || wk == "go" || wk == "sg" || wk == "sgo");
    bool hasS = (wk == "sg" || wk == "sgo" || wk == "og");
    bool hasLS = (wk == "g" || wk == "go" || wk == "og" || wk == "ag");
    auto add_variants = [&](const std::string& a) {
        ops.push_back(a);
        ops.push_back(a);
        ops.push_back(a + "k");
        ops.push_back(a + "m");
        ops.push_back(a + "a");
    };
    if (hasX) {
        add_variants("L");
        add_variants("T");
        if (timed) {
            add_variants("Tf");
            add_variants("Tu");
            ops.push_back("Tz");
            ops.push_back("Tn");
            ops.push_back("Tp");
        }
    }
    if (hasS) {
        add_variants("S");
        add_variants("St");
        if (wk != "og") {
            add_variants("Sc");
        }
        if (timed) {
            add_variants("Sf");
            add_variants("Su");
            ops.push_back("Sz");
            ops.push_back("Sn");
            ops.push_back("Sp");
        }
    }
    if (hasLS) {
        for (int k = 0; k < 2; ++k) {
            ops.push_back("ld");
            ops.push_back("st=5");
            ops.push_back("as=7");
            if (wk == "og" || wk == "ag") {
                ops.push_back("cv");
            }
        }
        if (faults) {
            ops.push_back("ld!1");
            ops.push_back("st=6!1");
            ops.push_back("as=8!1");
            if (wk == "og" || wk == "ag") {
                ops.push_back("cv!1");
            }
        }
    }
    if (wk == "og") {
        for (int k = 0; k < 3; ++k) {
            ops.push_back("md");
            ops.push_back("mc");
            ops.push_back("rd");
            ops.push_back("mv");
            ops.push_back("rv");
        }
        if (faults) {
            ops.push_back("md!1");
            ops.push_back("mc!1");
            ops.push_back("rd!1");
            ops.push_back("mv!1");
            ops.push_back("rv!1");
        }
    }
    if (wk == "ag") {
        for (int k = 0; k < 2; ++k) {
            ops.push_back("xc=3");
            ops.push_back("xc=4");
            ops.push_back("xl=3");
            ops.push_back("ce=0/9");
            ops.push_back("ce=3/4");
            ops.push_back("ce=5/3");
        }
        if (faults) {
            ops.push_back("xc=2!1");
            ops.push_back("xl=2!1");
            ops.push_back("xc=2!2");
            ops.push_back("ce=0/1!1");
            ops.push_back("ce=0/1!2");
            ops.push_back("ce=77/1!2");
        }
    }
    return ops;
}

Script gen(Rng& r, int size)
{
    static const std::vector<std::string> wks = {"g", "go", "sg", "sgo", "og", "ag"};
    static const std::vector<std::string> mks = {"m", "tm", "sm", "stm"};
    Script s;
    std::string wk = r.pick(wks);
    std::string mk = r.pick(mks);
    bool opt = (wk == "go" || wk == "sgo");
    bool enabled = !(opt && r.chance(1, 4));
    s.config = wk + ":" + mk + ":" + (enabled ? "1" : "0") + ((opt && r.chance(1, 3)) ? ":d" : "");
    auto ops = ops_for(wk, mk, true);
    int nthreads = 2 + r.below(2 + size);
    for (int t = 0; t < nthreads; ++t) {
        std::vector<std::string> my;
        int n = 1 + r.below(3 + size);
        for (int i = 0; i < n; ++i) {
            my.push_back(r.pick(ops));
        }
        s.threads.push_back(my);
    }
    return s;
}

}  // namespace

int main(int argc, char** argv)
{
    std::vector<Script> directed;
    // every wrapper × mutex kind × enabled: every op once, single thread (path forcing), and pairs
    for (std::string wk : {"g", "go", "sg", "sgo", "og", "ag"}) {
        for (std::string mk : {"m", "tm", "sm", "stm"}) {
            for (int en = 1; en >= 0; --en) {
                if (en == 0 && wk != "go" && wk != "sgo") {
                    continue;
                }
                auto ops = ops_for(wk, mk, true);
                std::sort(ops.begin(), ops.end());
                ops.erase(std::unique(ops.begin(), ops.end()), ops.end());
                Script s;
                s.config = wk + ":" + mk + ":" + (en ? "1" : "0");
                s.threads.push_back(ops);
                directed.push_back(s);
                // contention: the same list in two threads (try/timed failures, blocking)
                Script s2 = s;
                auto rev = ops;
                std::reverse(rev.begin(), rev.end());
                s2.threads.push_back(rev);
                directed.push_back(s2);
                if ((wk == "go" || wk == "sgo") && mk == "stm") {
                    Script s3 = s2;  // the (bool) constructor
                    s3.config += ":d";
                    directed.push_back(s3);
                }
            }
        }
    }
    // equal values that are not the same value (vpay::Pay::rev): stores of one value racing with exchanges
    for (std::string mk : {"m", "stm"}) {
        Script e;
        e.config = "ag:" + mk + ":1";
        e.threads = {{"st=5", "st=5", "st=5"}, {"xc=3", "xc=5", "xc=4"}, {"st=5", "ce=5/5", "st=5"}};
        directed.push_back(e);
    }
    return client_main(argc, argv, directed, gen, exec);
}
