// client: gmlc::libguarded::lr_guarded<vpay::OpLog>           (script config: "-")
// ops (per logical thread, in order):
//   S | St | Sf | Su      lock_shared / try_lock_shared / try_lock_shared_for / try_lock_shared_until  (take a handle)
//   r                     read the whole object through the handle (word by word, scheduling points in between)
//   R                     destroy the handle
//   M<k>                  modify: append id k
//   M<k>!<a><w>           ... the functor throws in its a-th application (a = 1 | 2), w = b before touching the
//                         object | m in the middle (object left torn) | a after completing its work
// path forcing (directed scripts only; no trace events):
//   G<k>:<cond>           the k-th scheduling point of this thread from now on (inside the next library call) is blocked
//                         until <cond> holds;  <cond> = f<n> flag n posted | rl0 / rl1 m_readingLeft is false / true |
//                         g<t> thread t is parked at its gate
//   W:<cond>              wait (client level) until <cond> holds
//   P<n>                  post flag n
//   M<k>^<n>              modify whose functor, in its first application, posts flag n and waits for flag n+1; the writer
//                         then parks at the yield of its first wait loop until flag n+2
// A thread holds at most one handle and never calls modify while holding one (it would wait for itself).
// markers: call/ret ls <variant> ; call/ret rel ; call/ret/exc modify <k> ; uth ; final line "0 fin <left> <right>"
#include "gmlc/libguarded/lr_guarded.hpp"

#include "vclient.hpp"
#include "vpayload.hpp"
#include "vpayload_lr.hpp"
#include <optional>
using namespace vclient;
using gmlc::libguarded::lr_guarded;
using vpay::OpLog;

namespace {
using LR = lr_guarded<OpLog>;
const std::chrono::milliseconds kDur(5);

struct ModSpec {
    int k = 0;
    int app = 0;   // 0 = never throws
    char where = 0;
    int flag = 0;  // > 0: first application posts flag, waits for flag + 1
};

std::vector<char>& flags()
{
    static std::vector<char> f(32, 0);
    return f;
}

verif::Enabled cond_of(LR& g, const std::string& c)
{
    if (c[0] == 'f') {
        size_t n = size_t(atoi(c.c_str() + 1)) % 32;
        return [n] { return flags()[n] != 0 ? int(verif::EN) : int(verif::DIS); };
    }
    if (c == "rl0" || c == "rl1") {
        bool want = c == "rl1";
        LR* pg = &g;
        return [pg, want] { return pg->m_readingLeft.raw() == want ? int(verif::EN) : int(verif::DIS); };
    }
    if (c[0] == 'g') {
        int t = atoi(c.c_str() + 1);
        return [t] { return verif::at_gate(t) ? int(verif::EN) : int(verif::DIS); };
    }
    return [] { return int(verif::EN); };
}

ModSpec parse_mod(const std::string& op)
{
    ModSpec m;
    auto hat = op.find('^');
    if (hat != std::string::npos) {
        m.k = atoi(op.substr(1, hat - 1).c_str());
        m.flag = atoi(op.c_str() + hat + 1);
        return m;
    }
    auto bang = op.find('!');
    m.k = atoi(op.substr(1, bang == std::string::npos ? std::string::npos : bang - 1).c_str());
    if (bang != std::string::npos && bang + 2 < op.size() + 0) {
        m.app = op[bang + 1] - '0';
        m.where = op[bang + 2];
    }
    return m;
}

// A callable whose invocation is value-category sensitive: called as an RVALUE it "gives its state away" (a second
// rvalue call does nothing), called as an lvalue it is an ordinary functor.  modify() has to invoke its functor twice,
// once per copy, so it must call it as an lvalue both times.
template <class F>
struct RvalueSensitive {
    F f;
    bool spent = false;
    void operator()(OpLog& x) & { f(x); }
    void operator()(OpLog& x) &&
    {
        if (!spent) {
            spent = true;
            f(x);
        }
    }
};

void do_modify(LR& g, const ModSpec& m)
{
    std::string name = "modify " + std::to_string(m.k);
    verif::emit("call " + name);
    int count = 0;
    try {
        auto body = [&](OpLog& x) {
            ++count;
            if (m.flag > 0 && count == 1) {
                flags()[size_t(m.flag) % 32] = 1;
                size_t w = size_t(m.flag + 1) % 32;
                verif::sched([w] { return flags()[w] != 0 ? int(verif::EN) : int(verif::DIS); });
                // park this writer at its 7th scheduling point from here — 3 inside append, `ast rl`, `ald cl`, the first
                // spin load, and then the yield of the first wait loop (if the load saw a reader) — until flag n+2
                size_t w2 = size_t(m.flag + 2) % 32;
                verif::gate_at(7, [w2] { return flags()[w2] != 0 ? int(verif::EN) : int(verif::DIS); });
            }
            bool thrower = (m.app == count);
            if (thrower && m.where == 'b') {
                verif::emit("uth");
                throw vpay::Injected();
            }
            if (thrower && m.where == 'm') {
                x.append(m.k, 1 + verif::choose(2, "cut"));
                verif::emit("uth");
                throw vpay::Injected();
            }
            x.append(m.k);
            if (thrower && m.where == 'a') {
                verif::emit("uth");
                throw vpay::Injected();
            }
        };
        if ((m.k & 1) != 0) {
            g.modify(RvalueSensitive<decltype(body)>{body});   // unusual but legal: a temporary, rvalue-sensitive callable
        } else {
            g.modify(body);
        }
        verif::emit("ret " + name);
    }
    catch (const vpay::Injected&) {
        verif::emit("exc " + name);
    }
}

}  // namespace

static verif::Result exec(const Script& sc, const verif::Config& cfg)
{
    verif::begin(cfg);
    std::fill(flags().begin(), flags().end(), 0);
    verif::emit("cfg lr " + sc.config);
    {
        LR g;
        verif::reg_name(&g.m_readingLeft, "rl");
        verif::reg_name(&g.m_countingLeft, "cl");
        verif::reg_name(&g.m_leftReadCount, "lc");
        verif::reg_name(&g.m_rightReadCount, "rc");
        verif::reg_name(&g.m_writeMutex, "wm");
        verif::reg_name(&g.m_left, "left");
        verif::reg_name(&g.m_right, "right");
        std::vector<std::function<void()>> bodies;
        for (auto& ops : sc.threads) {
            bodies.push_back([&g, ops] {
                std::optional<LR::shared_handle> h;
                bool have = false;
                auto release = [&] {
                    verif::emit("call rel");
                    h.reset();
                    have = false;
                    verif::emit("ret rel");
                };
                for (auto& op : ops) {
                    if (op[0] == 'S') {
                        if (have) {
                            release();
                        }
                        int variant = op == "S" ? 0 : (op == "St" ? 1 : (op == "Sf" ? 2 : 3));
                        std::string name = "ls " + std::to_string(variant);
                        verif::emit("call " + name);
                        switch (variant) {
                            case 0: h.emplace(g.lock_shared()); break;
                            case 1: h.emplace(g.try_lock_shared()); break;
                            case 2: h.emplace(g.try_lock_shared_for(kDur)); break;
                            default: h.emplace(g.try_lock_shared_until(std::chrono::steady_clock::now() + kDur)); break;
                        }
                        have = true;
                        if (!*h) {
                            verif::fail("lock_shared returned a null handle");
                        }
                        verif::emit("ret " + name);
                    } else if (op == "r") {
                        if (have && *h) {
                            (void)(*h)->snapshot();
                        }
                    } else if (op == "R") {
                        if (have) {
                            release();
                        }
                    } else if (op[0] == 'M') {
                        if (have) {
                            release();
                        }
                        do_modify(g, parse_mod(op));
                    } else if (op[0] == 'G') {
                        auto colon = op.find(':');
                        verif::gate_at(atoi(op.c_str() + 1), cond_of(g, op.substr(colon + 1)));
                    } else if (op[0] == 'W') {
                        verif::sched(cond_of(g, op.substr(2)));
                    } else if (op[0] == 'P') {
                        flags()[size_t(atoi(op.c_str() + 1)) % 32] = 1;
                    }
                }
                if (have) {
                    release();
                }
            });
        }
        verif::run_threads(bodies);
        after_run();
        if (g.m_left.raw_torn() || g.m_right.raw_torn()) {
            verif::fail("final state torn");
        }
        verif::emit("fin " + OpLog::text(g.m_left.raw()) + " " + OpLog::text(g.m_right.raw()));
        verif::unreg(&g.m_left);
        verif::unreg(&g.m_right);
    }
    return verif::end();
}

static Script gen(Rng& r, int size)
{
    Script s;
    s.config = "-";
    int nthreads = 2 + r.below(2 + size);
    int budget = 10;  // total number of modify calls (payload capacity 24)
    int next_id = 1;
    bool any_writer = false;
    for (int t = 0; t < nthreads; ++t) {
        std::vector<std::string> ops;
        // roles: 0 reader, 1 writer, 2 mixed
        int role = r.below(3);
        if (t == nthreads - 1 && !any_writer) {
            role = 1;
        }
        int n = 1 + r.below(2 + size);
        for (int i = 0; i < n; ++i) {
            bool w = role == 1 || (role == 2 && r.chance(1, 2));
            if (w && budget > 0) {
                --budget;
                any_writer = true;
                std::string op = "M" + std::to_string(next_id++);
                if (r.chance(1, 4)) {
                    op += "!";
                    op += char('1' + r.below(2));
                    op += "bma"[r.below(3)];
                }
                ops.push_back(op);
            } else {
                static const char* acq[] = {"S", "St", "Sf", "Su"};
                ops.push_back(r.chance(2, 3) ? "S" : acq[r.below(4)]);
                int reads = r.below(4);
                for (int k = 0; k < reads; ++k) {
                    ops.push_back("r");
                }
                ops.push_back("R");
            }
        }
        s.threads.push_back(ops);
    }
    return s;
}

int main(int argc, char** argv)
{
    std::vector<Script> directed = {
        // single thread: both initial sides, all acquisition forms
        parse("-;S,r,R,M1,St,r,R,M2,Sf,r,r,R,M3,Su,r,R"),
        // throw edges, sequentially: first / second application, before / middle / after; on both sides
        parse("-;M1!1b,S,r,R,M2!1m,S,r,R,M3!1a,S,r,R,M4,M5!1b,M6!1m,M7!1a,S,r,R"),
        parse("-;M1!2b,S,r,R,M2!2m,S,r,R,M3!2a,S,r,R,M4,M5!2b,M6!2m,M7!2a,S,r,R"),
        // a reader parked inside its handle while writers run: both wait loops iterate
        parse("-;S,r,r,r,r,R,S,r,r,r,R;M1,M2,M3"),
        parse("-;S,r,r,R,S,r,r,R,S,r,R;S,r,r,r,R,S,r,R;M1,M2,M3,M4"),
        parse("-;S,r,R,S,r,R,S,r,R,S,r,R;M1,M2;M3,M4"),
        // throws under contention
        parse("-;S,r,r,R,S,r,r,R;M1!1m,M2!2m,M3;S,r,R,S,r,r,R"),
        parse("-;M1!2m,M2;M3!1m,M4;S,r,r,r,R,S,r,r,R"),
        // real-time order: a reader that starts after a modify returned
        parse("-;M1,S,r,R,M2,S,r,R;S,r,R,S,r,R"),
        // forced interleavings (gates): a stale reader — counting flag loaded before a writer flipped it — registers in the
        // counter the NEXT modify's first wait loop looks at (either counter);
        parse("-;G2:f1,S,P2,r,W:g2,R,P3;W:g1,M1,M2^1"),
        parse("-;M1,G2:f1,S,P2,r,W:g2,R,P3;W:g1,M2,M3^1"),
        // a reader that arrives between the flip of m_readingLeft and the flip of m_countingLeft (both sides)
        parse("-;G3:rl0,S,r,R;W:g1,M1"),
        parse("-;M1,G3:rl1,S,r,R;W:g1,M2"),
        // several writers only
        parse("-;M1,M2;M3,M4;M5!1a,M6!2b"),
    };
    return client_main(argc, argv, directed, gen, exec);
}
