// client: gmlc::concurrency::Latch   (script config = start count; ops: arrive | wait | aaw)
#include "gmlc/concurrency/Latch.hpp"

#include "vclient.hpp"
using namespace vclient;
using gmlc::concurrency::Latch;

static verif::Result exec(const Script& sc, const verif::Config& cfg)
{
    verif::begin(cfg);
    int start = atoi(sc.config.c_str());
    verif::emit("cfg latch " + std::to_string(start));
    {
        Latch L(start);
        VERIF_NAME(L, mtx, "mtx");
        VERIF_NAME(L, cv, "cv");
        VERIF_NAME(L, counter_, "counter");
        std::vector<std::function<void()>> bodies;
        for (auto& ops : sc.threads) {
            bodies.push_back([&L, ops] {
                for (auto& op : ops) {
                    CallScope c(op);
                    if (op == "arrive") {
                        L.arrive();
                    } else if (op == "wait") {
                        L.wait();
                    } else if (op == "aaw") {
                        L.arrive_and_wait();
                    }
                    c.ret();
                }
            });
        }
        verif::run_threads(bodies);
        after_run();
    }
    return verif::end();
}

static Script gen(Rng& r, int size)
{
    Script s;
    int nthreads = 2 + r.below(2 + size);
    int start = r.below(nthreads + 2);
    s.config = std::to_string(start);
    int arrivals = 0;
    for (int t = 0; t < nthreads; ++t) {
        std::vector<std::string> ops;
        int n = 1 + r.below(2 + size);
        for (int i = 0; i < n; ++i) {
            int k = r.below(3);
            ops.push_back(k == 0 ? "arrive" : (k == 1 ? "wait" : "aaw"));
            if (k != 1) {
                ++arrivals;
            }
        }
        s.threads.push_back(ops);
    }
    // every generated script must terminate, whatever the schedule: a waiter may sit in front of its
    // own thread's arrivals, so the arrivals that open the latch come from threads that never wait.
    // Any deadlock the scheduler reports is then a lost wake-up and never a script artefact.
    (void)arrivals;
    int left = start;
    while (left > 0) {
        int n = 1 + r.below(left);
        s.threads.push_back(std::vector<std::string>(size_t(n), "arrive"));
        left -= n;
    }
    return s;
}

int main(int argc, char** argv)
{
    std::vector<Script> directed = {
        parse("2;arrive;arrive;wait"),
        parse("1;wait;arrive"),
        parse("2;aaw;aaw"),
        parse("3;aaw,wait;aaw;arrive;wait,wait"),
        parse("0;wait;arrive"),
        parse("1;arrive,arrive;wait;wait"),
        parse("2;wait;wait;arrive;arrive;arrive"),
    };
    return client_main(argc, argv, directed, gen, exec);
}
