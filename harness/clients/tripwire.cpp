// client: gmlc::concurrency::TripWire / TripWireTrigger / TripWireDetector   (TripWire.hpp)
//
// script  = <nExpl>[/<prologue ops separated by '.'>];<ops of thread 1>;<ops of thread 2>;...
//   lines : e<k> (explicit, k < nExpl: e0 from make_tripline(), the others from make_triplines()),
//           decl (DECLARE_TRIPLINE), ix<k> (DECLARE_INDEXED_TRIPLINES(NIDX); k >= NIDX is out of range)
//   ops   : mkT:<i>:<line>   T_i = new TripWireTrigger on <line>          (ix: may throw std::out_of_range)
//           mkD:<i>:<line>   D_i = new TripWireDetector on <line>
//           mv:<i>:<j>       T_i = new TripWireTrigger(std::move(T_j))     (move construction)
//           as:<i>:<j>       T_i = std::move(T_j)                          (move assignment, i == j allowed)
//           cp:<i>:<j>       D_i = new TripWireDetector(D_j)               (implicit copy)
//           rm:<i>           destroy T_i          rd:<i>   destroy D_i
//           ck:<i>           D_i.isTripped()
//           pr:<i>:<k>       if (D_i.isTripped()) read datum k
//           wt:<i>           poll D_i.isTripped() until it is true (bounded spinning, then a harness-level wait)
//           fe:<k>           the client drops its own reference to explicit line e<k> (the line lives on in the objects built on it)
//           w:<k>            write plain datum k (fresh value)     r:<k>  read plain datum k
//   The prologue runs on the main thread (tid 0) before the logical threads start; after they have
//   finished the main thread destroys every trigger still alive (ascending id), polls every detector
//   still alive and destroys it.
// Triggers are used by one thread at a time; a detector made in the prologue may be POLLED (ck / pr / wt) by several
// threads at once (isTripped() is const; the library itself shares detectors between threads).
#include "gmlc/concurrency/TripWire.hpp"

#include "vclient.hpp"

#include <csignal>
using namespace vclient;
using namespace gmlc::concurrency;

#ifndef TW_NIDX
#define TW_NIDX 4
#endif
DECLARE_TRIPLINE()
DECLARE_INDEXED_TRIPLINES(TW_NIDX)

namespace {
constexpr int NIDX = TW_NIDX;
constexpr int MAXOBJ = 64;
constexpr int MAXDATA = 16;

struct World {
    std::vector<TriplineType> expl;
    std::vector<std::unique_ptr<TripWireTrigger>> T;
    std::vector<std::unique_ptr<TripWireDetector>> D;
    long data[MAXDATA];
    long stamp = 0;
};

std::string lname(const void* p) { return verif::name_of(p); }
// harness peek at the line an object is bound to, whatever kind of pointer the tree under test keeps
template <class T>
T* raw_line(const std::shared_ptr<T>& p) { return p.get(); }
template <class T>
T* raw_line(const std::weak_ptr<T>& p) { return p.lock().get(); }
std::string tline(const TripWireTrigger& t) { return lname(raw_line(t.lineTrigger)); }
std::string dline(const TripWireDetector& d) { return lname(raw_line(d.lineDetector)); }

// returns false when the text is not a line of this run (client error in the script)
bool is_expl(const std::string& s, const World& w, size_t& k)
{
    if (s.size() < 2 || s[0] != 'e') {
        return false;
    }
    k = size_t(atoi(s.c_str() + 1));
    return k < w.expl.size();
}

// --fresh (first run of the process only): the static declared / indexed lines are NOT touched before the logical threads
// run, so their first use — and whatever lazy creation a tree under test does there — happens inside the run, possibly
// from several threads at once.  Lines are then named when an object is first built on them (see name_fresh).
bool g_fresh = false;
bool g_fresh_now = false;

void name_fresh(const void* line, const std::string& src)
{
    if (g_fresh_now && line != nullptr && !verif::is_registered(line)) {
        // a second, different line for an index that already has a named one keeps its automatic name: the oracle then
        // reports "object constructed on ix1 holds line <other>"
        static std::vector<std::string> given;
        if (std::find(given.begin(), given.end(), src) == given.end()) {
            given.push_back(src);
            verif::reg_name(line, src);
        }
    }
}

void do_op(World& w, const std::string& op)
{
    auto f = split(op, ':');
    const std::string& o = f[0];
    auto num = [&f](size_t i) { return (i < f.size()) ? atoi(f[i].c_str()) : 0; };
    if (o == "mkT" || o == "mkD") {
        int i = num(1);
        const std::string& src = f[2];
        std::string nm = o + " " + std::to_string(i);
        verif::emit("call " + nm + " " + src);
        bool trig = (o == "mkT");
        try {
            size_t k = 0;
            if (src == "decl") {
                if (trig) {
                    w.T[i] = std::make_unique<TripWireTrigger>();
                } else {
                    w.D[i] = std::make_unique<TripWireDetector>();
                }
            } else if (src.rfind("ix", 0) == 0) {
                auto idx = static_cast<unsigned int>(atoi(src.c_str() + 2));
                if (trig) {
                    w.T[i] = std::make_unique<TripWireTrigger>(idx);
                } else {
                    w.D[i] = std::make_unique<TripWireDetector>(idx);
                }
            } else if (is_expl(src, w, k)) {
                if (trig) {
                    w.T[i] = std::make_unique<TripWireTrigger>(w.expl[k]);
                } else {
                    w.D[i] = std::make_unique<TripWireDetector>(w.expl[k]);
                }
            } else {
                verif::fail("client-error: unknown line " + src);
                return;
            }
            name_fresh(trig ? static_cast<const void*>(raw_line(w.T[i]->lineTrigger))
                            : static_cast<const void*>(raw_line(w.D[i]->lineDetector)), src);
            verif::emit("ret " + nm + " " + (trig ? tline(*w.T[i]) : dline(*w.D[i])));
        }
        catch (const std::out_of_range&) {
            verif::emit("ret " + nm + " exc");
        }
    } else if (o == "mv") {
        int i = num(1);
        int j = num(2);
        std::string nm = "mv " + std::to_string(i) + " " + std::to_string(j);
        verif::emit("call " + nm);
        w.T[i] = std::make_unique<TripWireTrigger>(std::move(*w.T[j]));
        verif::emit("ret " + nm + " " + tline(*w.T[i]) + " " + tline(*w.T[j]));
    } else if (o == "as") {
        int i = num(1);
        int j = num(2);
        std::string nm = "as " + std::to_string(i) + " " + std::to_string(j);
        verif::emit("call " + nm);
        *w.T[i] = std::move(*w.T[j]);
        verif::emit("ret " + nm + " " + tline(*w.T[i]) + " " + tline(*w.T[j]));
    } else if (o == "cp") {
        int i = num(1);
        int j = num(2);
        std::string nm = "cp " + std::to_string(i) + " " + std::to_string(j);
        verif::emit("call " + nm);
        w.D[i] = std::make_unique<TripWireDetector>(*w.D[j]);
        verif::emit("ret " + nm + " " + dline(*w.D[i]) + " " + dline(*w.D[j]));
    } else if (o == "rm") {
        int i = num(1);
        std::string nm = "rm " + std::to_string(i);
        verif::emit("call " + nm);
        w.T[i].reset();
        verif::emit("ret " + nm);
    } else if (o == "rd") {
        int i = num(1);
        std::string nm = "rd " + std::to_string(i);
        verif::emit("call " + nm);
        w.D[i].reset();
        verif::emit("ret " + nm);
    } else if (o == "ck" || o == "pr") {
        int i = num(1);
        std::string nm = "ck " + std::to_string(i);
        verif::emit("call " + nm);
        bool v = w.D[i]->isTripped();
        verif::emit("ret " + nm + (v ? " 1" : " 0"));
        if (o == "pr" && v) {
            int k = num(2);
            verif::emit("prd d" + std::to_string(k) + " " + std::to_string(w.data[k]));
        }
    } else if (o == "wt") {
        // poll a few times (racing with the destruction), then wait at the harness level until the line
        // has been written (no event; keeps the script terminating under unfair schedules) and poll again
        int i = num(1);
        std::string nm = "ck " + std::to_string(i);
        bool v = false;
        for (int n = 0; n < 3 && !v; ++n) {
            if (n == 2) {
                const auto* cell = raw_line(w.D[i]->lineDetector);
                verif::sched([cell] { return (cell == nullptr || cell->raw()) ? int(verif::EN) : int(verif::DIS); });
            }
            verif::emit("call " + nm);
            v = w.D[i]->isTripped();
            verif::emit("ret " + nm + (v ? " 1" : " 0"));
            if (!v && n < 1) {
                std::this_thread::yield();
            }
        }
        if (!v) {
            verif::fail("isTripped() is false although the line has been tripped");
        }
    } else if (o == "fe") {
        // the client gives up its OWN reference to explicit line k (objects built on it keep theirs); no trace event
        size_t k = size_t(num(1));
        if (k < w.expl.size()) {
            w.expl[k].reset();
        }
    } else if (o == "w") {
        int k = num(1);
        w.data[k] = ++w.stamp;
        verif::emit("pwr d" + std::to_string(k) + " " + std::to_string(w.data[k]));
    } else if (o == "r") {
        int k = num(1);
        verif::emit("prd d" + std::to_string(k) + " " + std::to_string(w.data[k]));
    } else if (!o.empty()) {
        verif::fail("client-error: unknown op " + op);
    }
}

// a crash inside the library (null / wild line pointer) must still name the input that caused it
void on_crash(int sig)
{
    verif::Result r = verif::end();
    r.failures.push_back(std::string("crash: signal ") + std::to_string(sig) + " inside the library (last event: " +
                         (r.trace.empty() ? std::string("-") : r.trace.back()) + ")");
    if (cur().sc != nullptr) {
        dump(stdout, cur().seed, cur().strat, *cur().sc, r);
    }
    fflush(stdout);
    _exit(3);
}

verif::Result exec(const Script& sc, const verif::Config& cfg)
{
    static bool first = true;
    g_fresh_now = g_fresh && first;
    first = false;
    // the declared / indexed lines are function-local statics of the library: create them outside the
    // recording and put them back to "not tripped" so that every run starts like a fresh process
    // In fresh mode only the declared line and index 0 are touched beforehand: that completes the library's function-local
    // static initialisation (guarded by a real __cxa_guard lock the scheduler cannot see — no logical thread may be parked
    // inside it) while leaving every other index for the run itself.
    unsigned int pre = g_fresh_now ? 1U : unsigned(NIDX);
    TripWire::getLine()->store(false);
    for (unsigned int k = 0; k < pre; ++k) {
        TripWire::getIndexedLine(k)->store(false);
    }
    verif::begin(cfg);
    // constructing a line's atomic<bool> is a scheduling point (lazy creation windows) — only in fresh mode, after the
    // static initialisation above is complete
    verif::g_ctor_sched = g_fresh_now ? 1 : 0;
    verif::reg_name(TripWire::getLine().get(), "decl");
    for (unsigned int k = 0; k < pre; ++k) {
        verif::reg_name(TripWire::getIndexedLine(k).get(), "ix" + std::to_string(k));
    }
    auto cfgparts = split(sc.config, '/');
    int nexpl = atoi(cfgparts[0].c_str());
    verif::emit("cfg tripwire " + std::to_string(NIDX) + " " + std::to_string(nexpl));
    {
        World w;
        w.T.resize(MAXOBJ);
        w.D.resize(MAXOBJ);
        for (auto& d : w.data) {
            d = 0;
        }
        if (nexpl > 0) {
            w.expl.push_back(make_tripline());
        }
        if (nexpl > 1) {
            auto more = make_triplines(nexpl - 1);
            w.expl.insert(w.expl.end(), more.begin(), more.end());
        }
        for (size_t k = 0; k < w.expl.size(); ++k) {
            verif::reg_name(w.expl[k].get(), "e" + std::to_string(k));
        }
        if (cfgparts.size() > 1) {
            for (auto& op : split(cfgparts[1], '.')) {
                do_op(w, op);
            }
        }
        std::vector<std::function<void()>> bodies;
        for (auto& ops : sc.threads) {
            bodies.push_back([&w, ops] {
                verif::emit("fork");
                for (auto& op : ops) {
                    do_op(w, op);
                }
            });
        }
        verif::run_threads(bodies);
        after_run();
        for (int i = 0; i < MAXOBJ; ++i) {
            if (w.T[size_t(i)]) {
                do_op(w, "rm:" + std::to_string(i));
            }
        }
        for (int i = 0; i < MAXOBJ; ++i) {
            if (w.D[size_t(i)]) {
                do_op(w, "ck:" + std::to_string(i));
                do_op(w, "rd:" + std::to_string(i));
            }
        }
    }
    return verif::end();
}
}  // namespace


// ---- script generation ---------------------------------------------------------------------------
// Discipline that makes every generated script terminate and be data-race free on correct code under
// EVERY schedule:
//  * every object is used by exactly one thread (objects made in the prologue are handed to one thread);
//  * a line is either SHARED (any thread, and the prologue, may hold bound triggers on it) or EXCLUSIVE to
//    one logical thread (only that thread ever destroys a bound trigger on it);
//  * a datum is attached to a line; it is written either by the prologue only, or only by the thread the
//    line is exclusive to and only before that thread's first tripping destruction on that line; it is
//    read only after a detector on that line has been seen tripped (so whichever store the detector read,
//    the storing thread had every write of the datum in its past);
//  * `wt` (spin until tripped) is used by thread t only on lines exclusive to a thread t' < t that
//    unconditionally trips the line (thread 1 never waits; no cycles).
namespace {
struct GTrig {
    bool alive = false;
    int line = -1;  // index into pool, -1 = moved-from
    int owner = 0;
};
struct GDet {
    bool alive = false;
    int line = 0;
    int owner = 0;
};
struct GData {
    int line = 0;
    int writer = 0;
};
struct GenState {
    std::vector<std::string> pool;  // line names
    std::vector<int> excl;          // per pool line: 0 shared, t exclusive to thread t
    std::vector<GTrig> T;
    std::vector<GDet> D;
    std::vector<GData> data;
    std::vector<std::vector<char>> trippedBy;  // [thread][line]
    std::vector<char> needTrip;                // per line: somebody spins on it
    int nthreads = 0;
};

bool allowed(const GenState& g, int t, int l) { return g.excl[size_t(l)] == 0 || g.excl[size_t(l)] == t; }

template <class P>
std::vector<int> owned(const std::vector<P>& v, int t)
{
    std::vector<int> out;
    for (size_t i = 0; i < v.size(); ++i) {
        if (v[i].alive && v[i].owner == t) {
            out.push_back(int(i));
        }
    }
    return out;
}

std::string S(int v) { return std::to_string(v); }

// one random operation of thread t (0 = prologue); appends to ops; may append nothing
void gen_op(GenState& g, Rng& r, int t, std::vector<std::string>& ops)
{
    auto myT = owned(g.T, t);
    auto myD = owned(g.D, t);
    int npool = int(g.pool.size());
    int k = r.below(20);
    bool room = g.T.size() + 8 < size_t(MAXOBJ) && g.D.size() + 8 < size_t(MAXOBJ);
    if (k < 3 && room) {  // new trigger
        if (r.chance(1, 8)) {
            ops.push_back("mkT:" + S(int(g.T.size())) + ":ix" + S(NIDX + r.below(3)));  // out of range: throws
            g.T.emplace_back();
            return;
        }
        std::vector<int> ok;
        for (int l = 0; l < npool; ++l) {
            if (allowed(g, t, l)) {
                ok.push_back(l);
            }
        }
        if (ok.empty()) {
            return;
        }
        int l = r.pick(ok);
        GTrig x;
        x.alive = true;
        x.line = l;
        x.owner = t;
        ops.push_back("mkT:" + S(int(g.T.size())) + ":" + g.pool[size_t(l)]);
        g.T.push_back(x);
    } else if (k < 6 && room) {  // new detector
        if (r.chance(1, 8)) {
            ops.push_back("mkD:" + S(int(g.D.size())) + ":ix" + S(NIDX + r.below(3)));
            g.D.emplace_back();
            return;
        }
        GDet x;
        x.alive = true;
        x.line = r.below(npool);
        x.owner = t;
        ops.push_back("mkD:" + S(int(g.D.size())) + ":" + g.pool[size_t(x.line)]);
        g.D.push_back(x);
    } else if (k < 8 && room && !myT.empty()) {  // move construction
        int j = r.pick(myT);
        GTrig x = g.T[size_t(j)];
        g.T[size_t(j)].line = -1;
        ops.push_back("mv:" + S(int(g.T.size())) + ":" + S(j));
        g.T.push_back(x);
    } else if (k < 10 && !myT.empty()) {  // move assignment (possibly onto itself)
        int i = r.pick(myT);
        int j = r.pick(myT);
        if (i != j) {
            g.T[size_t(i)].line = g.T[size_t(j)].line;
            g.T[size_t(j)].line = -1;
        }
        ops.push_back("as:" + S(i) + ":" + S(j));
    } else if (k < 13 && !myT.empty()) {  // destruction
        int i = r.pick(myT);
        if (g.T[size_t(i)].line >= 0) {
            g.trippedBy[size_t(t)][size_t(g.T[size_t(i)].line)] = 1;
        }
        g.T[size_t(i)].alive = false;
        ops.push_back("rm:" + S(i));
    } else if (k < 15 && !myD.empty()) {  // poll, reading a datum of the line when tripped
        int i = r.pick(myD);
        int l = g.D[size_t(i)].line;
        std::vector<int> ds;
        for (size_t d = 0; d < g.data.size(); ++d) {
            if (g.data[d].line == l) {
                ds.push_back(int(d));
            }
        }
        if (!ds.empty() && t != 0) {
            ops.push_back("pr:" + S(i) + ":" + S(r.pick(ds)));
        } else {
            ops.push_back("ck:" + S(i));
        }
    } else if (k < 17) {  // write a datum
        std::vector<int> ds;
        for (size_t d = 0; d < g.data.size(); ++d) {
            if (g.data[d].writer == t && !g.trippedBy[size_t(t)][size_t(g.data[d].line)]) {
                ds.push_back(int(d));
            }
        }
        if ((ds.empty() || r.chance(1, 3)) && g.data.size() < size_t(MAXDATA)) {
            std::vector<int> ok;
            for (int l = 0; l < npool; ++l) {
                bool mine = (t == 0) ? true : (g.excl[size_t(l)] == t);
                if (mine && !g.trippedBy[size_t(t)][size_t(l)]) {
                    ok.push_back(l);
                }
            }
            if (!ok.empty()) {
                GData x;
                x.line = r.pick(ok);
                x.writer = t;
                ds.assign(1, int(g.data.size()));
                g.data.push_back(x);
            }
        }
        if (!ds.empty()) {
            ops.push_back("w:" + S(r.pick(ds)));
        }
    } else if (k < 18 && room && !myD.empty()) {  // detector copy / destruction
        int j = r.pick(myD);
        if (r.chance(2, 3)) {
            GDet x = g.D[size_t(j)];
            ops.push_back("cp:" + S(int(g.D.size())) + ":" + S(j));
            g.D.push_back(x);
        } else {
            g.D[size_t(j)].alive = false;
            ops.push_back("rd:" + S(j));
        }
    } else if (t >= 2 && room) {  // spin on a line that a lower thread trips for sure, then read its data
        std::vector<int> ok;
        for (int l = 0; l < npool; ++l) {
            if (g.excl[size_t(l)] >= 1 && g.excl[size_t(l)] < t) {
                ok.push_back(l);
            }
        }
        if (ok.empty()) {
            return;
        }
        int l = r.pick(ok);
        GDet x;
        x.alive = true;
        x.line = l;
        x.owner = t;
        int i = int(g.D.size());
        g.D.push_back(x);
        g.needTrip[size_t(l)] = 1;
        ops.push_back("mkD:" + S(i) + ":" + g.pool[size_t(l)]);
        ops.push_back("wt:" + S(i));
        for (size_t d = 0; d < g.data.size(); ++d) {
            if (g.data[d].line == l && r.chance(2, 3)) {
                ops.push_back("r:" + S(int(d)));
            }
        }
    }
}

Script tw_gen(Rng& r, int size)
{
    GenState g;
    int nexpl = 1 + r.below(2 + size);
    std::vector<std::string> all;
    for (int k = 0; k < nexpl; ++k) {
        all.push_back("e" + S(k));
    }
    all.push_back("decl");
    for (int k = 0; k < NIDX; ++k) {
        all.push_back("ix" + S(k));
    }
    int npool = 2 + r.below(3);
    for (int k = 0; k < npool && !all.empty(); ++k) {
        size_t j = size_t(r.below(int(all.size())));
        g.pool.push_back(all[j]);
        all.erase(all.begin() + long(j));
    }
    g.nthreads = 2 + r.below(2 + size);
    for (size_t l = 0; l < g.pool.size(); ++l) {
        g.excl.push_back(r.chance(1, 3) ? 0 : 1 + r.below(g.nthreads));
    }
    g.trippedBy.assign(size_t(g.nthreads) + 1, std::vector<char>(g.pool.size(), 0));
    g.needTrip.assign(g.pool.size(), 0);
    // prologue (main thread)
    std::vector<std::string> pro;
    int np = r.below(4 + size);
    for (int i = 0; i < np; ++i) {
        gen_op(g, r, 0, pro);
    }
    // hand the prologue's objects over
    for (auto& x : g.T) {
        if (x.alive && x.owner == 0) {
            int e = (x.line >= 0) ? g.excl[size_t(x.line)] : 0;
            x.owner = (e != 0) ? e : 1 + r.below(g.nthreads);
        }
    }
    for (auto& x : g.D) {
        if (x.alive && x.owner == 0) {
            x.owner = 1 + r.below(g.nthreads);
        }
    }
    Script s;
    for (int t = 1; t <= g.nthreads; ++t) {
        std::vector<std::string> ops;
        int n = 2 + r.below(4 + 2 * size);
        for (int i = 0; i < n; ++i) {
            gen_op(g, r, t, ops);
        }
        s.threads.push_back(ops);
    }
    // lines somebody spins on are tripped unconditionally by the thread they are exclusive to
    for (size_t l = 0; l < g.pool.size(); ++l) {
        int e = g.excl[l];
        if (g.needTrip[l] && e >= 1 && !g.trippedBy[size_t(e)][l]) {
            int i = int(g.T.size());
            g.T.emplace_back();
            s.threads[size_t(e - 1)].push_back("mkT:" + S(i) + ":" + g.pool[l]);
            s.threads[size_t(e - 1)].push_back("rm:" + S(i));
        }
    }
    // isTripped() is const and the library itself shares one detector between threads (members of shared objects):
    // let a second thread poll detectors made in the prologue that nobody destroys
    for (size_t i = 0; i < pro.size(); ++i) {
        if (pro[i].compare(0, 4, "mkD:") != 0 || !r.chance(1, 2)) {
            continue;
        }
        std::string id = pro[i].substr(4, pro[i].find(':', 4) - 4);
        std::string ln = pro[i].substr(pro[i].find(':', 4) + 1);
        if (ln.compare(0, 2, "ix") == 0 && atoi(ln.c_str() + 2) >= NIDX) {
            continue;  // construction throws std::out_of_range: there is no such detector
        }
        bool destroyed = false;
        for (auto& op : pro) {
            if (op == "rd:" + id) {
                destroyed = true;
            }
        }
        for (auto& th : s.threads) {
            for (auto& op : th) {
                if (op == "rd:" + id) {
                    destroyed = true;
                }
            }
        }
        if (destroyed) {
            continue;
        }
        auto& th = s.threads[size_t(r.below(g.nthreads))];
        int n = 1 + r.below(3);
        for (int k = 0; k < n; ++k) {
            th.insert(th.begin() + r.below(int(th.size()) + 1), "ck:" + id);
        }
    }
    s.config = S(nexpl);
    if (!pro.empty()) {
        s.config += "/";
        for (size_t i = 0; i < pro.size(); ++i) {
            s.config += (i ? "." : "") + pro[i];
        }
    }
    return s;
}

std::vector<Script> tw_directed()
{
    return {
        // the three unit tests of the library, as scripts
        parse("1/mkT:0:e0.mkD:0:e0;ck:0,rm:0,ck:0"),
        parse("0;mkD:0:ix2,ck:0,mkD:1:ix7,mkT:0:ix2,ck:0,rm:0,ck:0,mkT:1:ix4,mkT:2:ix9"),
        parse("0;mkD:0:decl,ck:0,mkT:0:decl,ck:0,rm:0,ck:0"),
        // move construction: the moved-from object dies first and trips nothing; the new object trips
        parse("1;mkT:0:e0,mkD:0:e0,mv:1:0,rm:0,ck:0,rm:1,ck:0;mkD:1:e0,ck:1,ck:1,ck:1"),
        // moved-from object destroyed by another thread (the epilogue) after the line was tripped
        parse("1/mkT:0:e0.mv:1:0.mkD:0:e0;rm:1;ck:0,ck:0"),
        // move assignment: the target's old line (e0) is NOT tripped, the source's line (e1) is
        parse("2;mkT:0:e0,mkT:1:e1,mkD:0:e0,mkD:1:e1,as:0:1,rm:1,ck:0,ck:1,rm:0,ck:0,ck:1;mkD:2:e0,mkD:3:e1,ck:2,ck:3,ck:2,ck:3"),
        parse("1;mkT:0:e0,mkD:0:e0,as:0:0,ck:0,rm:0,ck:0"),
        // lines whose creator keeps no reference of its own (fe): a line dropped by a move assignment is NOT tripped, its
        // detectors keep answering false; a line whose last trigger is destroyed stays tripped and publishes
        parse("2/mkT:0:e0.mkD:0:e0.mkT:1:e1.mkD:1:e1.fe:0.fe:1;as:0:1,ck:0,ck:1,rm:0,ck:0,ck:1;ck:0,ck:0,ck:1"),
        parse("1/mkT:0:e0.mkD:0:e0.mkD:1:e0.fe:0;w:0,w:1,rm:0;wt:0,r:0,r:1;pr:1:0,pr:1:1,pr:1:0"),
        // every combination of empty / bound operands of move construction and move assignment
        parse("1;mkT:0:e0,mv:1:0,mv:2:0,as:0:2,as:0:1,mkT:3:e0,as:3:1,as:1:3,mkT:4:e0,as:4:1,rm:3,rm:2,rm:0,rm:4,rm:1;mkD:0:e0,ck:0,ck:0,ck:0,ck:0"),
        // publication: data written before the trigger dies, read after the line was seen tripped
        parse("1/mkT:0:e0.mkD:0:e0.mkD:1:e0;w:0,w:1,w:0,rm:0;wt:0,r:0,r:1;pr:1:0,pr:1:1,pr:1:0"),
        // two threads trip the same (shared) line; the datum was written by the prologue
        parse("1/w:0.mkT:0:e0.mkT:1:e0.mkD:0:e0;rm:0;rm:1;pr:0:0,pr:0:0,pr:0:0"),
        // independent lines, declared + indexed + explicit, polled while being tripped
        parse("2/mkT:0:decl.mkT:1:ix0.mkT:2:ix3.mkT:3:e1;rm:0,rm:2;rm:1,rm:3;mkD:0:decl,mkD:1:ix0,mkD:2:ix3,mkD:3:e1,mkD:4:e0,mkD:5:ix1,"
              "ck:0,ck:1,ck:2,ck:3,ck:4,ck:5,ck:0,ck:1,ck:2,ck:3,ck:4,ck:5"),
        // detector copies and destruction; detector with a bad index
        parse("1/mkD:0:e0.mkT:0:e0;cp:1:0,rd:0,ck:1,mkD:2:ix5,ck:1;rm:0"),
        // a chain: thread 2 waits for thread 1's line and then trips its own, thread 3 waits for that
        parse("2/mkT:0:e0.mkT:1:e1;w:0,rm:0;mkD:0:e0,w:1,wt:0,r:0,rm:1;mkD:1:e1,wt:1,r:1,r:0"),
        // a trigger left alive until the epilogue; prologue trips a line before the threads start
        parse("2/mkT:0:e0.mkT:1:e1.rm:1.mkD:0:e1.mkD:1:e0;ck:0,ck:1;ck:1,ck:0"),
        // ONE detector polled by two threads at once (const method; the library shares detectors between threads):
        // both must synchronise with the trigger before reading what it published
        parse("1/mkT:0:e0.mkD:0:e0;w:0,rm:0;wt:0,r:0;wt:0,r:0"),
        // first use of one indexed line from two threads at once: both must end up on the SAME line
        parse("0;mkT:0:ix1,rm:0;mkD:0:ix1,wt:0,ck:0"),
        parse("0;mkT:0:ix2,mkT:1:ix3,rm:1,rm:0;mkD:0:ix2,mkD:1:ix3,wt:0,wt:1;mkD:2:ix3,mkD:3:ix2,wt:2,wt:3"),
        parse("1/mkT:0:e0.mkD:0:e0;w:0,rm:0;ck:0,ck:0,pr:0:0,pr:0:0;ck:0,pr:0:0,ck:0,pr:0:0"),
    };
}
}  // namespace

int main(int argc, char** argv)
{
    signal(SIGSEGV, on_crash);
    signal(SIGBUS, on_crash);
    signal(SIGABRT, on_crash);
    for (int i = 1; i < argc; ++i) {
        if (std::string(argv[i]) == "--fresh") {
            g_fresh = true;
        }
    }
    return client_main(argc, argv, tw_directed(), tw_gen, exec);
}
