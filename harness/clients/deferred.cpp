// client: gmlc::libguarded::deferred_guarded<vpay::Pay, M>          (M = shared_timed_mutex | shared_mutex)
//
// config = stm | sm
// ops (one logical thread per ';'-part):
//   md<k>[!|!!][@n]  modify_detach of task k          ma<k>..  modify_async returning long      mv<k>..  modify_async returning void
//        !  : the functor throws before touching the object      !! : it throws after having written it
//        @n : the functor raises signal n on entry and then waits (yield loop) for signal n+1  (parks a writer inside the lock)
//   aw<k>   await the future of task k: poll; while not ready { lock_shared + release (helps draining); yield }; then get()
//   pl<k>   poll the future of task k once (get() if ready)
//   ls lt lf lu      lock_shared / try_lock_shared / try_lock_shared_for / try_lock_shared_until into the thread's handle slot
//   rd      read the object through the held handle          rl   destroy the handle
//   ld[!]   load()  (! : the copy of the wrapped object throws)
//   y       yield          sg<n>  raise signal n          wt<n>  wait (yield loop) for signal n
// task k's function:  v -> 3*v + k  (not commutative: the final value determines the order of application)
// markers: call <op> <k> <throwmode> | ret <op> <k> | exc <op> <k> | ucb k | uce k r | uth k | got b | fpoll k b | fget k v|exc | final a b
#include "gmlc/libguarded/deferred_guarded.hpp"

#include "vclient.hpp"
#include "vpayload.hpp"
#include <optional>
using namespace vclient;
using gmlc::libguarded::deferred_guarded;
using vpay::Pay;

namespace {

struct RunState {
    std::map<int, int> execs;      // task id -> number of times its functor was entered
    std::map<int, int> submitted;  // task id -> 1
    std::map<int, bool> sig;
};
RunState* R = nullptr;

const std::chrono::milliseconds kDur(5);

struct Op {
    std::string name;
    int k = 0;
    int thr = 0;   // 0 no throw, 1 before the write, 2 after the write
    int park = 0;  // signal number (0 = none)
};

Op parse_op(const std::string& s)
{
    Op o;
    std::string body = s;
    auto at = body.find('@');
    if (at != std::string::npos) {
        o.park = atoi(body.substr(at + 1).c_str());
        body = body.substr(0, at);
    }
    while (!body.empty() && body.back() == '!') {
        ++o.thr;
        body.pop_back();
    }
    size_t i = 0;
    while (i < body.size() && (isdigit(static_cast<unsigned char>(body[i])) == 0)) {
        ++i;
    }
    o.name = body.substr(0, i);
    if (i < body.size()) {
        o.k = atoi(body.substr(i).c_str());
    }
    return o;
}

// block (visibly to the scheduler: the thread is disabled, not spinning) until signal n is raised
void wait_sig(int n)
{
    verif::sched([n] { return R->sig[n] ? int(verif::EN) : int(verif::DIS); });
}

// the user function of task k
struct TaskFn {
    int k;
    int thr;
    int park;
    bool isVoid;
    long operator()(Pay& p) const
    {
        std::string ks = std::to_string(k);
        verif::emit("ucb " + ks);
        int n = ++R->execs[k];
        if (n > 1) {
            verif::fail("task " + ks + " executed " + std::to_string(n) + " times");
        }
        if (park != 0) {
            R->sig[park] = true;
            wait_sig(park + 1);
        }
        if (thr == 1) {
            verif::emit("uth " + ks);
            throw vpay::Injected();
        }
        long v = p.get();
        long nv = v * 3 + k;
        p.set(nv);
        if (thr == 2) {
            verif::emit("uth " + ks);
            throw vpay::Injected();
        }
        long r = isVoid ? 0 : nv;
        verif::emit("uce " + ks + " " + std::to_string(r));
        return r;
    }
};

template <class M>
struct MK {
    static constexpr bool timed = false;
};
template <>
struct MK<std::shared_timed_mutex> {
    static constexpr bool timed = true;
};

template <class M>
struct ThreadCtx {
    using DG = deferred_guarded<Pay, M>;
    DG& dg;
    std::optional<typename DG::shared_handle> h;
    std::map<int, std::future<long>> fl;
    std::map<int, std::future<void>> fv;
    explicit ThreadCtx(DG& d): dg(d) {}

    void acquire(const std::string& name)
    {
        verif::emit("call " + name);
        const DG& cdg = dg;
        if (name == "ls") {
            h.emplace(cdg.lock_shared());
        } else if (name == "lt") {
            h.emplace(cdg.try_lock_shared());
        } else if (name == "lf") {
            if constexpr (MK<M>::timed) {
                h.emplace(cdg.try_lock_shared_for(kDur));
            }
        } else {
            if constexpr (MK<M>::timed) {
                h.emplace(cdg.try_lock_shared_until(std::chrono::steady_clock::now() + kDur));
            }
        }
        bool got = h.has_value() && static_cast<bool>(*h);
        verif::emit(std::string("got ") + (got ? "1" : "0"));
        if (!got) {
            h.reset();
        }
    }
    void release()
    {
        if (h) {
            h.reset();
        }
    }
    bool m_free() const { return dg.m_mutex.owner == 0 && dg.m_mutex.readers == 0; }
    bool has_future(int k) const { return fl.count(k) != 0U || fv.count(k) != 0U; }
    // no event, no scheduling point (also evaluated by the scheduler while this thread is parked)
    bool ready(int k)
    {
        auto zero = std::chrono::seconds(0);
        if (fl.count(k) != 0U) {
            return fl[k].wait_for(zero) == std::future_status::ready;
        }
        if (fv.count(k) != 0U) {
            return fv[k].wait_for(zero) == std::future_status::ready;
        }
        return true;  // nothing to wait for (already consumed / script error): do not wait
    }
    bool poll(int k)
    {
        if (!has_future(k)) {
            return true;
        }
        bool r = ready(k);
        verif::emit("fpoll " + std::to_string(k) + (r ? " 1" : " 0"));
        return r;
    }
    void get(int k)
    {
        std::string ks = std::to_string(k);
        try {
            if (fl.count(k) != 0U) {
                long v = fl[k].get();
                fl.erase(k);
                verif::emit("fget " + ks + " " + std::to_string(v));
            } else if (fv.count(k) != 0U) {
                fv[k].get();
                fv.erase(k);
                verif::emit("fget " + ks + " 0");
            }
        }
        catch (const vpay::Injected&) {
            fl.erase(k);
            fv.erase(k);
            verif::emit("fget " + ks + " exc");
        }
    }

    void run(const std::string& text)
    {
        Op o = parse_op(text);
        std::string ks = std::to_string(o.k);
        if (o.name == "md" || o.name == "ma" || o.name == "mv") {
            if (h) {
                return;  // client obligation: no modification while this thread holds a handle
            }
            TaskFn fn{o.k, o.thr, o.park, o.name == "mv"};
            R->submitted[o.k] = 1;
            verif::emit("call " + o.name + " " + ks + " " + std::to_string(o.thr));
            try {
                if (o.name == "md") {
                    dg.modify_detach(fn);
                } else if (o.name == "ma") {
                    fl[o.k] = dg.modify_async(fn);
                } else {
                    fv[o.k] = dg.modify_async([fn](Pay& p) { fn(p); });
                }
                verif::emit("ret " + o.name + " " + ks);
            }
            catch (const vpay::Injected&) {
                verif::emit("exc " + o.name + " " + ks);
            }
        } else if (o.name == "aw") {
            // polling await.  Between polls the thread is parked at a scheduling point that is enabled when the future is ready or
            // when a lock_shared of this thread could drain (nobody holds m): no busy spinning, so priority-based schedules cannot
            // starve the thread that has to release m, and a stranded task shows up as deadlock / step limit.
            for (;;) {
                int k = o.k;
                verif::sched([this, k] { return (ready(k) || (!h && m_free())) ? int(verif::EN) : int(verif::DIS); });
                if (poll(k)) {
                    break;
                }
                if (!h) {
                    acquire("ls");
                    release();
                }
                std::this_thread::yield();
            }
            get(o.k);
        } else if (o.name == "pl") {
            if (poll(o.k)) {
                get(o.k);
            }
        } else if (o.name == "ls" || o.name == "lt" || o.name == "lf" || o.name == "lu") {
            if (h) {
                return;
            }
            if (!MK<M>::timed && (o.name == "lf" || o.name == "lu")) {
                acquire("lt");
            } else {
                acquire(o.name);
            }
        } else if (o.name == "rd") {
            if (h) {
                (void)(*h)->get();
            }
        } else if (o.name == "rl") {
            release();
        } else if (o.name == "ld") {
            if (h) {
                return;
            }
            verif::emit("call ld");
            vpay::arm(o.thr != 0 ? 1 : 0);
            try {
                Pay r = dg.load();
                vpay::arm(0);
                verif::emit("ret ld " + std::to_string(r.a));
            }
            catch (const vpay::Injected&) {
                vpay::arm(0);
                verif::emit("exc ld");
            }
        } else if (o.name == "y") {
            std::this_thread::yield();
        } else if (o.name == "sg") {
            R->sig[o.k] = true;
        } else if (o.name == "wt") {
            wait_sig(o.k);
        }
    }
};

template <class M>
verif::Result exec_m(const Script& sc)
{
    RunState rs;
    R = &rs;
    {
        deferred_guarded<Pay, M> dg(0L);
        verif::reg_name(&dg.m_obj, "P");
        verif::reg_name(&dg.m_mutex, "m");
        verif::reg_name(&dg.m_pendingWrites, "flag");
        verif::reg_name(&dg.m_pendingList.m_mutex, "qm");
        std::vector<std::function<void()>> bodies;
        for (auto& ops : sc.threads) {
            bodies.push_back([&dg, ops] {
                ThreadCtx<M> c(dg);
                for (auto& op : ops) {
                    c.run(op);
                }
                c.release();
            });
        }
        verif::run_threads(bodies);
        after_run();
        // quiescence: every submitter has returned, nobody holds a handle.  One lock_shared must apply whatever is still queued.
        {
            ThreadCtx<M> c(dg);
            c.acquire("ls");
            if (c.h) {
                (void)(*c.h)->get();
            }
            c.release();
        }
        for (auto& kv : rs.submitted) {
            int n = rs.execs.count(kv.first) != 0U ? rs.execs[kv.first] : 0;
            if (n != 1) {
                verif::fail("task " + std::to_string(kv.first) + " executed " + std::to_string(n) +
                            " times by the end (after quiescence + one lock_shared)");
            }
        }
        verif::emit("final " + std::to_string(dg.m_obj.a) + " " + std::to_string(dg.m_obj.b));
        verif::unreg(&dg.m_obj);
    }
    R = nullptr;
    return verif::end();
}

verif::Result exec(const Script& sc, const verif::Config& cfg)
{
    verif::begin(cfg);
    std::string mk = sc.config.empty() ? "stm" : sc.config;
    verif::emit("cfg deferred " + mk);
    if (mk == "sm") {
        return exec_m<std::shared_mutex>(sc);
    }
    return exec_m<std::shared_timed_mutex>(sc);
}

Script gen(Rng& r, int size)
{
    Script s;
    bool timed = r.chance(2, 3);
    s.config = timed ? "stm" : "sm";
    int nthreads = 2 + r.below(2 + size);
    int nextId = 1;
    auto thr = [&r]() -> std::string { return r.chance(1, 6) ? (r.chance(1, 2) ? "!" : "!!") : ""; };
    for (int t = 0; t < nthreads; ++t) {
        std::vector<std::string> ops;
        std::vector<int> pending;
        int n = 2 + r.below(3 + size);
        for (int i = 0; i < n; ++i) {
            int c = r.below(12);
            if (c <= 2) {
                ops.push_back("md" + std::to_string(nextId++) + thr());
            } else if (c <= 4) {
                int k = nextId++;
                ops.push_back(std::string(c == 3 ? "ma" : "mv") + std::to_string(k) + thr());
                if (r.chance(1, 2)) {
                    ops.push_back("aw" + std::to_string(k));
                } else {
                    pending.push_back(k);
                }
            } else if (c <= 8) {
                static const std::vector<std::string> acq = {"ls", "ls", "lt", "lf", "lu"};
                ops.push_back(r.pick(acq));
                int m = r.below(4);
                for (int j = 0; j < m; ++j) {
                    ops.push_back(r.chance(1, 2) ? "rd" : "y");
                }
                ops.push_back("rl");
            } else if (c == 9) {
                ops.push_back(r.chance(1, 5) ? "ld!" : "ld");
            } else if (c == 10 && !pending.empty()) {
                // a single poll does not consume the future unless it is ready: it is awaited again at the end
                ops.push_back("pl" + std::to_string(pending[size_t(r.below(int(pending.size())))]));
            } else {
                ops.push_back("y");
            }
        }
        // every future is awaited (aw on an already consumed future returns at once)
        for (int k : pending) {
            ops.push_back("aw" + std::to_string(k));
        }
        s.threads.push_back(ops);
    }
    return s;
}

}  // namespace

int main(int argc, char** argv)
{
    std::vector<Script> directed = {
        // direct path only (single thread): detach / async long / async void, futures ready at return, readers, load
        parse("stm;md1,ma2,pl2,mv3,aw3,ls,rd,rl,lt,rd,rl,lf,rl,lu,rl,ld"),
        parse("sm;md1,ma2,aw2,mv3,aw3,ls,rd,rl,lt,rl,ld,ld!"),
        // functor throws on the direct path: detach propagates, async captures
        parse("stm;md1!,ma2!,aw2,mv3!!,aw3,md4!!,ld!,ls,rd,rl"),
        // queued path forced by a parked reader; drained by the awaiting thread's lock_shared
        parse("stm;ls,sg1,wt2,rl;wt1,md1,ma2,mv3,pl2,sg2,aw2,aw3"),
        // queued path; drained by a later modify (direct path drains first)
        parse("stm;ls,sg1,wt2,rl,sg3;wt1,md1,ma2,sg2,wt3,md3,pl2"),
        parse("stm;ls,sg1,wt2,rl,sg3;wt1,md1,mv2,sg2,wt3,ma3,aw2,aw3"),
        // queued tasks that throw: captured into the future / swallowed, the rest of the batch still runs
        parse("stm;ls,sg1,wt2,rl;wt1,md1!,ma2!,mv3!!,md4,ma5,sg2,aw2,aw3,aw5"),
        // a writer parked inside its functor (holds m exclusively): try_lock_shared* fail, modifications are queued, lock_shared blocks
        parse("stm;md1@1;wt1,lt,lf,lu,md2,ma3,sg2,aw3;wt1,ls,rd,rl"),
        parse("sm;ma1@1,aw1;wt1,lt,md2,mv3,sg2,aw3;wt1,ld"),
        // drained by try_lock_shared / _for / _until and by load
        parse("stm;ls,sg1,wt2,rl,sg3;wt1,md1,sg2,wt3,lt,rd,rl"),
        parse("stm;ls,sg1,wt2,rl,sg3;wt1,md1,sg2,wt3,lf,rd,rl"),
        parse("stm;ls,sg1,wt2,rl,sg3;wt1,md1,sg2,wt3,lu,rd,rl"),
        parse("stm;ls,sg1,wt2,rl,sg3;wt1,md1,sg2,wt3,ld"),
        // nothing but the final lock_shared of the main thread drains
        parse("stm;ls,sg1,wt2,rl;wt1,md1,md2,ma3,sg2"),
        // two readers share; a reader keeps a drain away (try_lock fails under a shared handle)
        parse("stm;ls,sg1,wt2,rd,rl;wt1,ls,rd,rl,sg2;wt1,md2,lt,rd,rl"),
        // races: several submitters, drainers and readers
        parse("stm;md1,md2,md3,md4;ls,y,rl,ls,y,rl,ls,y,rl;ma5,aw5,ma6,aw6;lt,rl,lf,rl,lu,rl"),
        parse("stm;ls,y,y,rl,ls,y,y,rl;md1,md2,md3;ls,rl,ls,rl,ls,rl;md4,md5,md6"),
        parse("sm;ls,y,y,rl,ls,y,y,rl;ma1,ma2,aw1,aw2;ls,rl,ls,rl;mv4,mv5,aw4,aw5"),
    };
    return client_main(argc, argv, directed, gen, exec);
}
