// vclient.hpp — common frame for the harness clients: script text <-> structure, run loop,
// output format consumed by check.py and by the Lean driver.
//
//   START seed=<s> strat=<k> script=<text>     (printed before the run executes; identifies the input of a crash)
//   RUN seed=<s> strat=<k> script=<text>
//   <tid> <event ...>            (one line per event; first line is "0 cfg <component> ...")
//   FAIL <text>                  (C++-side monitor, zero or more)
//   ALTS [!<pos>;]<pos>:<dec>[/<kind>],...;<pos>:...   (strategy 4 only: alternatives per decision position, verif::Alt;
//                                 "!pos" = the prefix diverged at pos.  check.py strips the line before the Lean driver)
//   END status=<ok|deadlock|steplimit> steps=<n> decisions=<d,d,...>
#pragma once
#include <cstring>
#include <sys/wait.h>
#include <unistd.h>

namespace vclient {

struct Script {
    std::string config;                             // component-specific, no spaces / ';'
    std::vector<std::vector<std::string>> threads;  // ops per logical thread, no spaces / ',' / ';'
};

inline std::string to_text(const Script& s)
{
    std::string r = s.config;
    for (auto& t : s.threads) {
        r += ";";
        for (size_t i = 0; i < t.size(); ++i) {
            if (i != 0U) {
                r += ",";
            }
            r += t[i];
        }
    }
    return r;
}

inline std::vector<std::string> split(const std::string& s, char c)
{
    std::vector<std::string> out;
    std::string cur;
    for (char ch : s) {
        if (ch == c) {
            out.push_back(cur);
            cur.clear();
        } else {
            cur += ch;
        }
    }
    out.push_back(cur);
    return out;
}

inline Script parse(const std::string& text)
{
    Script s;
    auto parts = split(text, ';');
    s.config = parts[0];
    for (size_t i = 1; i < parts.size(); ++i) {
        std::vector<std::string> ops;
        if (!parts[i].empty()) {
            ops = split(parts[i], ',');
        }
        s.threads.push_back(ops);
    }
    return s;
}

struct Rng {
    uint64_t s;
    explicit Rng(uint64_t seed): s(seed * 0x9E3779B97F4A7C15ull + 1442695040888963407ull)
    {
        for (int i = 0; i < 3; ++i) {
            next();
        }
    }
    uint64_t next()
    {
        s ^= s >> 12;
        s ^= s << 25;
        s ^= s >> 27;
        return s * 2685821657736338717ull;
    }
    int below(int n) { return n <= 1 ? 0 : int(next() % uint64_t(n)); }
    bool chance(int num, int den) { return below(den) < num; }
    template <class T>
    const T& pick(const std::vector<T>& v) { return v[size_t(below(int(v.size())))]; }
};

using Gen = std::function<Script(Rng&, int /*size class*/)>;
using Exec = std::function<verif::Result(const Script&, const verif::Config&)>;

inline void dump(FILE* out, uint64_t seed, int strat, const Script& sc, const verif::Result& r)
{
    fprintf(out, "RUN seed=%llu strat=%d script=%s\n", static_cast<unsigned long long>(seed), strat, to_text(sc).c_str());
    for (auto& l : r.trace) {
        fprintf(out, "%s\n", l.c_str());
    }
    for (auto& f : r.failures) {
        fprintf(out, "FAIL %s\n", f.c_str());
    }
    std::string st = r.deadlock ? "deadlock" : (r.steplimit ? "steplimit" : "ok");
    if (r.deadlock) {
        st += ":";
        for (size_t i = 0; i < r.blocked.size(); ++i) {
            st += (i ? "+" : "") + std::to_string(r.blocked[i]);
        }
    }
    if (strat == 4) {
        std::string a = "ALTS ";
        if (r.diverged >= 0) {
            a += "!" + std::to_string(r.diverged) + ";";
        }
        int lastpos = -1;
        for (auto& x : r.alts) {
            a += (x.pos != lastpos) ? ((lastpos >= 0 ? ";" : "") + std::to_string(x.pos) + ":") : std::string(",");
            lastpos = x.pos;
            a += std::to_string(x.dec);
            if (x.kind != 0) {
                a += "/" + std::to_string(x.kind);
            }
        }
        fprintf(out, "%s\n", a.c_str());
    }
    fprintf(out, "END status=%s steps=%ld decisions=", st.c_str(), r.steps);
    for (size_t i = 0; i < r.decisions.size(); ++i) {
        fprintf(out, "%s%d", i ? "," : "", r.decisions[i]);
    }
    fprintf(out, "\n");
    fflush(out);
}

struct Cur {
    uint64_t seed = 0;
    int strat = 0;
    const Script* sc = nullptr;
};
inline Cur& cur()
{
    static Cur c;
    return c;
}
// call right after verif::run_threads: on deadlock / step limit the logical threads are parked inside
// library code and nothing may be destroyed any more — dump the run and leave the process.
inline void after_run()
{
    verif::Result r = verif::end();
    if (r.deadlock || r.steplimit) {
        dump(stdout, cur().seed, cur().strat, *cur().sc, r);
        fflush(stdout);
        _exit(0);
    }
    verif::resume();
}

// usage: client [--seed S] [--runs N] [--strategy K|mix] [--size Z] [--script TEXT] [--replay d,d,..] [--threads T]
//        client --list-directed            the directed scripts, one per line
//        client --batch [--seed S]         systematic exploration (checks/dfs.py): one job per stdin line "<script> <d,d,..|->",
//                                          each run with strategy 4 (prefix + deterministic default) in a forked child, so
//                                          that a deadlock / step-limit exit or a crash of one job does not end the batch
inline int client_main(int argc, char** argv, const std::vector<Script>& directed, const Gen& gen, const Exec& exec)
{
    uint64_t seed = 1;
    long runs = 10;
    int strategy = -1;  // mix
    int size = 1;
    std::string script;
    std::vector<int> replay;
    bool list_directed = false;
    bool batch = false;
    long first = 0;  // index of the first run (a restarted client continues where the last one stopped)
    for (int i = 1; i < argc; ++i) {
        std::string a = argv[i];
        auto nxt = [&]() -> std::string { return (i + 1 < argc) ? argv[++i] : ""; };
        if (a == "--seed") {
            seed = strtoull(nxt().c_str(), nullptr, 10);
        } else if (a == "--runs") {
            runs = atol(nxt().c_str());
        } else if (a == "--strategy") {
            strategy = atoi(nxt().c_str());
        } else if (a == "--size") {
            size = atoi(nxt().c_str());
        } else if (a == "--script") {
            script = nxt();
        } else if (a == "--replay") {
            for (auto& d : split(nxt(), ',')) {
                if (!d.empty()) {
                    replay.push_back(atoi(d.c_str()));
                }
            }
        } else if (a == "--count-directed") {
            printf("%zu\n", directed.size());
            return 0;
        } else if (a == "--first") {
            first = atol(nxt().c_str());
        } else if (a == "--directed") {
            list_directed = true;
        } else if (a == "--list-directed") {
            for (auto& sc : directed) {
                printf("%s\n", to_text(sc).c_str());
            }
            return 0;
        } else if (a == "--batch") {
            batch = true;
        }
    }
    FILE* out = stdout;
    auto one = [&](uint64_t s, int strat, const Script& sc, const std::vector<int>& rp) {
        verif::Config cfg;
        cfg.seed = s;
        cfg.strategy = strat;
        cfg.replay = rp;
        cur().seed = s;
        cur().strat = strat;
        cur().sc = &sc;
        // announce the run BEFORE executing it: if the library crashes the process, the parent still knows the input
        fprintf(out, "START seed=%llu strat=%d script=%s\n", static_cast<unsigned long long>(s), strat, to_text(sc).c_str());
        fflush(out);
        verif::Result r = exec(sc, cfg);
        dump(out, s, strat, sc, r);
    };
    if (batch) {
        // the parent never runs a job itself, so it is single-threaded at every fork
        FILE* errf = tmpfile();
        char* line = nullptr;
        size_t cap = 0;
        ssize_t len;
        while ((len = getline(&line, &cap, stdin)) > 0) {
            std::string l(line, size_t(len));
            while (!l.empty() && (l.back() == '\n' || l.back() == '\r')) {
                l.pop_back();
            }
            auto sp = l.find(' ');
            if (l.empty() || sp == std::string::npos) {
                continue;
            }
            Script sc = parse(l.substr(0, sp));
            std::vector<int> prefix;
            for (auto& d : split(l.substr(sp + 1), ',')) {
                if (!d.empty() && d != "-") {
                    prefix.push_back(atoi(d.c_str()));
                }
            }
            fflush(out);
            if (errf != nullptr) {
                rewind(errf);
                if (ftruncate(fileno(errf), 0) != 0) {
                }
            }
            pid_t pid = fork();
            if (pid == 0) {
                if (errf != nullptr) {
                    dup2(fileno(errf), 2);
                }
                alarm(60);  // a job that hangs outside the scheduler's control
                one(seed, 4, sc, prefix);
                fflush(out);
                _exit(0);
            }
            int st = 0;
            if (pid < 0 || waitpid(pid, &st, 0) < 0 || !WIFEXITED(st) || WEXITSTATUS(st) != 0) {
                int rc = pid < 0 ? -1 : (WIFSIGNALED(st) ? -WTERMSIG(st) : WEXITSTATUS(st));
                fprintf(out, "CRASH rc=%d first=0 done=0\n", rc);
                if (errf != nullptr) {
                    // the tail of what the job wrote to stderr
                    std::vector<std::string> lines;
                    char buf[1024];
                    rewind(errf);
                    while (fgets(buf, sizeof buf, errf) != nullptr) {
                        lines.emplace_back(buf);
                    }
                    for (size_t k = lines.size() > 15 ? lines.size() - 15 : 0; k < lines.size(); ++k) {
                        std::string t = lines[k];
                        while (!t.empty() && t.back() == '\n') {
                            t.pop_back();
                        }
                        fprintf(out, "CRASHLOG %s\n", t.c_str());
                    }
                }
                fflush(out);
            }
        }
        free(line);
        return 0;
    }
    if (!script.empty()) {
        Script sc = parse(script);
        if (!replay.empty()) {
            one(seed, 3, sc, replay);
            return 0;
        }
        for (long k = 0; k < runs; ++k) {
            int strat = strategy >= 0 ? strategy : int((seed + uint64_t(k)) % 3);
            one(seed + uint64_t(k), strat, sc, {});
        }
        return 0;
    }
    if (list_directed) {
        // every directed script under a few schedules each
        long per = std::max(1L, runs);
        long idx = 0;
        for (auto& sc : directed) {
            for (long k = 0; k < per; ++k, ++idx) {
                if (idx < first) {
                    continue;
                }
                int strat = strategy >= 0 ? strategy : int((seed + uint64_t(k)) % 3);
                one(seed + uint64_t(k), strat, sc, {});
            }
        }
        return 0;
    }
    for (long k = first; k < runs; ++k) {
        uint64_t s = seed * 1000003ull + uint64_t(k);
        Rng rng(s);
        Script sc = gen(rng, size);
        int strat = strategy >= 0 ? strategy : int(s % 3);
        one(s, strat, sc, {});
    }
    return 0;
}

// Naming / tapping private members WITHOUT making the client's build depend on them: if a member has been renamed or
// removed in the tree under test the statement is skipped (the model then rejects the unnamed events, but the run, the
// python oracle and the C++ monitors still work, so the failing-input search is not lost to a compile error).
template <class T, class F>
void with_member(T& o, F f)
{
    if constexpr (std::is_invocable_v<F, T&>) {
        f(o);
    }
}
#define VERIF_NAME(obj, member, nm) \
    vclient::with_member(obj, [](auto& x_) -> decltype((void)x_.member) { verif::reg_name(&x_.member, nm); })
#define VERIF_TAP(obj, member) \
    vclient::with_member(obj, [](auto& x_) -> decltype((void)x_.member) { verif::tap_add(&x_.member, sizeof(x_.member)); })

// helper: emit call/ret around an operation
struct CallScope {
    std::string name;
    explicit CallScope(const std::string& n): name(n) { verif::emit("call " + name); }
    void ret(const std::string& result = "") { verif::emit("ret " + name + (result.empty() ? "" : " " + result)); }
};

}  // namespace vclient
