// vrt.cpp — deterministic scheduler + trace recorder.  Compiled WITHOUT the shim: std::mutex and
// std::condition_variable here are the real ones.
#include "vrt.hpp"

#include <algorithm>
#include <condition_variable>
#include <cstdarg>
#include <cstdio>
#include <cstdlib>
#include <cstring>
#include <map>
#include <memory>
#include <mutex>
#include <thread>
#include <unistd.h>

namespace verif {

// budget of spurious compare_exchange_weak failures per run (declared in vshim.hpp, used by verif::atomic<T>::cas)
int g_casfail_left = 0;
int g_ctor_sched = 0;   // see vshim.hpp; reset by begin()
int g_post_unlock_sched = 0;   // see vshim.hpp; reset by begin()
int g_latewake_left = 0;

namespace {
struct LThread {
    std::thread th;
    Enabled en;            // pending operation's enabledness (valid while parked)
    bool parked = false;   // waiting at a scheduling point
    bool finished = false;
    bool go = false;
    int go_class = EN;
    bool yielded = false;
    int prio = 0;
    int gate_count = 0;    // gate_at: scheduling points left until the gate applies
    Enabled gate_until;
    int gate2_count = 0;   // gate_also: a second, independent gate
    Enabled gate2_until;
    bool gated = false;    // parked at the scheduling point the gate applies to
    std::condition_variable cv;
};

struct State {
    std::mutex G;  // the baton is "holding the right to run"; G only protects hand-off
    std::vector<std::unique_ptr<LThread>> th;  // index = tid (0 unused)
    bool running = false;   // inside run_threads
    bool recording = false;
    Config cfg;
    Result res;
    uint64_t rng = 88172645463325252ull;
    size_t replay_pos = 0;
    int spurious_left = 0;
    int last = 0;
    std::vector<long> pct_points;
    std::condition_variable main_cv;
    bool all_done = false;
    void (*on_abort)() = nullptr;
    // names
    std::map<const void*, std::string> names;
    std::map<const void*, std::pair<size_t, std::string>> ranges;
    std::map<std::string, int> autoseq;
    std::map<const void*, int> anon;
};
State S;
thread_local int t_self = 0;

uint64_t next_rnd()
{
    // xorshift64*
    S.rng ^= S.rng >> 12;
    S.rng ^= S.rng << 25;
    S.rng ^= S.rng >> 27;
    return S.rng * 2685821657736338717ull;
}

// strategy 4: the prefix decision at the current position does not fit — note it, continue with the default policy
void diverge4()
{
    if (S.res.diverged < 0) {
        S.res.diverged = int(S.res.decisions.size());
    }
    S.replay_pos = S.cfg.replay.size();
}

int decide(int n, int proposed, bool weak = false)
{
    // record / replay a decision
    if (S.cfg.strategy == 4) {
        int pos = int(S.res.decisions.size());
        int v = 0;
        if (S.replay_pos < S.cfg.replay.size()) {
            v = S.cfg.replay[S.replay_pos++];
            if (v < 0 || v >= std::max(n, 1)) {
                diverge4();
                v = 0;
            }
        } else if (S.res.diverged < 0) {
            for (int a = 1; a < n; ++a) {
                S.res.alts.push_back(Alt{pos, a, weak ? 2 : 0});
            }
        }
        S.res.decisions.push_back(v);
        return v;
    }
    if (S.cfg.strategy == 3 && S.replay_pos < S.cfg.replay.size()) {
        int v = S.cfg.replay[S.replay_pos++];
        if (n > 0) {
            v = ((v % n) + n) % n;
        }
        S.res.decisions.push_back(v);
        return v;
    }
    S.res.decisions.push_back(proposed);
    return proposed;
}

// pick the next thread to run; called with the baton (by the thread that is about to park or finish)
// returns tid or 0 when nothing can run
int pick4(int* cls_out);
int pick(int* cls_out)
{
    if (S.cfg.strategy == 4) {
        return pick4(cls_out);
    }
    std::vector<int> strong, timeo, spur;
    for (size_t i = 1; i < S.th.size(); ++i) {
        auto& t = *S.th[i];
        if (t.finished || !t.parked) {
            continue;
        }
        int c = t.en ? t.en() : EN;
        if (c == EN) {
            strong.push_back(int(i));
        } else if (c == EN_TIMEOUT) {
            timeo.push_back(int(i));
        } else if (c == EN_SPURIOUS) {
            spur.push_back(int(i));
        }
    }
    std::vector<int> cand;
    int cls = EN;
    // mostly run strongly enabled threads; sometimes fire a time-out or a spurious wake-up
    bool fire_weak = false;
    if (!timeo.empty() && (strong.empty() || next_rnd() % 8 == 0)) {
        cand = timeo;
        cls = EN_TIMEOUT;
        fire_weak = true;
    } else if (!spur.empty() && S.spurious_left > 0 && !strong.empty() && next_rnd() % 6 == 0) {
        cand = spur;
        cls = EN_SPURIOUS;
        fire_weak = true;
        --S.spurious_left;
    }
    if (!fire_weak) {
        if (strong.empty()) {
            *cls_out = DIS;
            return 0;
        }
        // prefer threads that are not spinning
        std::vector<int> ny;
        for (int i : strong) {
            if (!S.th[i]->yielded) {
                ny.push_back(i);
            }
        }
        cand = ny.empty() ? strong : ny;
        if (ny.empty()) {
            for (int i : strong) {
                S.th[i]->yielded = false;
            }
        }
    }
    int chosen;
    if (S.cfg.strategy == 3 && S.replay_pos < S.cfg.replay.size()) {
        int v = S.cfg.replay[S.replay_pos++];
        // replay stores tid*4+cls
        int tid = v / 4;
        cls = v % 4;
        bool ok = false;
        for (auto* vec : {&strong, &timeo, &spur}) {
            if (std::find(vec->begin(), vec->end(), tid) != vec->end()) {
                ok = true;
            }
        }
        if (!ok) {
            // divergence: fall back to first candidate
            S.res.failures.push_back("replay-divergence");
            tid = cand[0];
        }
        chosen = tid;
    } else if (S.cfg.strategy == 1) {
        bool has_last = std::find(cand.begin(), cand.end(), S.last) != cand.end();
        if (has_last && int(next_rnd() % 100) < S.cfg.stick_pct) {
            chosen = S.last;
        } else {
            chosen = cand[next_rnd() % cand.size()];
        }
    } else if (S.cfg.strategy == 2) {
        // PCT: highest priority among candidates; at change points demote the running thread
        long step = S.res.steps;
        for (size_t k = 0; k < S.pct_points.size(); ++k) {
            if (S.pct_points[k] == step && S.last > 0) {
                S.th[S.last]->prio = -int(k) - 1;
            }
        }
        chosen = cand[0];
        for (int i : cand) {
            if (S.th[i]->prio > S.th[chosen]->prio) {
                chosen = i;
            }
        }
    } else {
        chosen = cand[next_rnd() % cand.size()];
    }
    S.res.decisions.push_back(chosen * 4 + cls);
    *cls_out = cls;
    return chosen;
}

// strategy 4: follow the prefix, then the deterministic default; report the alternatives (see vrt.hpp)
int pick4(int* cls_out)
{
    std::vector<int> strong, timeo, spur, ny;
    for (size_t i = 1; i < S.th.size(); ++i) {
        auto& t = *S.th[i];
        if (t.finished || !t.parked) {
            continue;
        }
        int c = t.en ? t.en() : EN;
        if (c == EN) {
            strong.push_back(int(i));
            if (!t.yielded) {
                ny.push_back(int(i));
            }
        } else if (c == EN_TIMEOUT) {
            timeo.push_back(int(i));
        } else if (c == EN_SPURIOUS) {
            spur.push_back(int(i));
        }
    }
    auto has = [](const std::vector<int>& v, int x) { return std::find(v.begin(), v.end(), x) != v.end(); };
    // as in the random strategies: a thread that has just yielded / slept is only a candidate when every enabled thread has
    const std::vector<int>& cand = ny.empty() ? strong : ny;
    int pos = int(S.res.decisions.size());
    int chosen = 0;
    int cls = EN;
    if (S.replay_pos < S.cfg.replay.size()) {
        int v = S.cfg.replay[S.replay_pos++];
        int tid = v / 4;
        cls = v % 4;
        const std::vector<int>* vec = cls == EN ? &strong : (cls == EN_TIMEOUT ? &timeo : (cls == EN_SPURIOUS ? &spur : nullptr));
        if (v >= 4 && vec != nullptr && has(*vec, tid)) {
            chosen = tid;
            if (cls == EN_SPURIOUS) {
                --S.spurious_left;
            }
        } else {
            diverge4();
            cls = EN;
        }
    }
    if (chosen == 0) {
        bool report = S.res.diverged < 0;
        if (strong.empty()) {
            // only time passing can make progress: the first timed operation times out (not counted as a weak event).
            // Spurious wake-ups alone are no progress: that is a deadlock, as in the random strategies.
            if (timeo.empty()) {
                *cls_out = DIS;
                return 0;
            }
            chosen = timeo[0];
            cls = EN_TIMEOUT;
            for (size_t k = 1; report && k < timeo.size(); ++k) {
                S.res.alts.push_back(Alt{pos, timeo[k] * 4 + EN_TIMEOUT, 0});
            }
        } else {
            bool cur = !ny.empty() && has(ny, S.last);  // the running thread can continue and is not spinning
            if (cur) {
                chosen = S.last;
            } else {
                chosen = cand[0];
                for (int t : cand) {
                    if (t > S.last) {
                        chosen = t;  // cyclic order: fair to spin loops
                        break;
                    }
                }
            }
            int pre = cur ? 1 : 0;
            if (report) {
                for (int t : cand) {
                    if (t != chosen) {
                        S.res.alts.push_back(Alt{pos, t * 4 + EN, pre});
                    }
                }
                for (int t : timeo) {
                    S.res.alts.push_back(Alt{pos, t * 4 + EN_TIMEOUT, 2 | pre});
                }
                for (int t : spur) {
                    if (S.spurious_left > 0) {
                        S.res.alts.push_back(Alt{pos, t * 4 + EN_SPURIOUS, 2 | pre});
                    }
                }
            }
        }
    }
    if (cls == EN && ny.empty()) {
        for (int i : strong) {
            S.th[i]->yielded = false;
        }
    }
    S.res.decisions.push_back(chosen * 4 + cls);
    *cls_out = cls;
    return chosen;
}

void finish_abnormal(const char* why)
{
    // deadlock / step limit: threads are parked inside library code and cannot be unwound.
    // Record the verdict and let the client dump what it has and leave the process.
    if (std::string(why) == "deadlock") {
        S.res.deadlock = true;
        for (size_t i = 1; i < S.th.size(); ++i) {
            if (!S.th[i]->finished) {
                S.res.blocked.push_back(int(i));
            }
        }
    } else {
        S.res.steplimit = true;
    }
    S.all_done = true;
    S.main_cv.notify_all();
}

// hand the baton on; caller holds G.  `me` parks unless it is chosen again.
void hand_off(std::unique_lock<std::mutex>& lk, int me, bool me_finished)
{
    if (S.res.steps++ > S.cfg.max_steps) {
        finish_abnormal("steplimit");
        if (!me_finished) {
            S.th[me]->cv.wait(lk, [] { return false; });
        }
        return;
    }
    int cls = EN;
    int nxt = pick(&cls);
    if (nxt == 0) {
        bool any = false;
        for (size_t i = 1; i < S.th.size(); ++i) {
            if (!S.th[i]->finished) {
                any = true;
            }
        }
        if (!any) {
            S.all_done = true;
            S.main_cv.notify_all();
            return;
        }
        finish_abnormal("deadlock");
        if (!me_finished) {
            S.th[me]->cv.wait(lk, [] { return false; });
        }
        return;
    }
    if (nxt != S.last) {
        for (size_t i = 1; i < S.th.size(); ++i) {
            if (int(i) != nxt) {
                // somebody else moves: spinning threads may look again
            }
        }
    }
    S.last = nxt;
    auto& n = *S.th[nxt];
    n.go = true;
    n.go_class = cls;
    if (nxt != me) {
        n.cv.notify_one();
    }
    if (me_finished) {
        return;
    }
    auto& m = *S.th[me];
    m.cv.wait(lk, [&m] { return m.go; });
}
}  // namespace

static void flush_pending_store();
uint64_t rnd() { return next_rnd(); }

int self() { return t_self; }
bool tracing() { return S.recording; }

int sched(const Enabled& en)
{
    if (S.recording) {
        flush_pending_store();
    }
    if (!S.running || t_self == 0) {
        return EN;  // main thread / outside a run: execute immediately
    }
    std::unique_lock<std::mutex> lk(S.G);
    auto& me = *S.th[t_self];
    bool hit1 = me.gate_count > 0 && --me.gate_count == 0 && me.gate_until;
    bool hit2 = me.gate2_count > 0 && --me.gate2_count == 0 && me.gate2_until;   // second gate (gate_also)
    if (hit1 || hit2) {
        // directed path forcing: this scheduling point is additionally blocked until the gate opens
        Enabled g = hit1 ? me.gate_until : me.gate2_until;
        if (hit1) {
            me.gate_until = nullptr;
        } else {
            me.gate2_until = nullptr;
        }
        Enabled e0 = en;
        me.en = [g, e0] { return g() != 0 ? e0() : int(DIS); };
        me.gated = true;
    } else {
        me.en = en;
    }
    me.parked = true;
    me.go = false;
    hand_off(lk, t_self, false);
    me.parked = false;
    me.go = false;
    me.gated = false;
    // a thread that moves un-yields the others
    for (size_t i = 1; i < S.th.size(); ++i) {
        if (int(i) != t_self) {
            S.th[i]->yielded = false;
        }
    }
    return me.go_class;
}

void gate_at(int k, const Enabled& until)
{
    if (S.running && t_self != 0 && k > 0) {
        S.th[t_self]->gate_count = k;
        S.th[t_self]->gate_until = until;
    }
}

void gate_also(int k, const Enabled& until)
{
    if (S.running && t_self != 0) {
        S.th[t_self]->gate2_count = k;
        S.th[t_self]->gate2_until = until;
    }
}
bool at_gate(int tid)
{
    return S.running && tid > 0 && size_t(tid) < S.th.size() && S.th[size_t(tid)]->gated;
}

void mark_yield()
{
    if (S.running && t_self != 0) {
        S.th[t_self]->yielded = true;
    }
}

int choose(int n, const char* /*what*/)
{
    if (n <= 1) {
        return 0;
    }
    int v = int(next_rnd() % uint64_t(n));
    return decide(n, v);
}

bool chance(int num, int den, const char* what)
{
    int v = (int(next_rnd() % uint64_t(den)) < num) ? 1 : 0;
    // the shim's own chances are the weak events "spurious CAS failure" and "late wake-up"
    bool weak = what != nullptr && (strcmp(what, "casfail") == 0 || strcmp(what, "latewake") == 0);
    return decide(2, v, weak) == 1;
}

// ---- plain-access tap -------------------------------------------------------------------------
struct TapRange {
    uintptr_t lo, hi;
};
static TapRange g_ranges[64];
static int g_nranges = 0;
static bool g_tap_on = false;
static thread_local int t_in_tap = 0;
// a store hook runs BEFORE the store: remember it and print the stored value lazily, right before
// the same thread's next event (by then the store instruction has executed)
static thread_local void* t_pend_addr = nullptr;
static thread_local unsigned t_pend_size = 0;
// opt-in (tap_opts): print 8-byte values as canonical names (pointers into registered objects, "null", "?k") instead
// of raw numbers; make every tapped access a scheduling point (taken BEFORE the access executes)
static bool g_tap_names = false;
static bool g_tap_sched = false;
void tap_opts(bool value_names, bool sched_points)
{
    g_tap_names = value_names;
    g_tap_sched = sched_points;
}
static std::string tap_value(const void* a, unsigned size)
{
    uint64_t v = 0;
    memcpy(&v, a, size);
    if (g_tap_names && size == 8) {
        return name_of(reinterpret_cast<const void*>(static_cast<uintptr_t>(v)));
    }
    return std::to_string(static_cast<long long>(v));
}

void tap_add(const void* p, size_t n)
{
    if (g_nranges < 64) {
        g_ranges[g_nranges++] = TapRange{reinterpret_cast<uintptr_t>(p), reinterpret_cast<uintptr_t>(p) + n};
    }
    g_tap_on = true;
}
void tap_remove(const void* p)
{
    auto lo = reinterpret_cast<uintptr_t>(p);
    for (int i = 0; i < g_nranges; ++i) {
        if (g_ranges[i].lo == lo) {
            g_ranges[i] = g_ranges[--g_nranges];
            break;
        }
    }
    g_tap_on = g_nranges > 0;
}
void tap_clear()
{
    g_nranges = 0;
    g_tap_on = false;
    g_tap_names = false;
    g_tap_sched = false;
}

static void flush_pending_store()
{
    if (t_pend_addr == nullptr) {
        return;
    }
    void* a = t_pend_addr;
    unsigned size = t_pend_size;
    t_pend_addr = nullptr;
    std::string line = "pst " + name_of(a) + " " + std::to_string(size);
    if (size <= 8) {
        line += " " + tap_value(a, size);
    }
    S.res.trace.push_back(std::to_string(t_self) + " " + line);
}

void tap_access(void* a, unsigned size, bool write)
{
    if (!g_tap_on || t_in_tap != 0 || !S.recording) {
        return;
    }
    auto x = reinterpret_cast<uintptr_t>(a);
    for (int i = 0; i < g_nranges; ++i) {
        if (x >= g_ranges[i].lo && x < g_ranges[i].hi) {
            ++t_in_tap;
            flush_pending_store();
            if (g_tap_sched) {
                sched();
            }
            if (write) {
                t_pend_addr = a;
                t_pend_size = size;
            } else {
                std::string line = "pld " + name_of(a) + " " + std::to_string(size);
                if (size <= 8) {
                    line += " " + tap_value(a, size);
                }
                S.res.trace.push_back(std::to_string(t_self) + " " + line);
            }
            --t_in_tap;
            return;
        }
    }
}

void emit(const std::string& line)
{
    if (!S.recording) {
        return;
    }
    flush_pending_store();
    S.res.trace.push_back(std::to_string(t_self) + " " + line);
}

void emitf(const char* fmt, ...)
{
    if (!S.recording) {
        return;
    }
    char buf[512];
    va_list ap;
    va_start(ap, fmt);
    vsnprintf(buf, sizeof buf, fmt, ap);
    va_end(ap);
    emit(buf);
}

void fail(const std::string& what)
{
    S.res.failures.push_back(std::to_string(t_self) + " " + what);
}

void reg_auto(const void* p, const char* kind)
{
    if (!S.recording) {
        return;
    }
    if (S.names.count(p) != 0U) {
        return;
    }
    int k = S.autoseq[kind]++;
    S.names[p] = std::string(kind) + std::to_string(k);
}
void reg_name(const void* p, const std::string& name) { S.names[p] = name; }
void unreg(const void* p) { S.names.erase(p); }
void reg_range(const void* base, size_t size, const std::string& name) { S.ranges[base] = {size, name}; }
void unreg_range(const void* base) { S.ranges.erase(base); }
bool is_registered(const void* p)
{
    if (S.names.count(p) != 0U) {
        return true;
    }
    auto it = S.ranges.upper_bound(p);
    if (it == S.ranges.begin()) {
        return false;
    }
    --it;
    auto off = static_cast<const char*>(p) - static_cast<const char*>(it->first);
    return off >= 0 && size_t(off) < it->second.first;
}
std::string name_of(const void* p)
{
    if (p == nullptr) {
        return "null";
    }
    auto it = S.names.find(p);
    if (it != S.names.end()) {
        return it->second;
    }
    auto r = S.ranges.upper_bound(p);
    if (r != S.ranges.begin()) {
        --r;
        auto off = static_cast<const char*>(p) - static_cast<const char*>(r->first);
        if (off >= 0 && size_t(off) < r->second.first) {
            if (off == 0) {
                return r->second.second;
            }
            return r->second.second + "+" + std::to_string(off);
        }
    }
    auto a = S.anon.find(p);
    if (a == S.anon.end()) {
        int k = int(S.anon.size());
        a = S.anon.emplace(p, k).first;
    }
    return "?" + std::to_string(a->second);
}

void begin(const Config& cfg)
{
    S.cfg = cfg;
    S.res = Result();
    S.rng = cfg.seed * 0x9E3779B97F4A7C15ull + 0x632BE59BD9B4E019ull;
    if (S.rng == 0) {
        S.rng = 1;
    }
    for (int i = 0; i < 4; ++i) {
        next_rnd();
    }
    S.replay_pos = 0;
    S.spurious_left = cfg.spurious_budget;
    g_casfail_left = cfg.casfail_budget;
    g_ctor_sched = 0;
    g_post_unlock_sched = 1;   // default on; a client whose scripts carry schedule hints in decision counts switches it off
    g_latewake_left = cfg.latewake_budget;
    S.names.clear();
    S.ranges.clear();
    S.autoseq.clear();
    S.anon.clear();
    S.recording = true;
    S.last = 0;
    t_self = 0;
}

void run_threads(const std::vector<std::function<void()>>& bodies)
{
    S.th.clear();
    S.th.emplace_back(new LThread());  // tid 0 placeholder
    S.all_done = false;
    size_t n = bodies.size();
    for (size_t i = 0; i < n; ++i) {
        S.th.emplace_back(new LThread());
    }
    // PCT set-up
    S.pct_points.clear();
    if (S.cfg.strategy == 2) {
        std::vector<int> pr(n);
        for (size_t i = 0; i < n; ++i) {
            pr[i] = int(i) + 1;
        }
        for (size_t i = n; i > 1; --i) {
            std::swap(pr[i - 1], pr[next_rnd() % i]);
        }
        for (size_t i = 0; i < n; ++i) {
            S.th[i + 1]->prio = pr[i] + S.cfg.pct_depth;
        }
        long len = std::max(20, S.cfg.max_steps / 100);
        for (int d = 0; d + 1 < S.cfg.pct_depth; ++d) {
            S.pct_points.push_back(long(next_rnd() % uint64_t(len)));
        }
    }
    S.running = true;
    {
        std::unique_lock<std::mutex> lk(S.G);
        for (size_t i = 1; i <= n; ++i) {
            auto* t = S.th[i].get();
            t->parked = true;  // parked at its start
            t->en = nullptr;
            t->go = false;
            int tid = int(i);
            const auto* body = &bodies[i - 1];
            t->th = std::thread([t, tid, body] {
                t_self = tid;
                {
                    std::unique_lock<std::mutex> l2(S.G);
                    t->cv.wait(l2, [t] { return t->go; });
                    t->parked = false;
                    t->go = false;
                }
                (*body)();
                flush_pending_store();
                std::unique_lock<std::mutex> l3(S.G);
                t->finished = true;
                hand_off(l3, tid, true);
            });
        }
        // start: pick the first thread
        int cls = EN;
        int first = pick(&cls);
        if (first != 0) {
            S.last = first;
            S.th[first]->go = true;
            S.th[first]->go_class = cls;
            S.th[first]->cv.notify_one();
        } else {
            S.all_done = true;
        }
        S.main_cv.wait(lk, [] { return S.all_done; });
    }
    S.running = false;
    if (S.res.deadlock || S.res.steplimit) {
        // threads are stuck inside library code; they cannot be joined
        for (size_t i = 1; i <= n; ++i) {
            S.th[i]->th.detach();
        }
        return;
    }
    for (size_t i = 1; i <= n; ++i) {
        S.th[i]->th.join();
    }
}

Result end()
{
    S.recording = false;
    return S.res;
}

void resume() { S.recording = true; }

const char* order_name(int o)
{
    switch (o) {
        case 0:
            return "rlx";
        case 1:
            return "con";
        case 2:
            return "acq";
        case 3:
            return "rel";
        case 4:
            return "ar";
        default:
            return "sc";
    }
}

}  // namespace verif
