// vpayload_cow.hpp — traced multi-word payload for the copy-on-write client: a counter stored in W equal words plus a
// unique version id given at construction (0 = the object made by the wrapper's constructor).  Included AFTER the shim,
// after vpayload.hpp (fault injector).
//
// Every instance is traced (all of them are shared or about to be):
//   pct v<id> <c>            constructed with value c
//   pcp v<new> v<src> <c>    copy-constructed from v<src> (words read one by one, scheduling point before each)
//   uth <k>                  the copy constructor throws (fault injector, vpay::arm) — before anything is read
//   pwr v<id> <c>            complete write (words written one by one, scheduling point before each)
//   prd v<id> <c>            complete read  (words read one by one, scheduling point before each)
//   pdt v<id>                destroyed
// C++-side monitors (verif::fail): torn read (words differ); any access to / second destruction of a destroyed object
// (liveness is kept in a registry keyed by address, so the check does not depend on the freed memory's content; objects
// made with `new` are quarantined until the next run, so addresses are not reused inside a run).
// Each live object is a registered range named v<id>: with verif::tap_opts(true, ...) a tapped pointer to it is printed
// as v<id>.
#pragma once
#include <map>

namespace vpay {

struct Ver;
// `Ver b{a}` is a one-element container, not a copy (cf. vpayload.hpp)
struct VerItem {
    const Ver* src;
    VerItem(const Ver& o): src(&o) {}  // NOLINT (implicit on purpose)
};
struct Ver {
    static constexpr int W = 3;
    int id = -1;
    long w[W] = {};

    struct Reg {
        int next = 0;
        std::map<const Ver*, int> live;   // address -> id
        std::vector<void*> quarantine;
        int constructed = 0;
        int destroyed = 0;
    };
    static Reg& reg()
    {
        static Reg r;
        return r;
    }
    // start of a run: ids restart at 0, quarantined memory of the previous run is returned
    static void reset()
    {
        Reg& r = reg();
        for (void* p : r.quarantine) {
            ::operator delete(p);
        }
        r.quarantine.clear();
        r.live.clear();
        r.next = 0;
        r.constructed = 0;
        r.destroyed = 0;
    }
    static void* operator new(size_t n) { return ::operator new(n); }
    static void operator delete(void* p) { reg().quarantine.push_back(p); }

    // id of a live object at this address, -1 (and a monitor failure) if there is none
    int check(const char* what) const
    {
        auto it = reg().live.find(this);
        if (it == reg().live.end()) {
            verif::fail(std::string(what) + " of a destroyed payload object");
            return -1;
        }
        return it->second;
    }
    static std::string nm(int i) { return i < 0 ? std::string("v?") : "v" + std::to_string(i); }
    void born(long v)
    {
        id = reg().next++;
        for (long& x : w) {
            x = v;
        }
        reg().live[this] = id;
        ++reg().constructed;
        verif::reg_range(this, sizeof(*this), nm(id));
    }

    explicit Ver(long v = 0)
    {
        born(v);
        verif::emit("pct " + nm(id) + " " + std::to_string(v));
    }
    // word-by-word read; liveness is re-checked before every word (a concurrent destruction is caught)
    long read_words(const char* what, int& seen_id) const
    {
        long r[W] = {};
        seen_id = -1;
        for (int i = 0; i < W; ++i) {
            verif::sched();
            seen_id = check(what);
            if (seen_id < 0) {
                return -1;
            }
            r[i] = w[i];
        }
        for (int i = 1; i < W; ++i) {
            if (r[i] != r[0]) {
                verif::fail("torn " + std::string(what) + " of " + nm(seen_id) + ": " + std::to_string(r[0]) + "/" +
                            std::to_string(r[i]));
            }
        }
        return r[0];
    }
    Ver(const Ver& o)
    {
        user_call();  // fault-injection point: throws before anything is read or constructed
        int src = -1;
        long v = o.read_words("copy", src);
        born(v);
        verif::emit("pcp " + nm(id) + " " + nm(src) + " " + std::to_string(v));
    }
    Ver(std::initializer_list<VerItem> l)  // NOLINT: list construction — a fresh object with a marker value, not a copy
    {
        born(88800 + long(l.size()));
        verif::emit("pcp " + nm(id) + " " + nm(-1) + " " + std::to_string(88800 + long(l.size())));
    }
    // cow_guarded never assigns to a payload object: a new value is always a NEW object.  The assignment operators exist
    // (so that a tree under test that does assign still builds) and are traced as an ordinary write of the target — the
    // model and the oracle then see a write to whatever object the library assigned to (a published one is a violation).
    Ver& operator=(const Ver& o)
    {
        int src = -1;
        long v = o.read_words("copy", src);
        set(v);
        return *this;
    }
    Ver& operator=(Ver&& o) noexcept
    {
        int src = -1;
        long v = o.read_words("copy", src);
        set(v);
        return *this;
    }
    ~Ver()
    {
        int i = check("destruction");
        if (i >= 0) {
            reg().live.erase(this);
            ++reg().destroyed;
            verif::unreg_range(this);
            verif::emit("pdt " + nm(i));
        }
    }
    long get() const
    {
        int i = -1;
        long v = read_words("read", i);
        if (i >= 0) {
            verif::emit("prd " + nm(i) + " " + std::to_string(v));
        }
        return v;
    }
    void set(long v)
    {
        int i = -1;
        for (int k = 0; k < W; ++k) {
            verif::sched();
            i = check("write");
            if (i < 0) {
                return;
            }
            w[k] = v;
        }
        verif::emit("pwr " + nm(i) + " " + std::to_string(v));
    }
    // harness-only peeks: no scheduling point, no event
    long raw() const { return w[0]; }
    int raw_id() const
    {
        auto it = reg().live.find(this);
        return it == reg().live.end() ? -1 : it->second;
    }
};

}  // namespace vpay
