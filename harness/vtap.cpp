// vtap.cpp — plain-access tap.  Harness clients that need to see the library's NON-atomic memory
// accesses are compiled with -fsanitize=thread (instrumentation only) and linked against this file
// instead of the TSan runtime: every plain load/store the compiled headers execute calls one of
// the hooks below; accesses inside a registered tap range become `pld` / `pst` trace events.
// Compiled WITHOUT -fsanitize=thread.
#include "vrt.hpp"


namespace verif {
void tap_access(void* a, unsigned size, bool write);  // vrt.cpp
static inline void access(void* a, unsigned size, bool write) { tap_access(a, size, write); }
}  // namespace verif

extern "C" {
#define VT_RD(n)                                                                      \
    void __tsan_read##n(void* a) { verif::access(a, n, false); }                      \
    void __tsan_unaligned_read##n(void* a) { verif::access(a, n, false); }            \
    void __tsan_read##n##_pc(void* a, void*) { verif::access(a, n, false); }
#define VT_WR(n)                                                                      \
    void __tsan_write##n(void* a) { verif::access(a, n, true); }                      \
    void __tsan_unaligned_write##n(void* a) { verif::access(a, n, true); }            \
    void __tsan_write##n##_pc(void* a, void*) { verif::access(a, n, true); }
VT_RD(1) VT_RD(2) VT_RD(4) VT_RD(8) VT_RD(16) VT_WR(1) VT_WR(2) VT_WR(4) VT_WR(8) VT_WR(16)
void __tsan_read_range(void* a, unsigned long n) { verif::access(a, static_cast<unsigned>(n > 255 ? 255 : n), false); }
void __tsan_write_range(void* a, unsigned long n) { verif::access(a, static_cast<unsigned>(n > 255 ? 255 : n), true); }
void __tsan_func_entry(void*) {}
void __tsan_func_exit() {}
void __tsan_init() {}
void __tsan_vptr_update(void**, void*) {}
void __tsan_vptr_read(void**) {}
void __tsan_ignore_thread_begin() {}
void __tsan_ignore_thread_end() {}

// pass-through atomics (libstdc++ internals: shared_ptr counts, call_once, future state)
#define VT_ATOMIC(bits, T)                                                                                          \
    T __tsan_atomic##bits##_load(const volatile T* a, int) { return __atomic_load_n(a, __ATOMIC_SEQ_CST); }         \
    void __tsan_atomic##bits##_store(volatile T* a, T v, int) { __atomic_store_n(a, v, __ATOMIC_SEQ_CST); }         \
    T __tsan_atomic##bits##_exchange(volatile T* a, T v, int) { return __atomic_exchange_n(a, v, __ATOMIC_SEQ_CST); } \
    T __tsan_atomic##bits##_fetch_add(volatile T* a, T v, int) { return __atomic_fetch_add(a, v, __ATOMIC_SEQ_CST); } \
    T __tsan_atomic##bits##_fetch_sub(volatile T* a, T v, int) { return __atomic_fetch_sub(a, v, __ATOMIC_SEQ_CST); } \
    T __tsan_atomic##bits##_fetch_and(volatile T* a, T v, int) { return __atomic_fetch_and(a, v, __ATOMIC_SEQ_CST); } \
    T __tsan_atomic##bits##_fetch_or(volatile T* a, T v, int) { return __atomic_fetch_or(a, v, __ATOMIC_SEQ_CST); }   \
    T __tsan_atomic##bits##_fetch_xor(volatile T* a, T v, int) { return __atomic_fetch_xor(a, v, __ATOMIC_SEQ_CST); } \
    int __tsan_atomic##bits##_compare_exchange_strong(volatile T* a, T* c, T v, int, int)                            \
    {                                                                                                                \
        return __atomic_compare_exchange_n(a, c, v, false, __ATOMIC_SEQ_CST, __ATOMIC_SEQ_CST) ? 1 : 0;              \
    }                                                                                                                \
    int __tsan_atomic##bits##_compare_exchange_weak(volatile T* a, T* c, T v, int, int)                              \
    {                                                                                                                \
        return __atomic_compare_exchange_n(a, c, v, true, __ATOMIC_SEQ_CST, __ATOMIC_SEQ_CST) ? 1 : 0;               \
    }
VT_ATOMIC(8, unsigned char)
VT_ATOMIC(16, unsigned short)
VT_ATOMIC(32, unsigned int)
VT_ATOMIC(64, unsigned long)
void __tsan_atomic_thread_fence(int) { __atomic_thread_fence(__ATOMIC_SEQ_CST); }
void __tsan_atomic_signal_fence(int) {}
}
