// vrt.hpp — runtime interface of the verification harness (deterministic scheduler,
// trace recorder, naming registry, choice oracle).  Included by vshim.hpp *before* the
// renaming macros are defined, and by vrt.cpp which is compiled without the shim.
#pragma once
#include <cstdint>
#include <functional>
#include <string>
#include <vector>

namespace verif {

// ---- enabledness of a pending operation -------------------------------------------------
// 0 = cannot run now; 1 = can run; 2 = can run only as a time-out; 3 = only as a spurious wake-up
enum : int { DIS = 0, EN = 1, EN_TIMEOUT = 2, EN_SPURIOUS = 3 };
using Enabled = std::function<int()>;

// scheduling point: returns when the calling logical thread has been chosen to run and
// `en()` is non-zero; the returned value is the enabledness class it was chosen under.
int sched(const Enabled& en);
inline int sched() { return sched([] { return int(EN); }); }
// the calling thread just yielded / slept (spin loop): deprioritised until somebody else moves
void mark_yield();
// directed path forcing: the calling logical thread's k-th scheduling point from now (k >= 1; typically inside library
// code the client cannot instrument) is additionally blocked until `until()` is non-zero.  A gate that never opens shows
// up as a deadlock verdict, so only use it in directed scripts whose gate is opened unconditionally by another thread.
void gate_at(int k, const Enabled& until);
// a second, independent gate of the same kind (so that one library call can be parked at two different points); the two
// gates must not name the same scheduling point
void gate_also(int k, const Enabled& until);
// true while logical thread `tid` is parked at the scheduling point its gate applies to (lets another thread's
// enabledness condition wait for "tid has reached that point")
bool at_gate(int tid);

// scheduler-made nondeterministic choice in [0,n); recorded for replay
int choose(int n, const char* what);
// true with probability num/den, recorded
bool chance(int num, int den, const char* what);

// ---- tracing ------------------------------------------------------------------------------
int self();                                  // logical thread id (0 = main / outside run)
void emit(const std::string& line);          // appends "<tid> <line>" to the trace
void emitf(const char* fmt, ...) __attribute__((format(printf, 1, 2)));
void fail(const std::string& what);          // C++-side monitor fired (recorded, run continues)
bool tracing();

// ---- canonical names ------------------------------------------------------------------------
void reg_auto(const void* p, const char* kind);          // shim object constructed: kind#seq
void reg_name(const void* p, const std::string& name);   // client-given name (member name)
void unreg(const void* p);
void reg_range(const void* base, size_t size, const std::string& name);  // heap block / object
void unreg_range(const void* base);
std::string name_of(const void* p);                       // "null", registered name, "blk+off", or "?k"
bool is_registered(const void* p);

// ---- plain-access tap (vtap.cpp; only in clients built with the tap) ---------------------------
void tap_add(const void* p, size_t n);   // plain loads/stores inside [p,p+n) become pld/pst events
void tap_remove(const void* p);
void tap_clear();
// opt-in, both off by default: value_names — 8-byte values of pld/pst are printed as canonical names (name_of of the
// value taken as a pointer: a registered object / range, "null", or "?k") instead of numbers; sched_points — every tapped
// access is a scheduling point, taken before the access executes
void tap_opts(bool value_names, bool sched_points);

// ---- running -----------------------------------------------------------------------------------
struct Config {
    uint64_t seed = 1;
    int strategy = 0;         // 0 uniform random, 1 sticky random, 2 PCT, 3 replay, 4 prefix + deterministic default (DFS)
    int pct_depth = 3;
    int max_steps = 20000;    // per run; exceeded => livelock/step-limit verdict
    int spurious_budget = 2;  // spurious cv wake-ups per run
    int casfail_budget = 2;   // spurious weak-CAS failures per run
    int latewake_budget = 2;  // notified timed cv waits that nevertheless report a time-out, per run
    int stick_pct = 70;       // sticky strategy: probability (percent) to continue the same thread
    std::vector<int> replay;  // strategy 3: recorded decisions; strategy 4: the decision prefix to follow exactly
};
// strategy 4 (systematic exploration, driven by checks/dfs.py): the decisions of `replay` are followed exactly (a decision
// that does not fit is a divergence: Result.diverged), afterwards the scheduler is DETERMINISTIC: the running thread keeps
// running while it is enabled and has not just yielded/slept, otherwise the next enabled non-spinning thread in cyclic tid
// order runs; a time-out fires only when nothing else can run; no spurious wake-up; choose()/chance() return 0 / false.
// Every alternative that was available at a decision point after the prefix is reported:
struct Alt {
    int pos;   // index into Result.decisions
    int dec;   // the other decision that could have been taken there (same encoding as the decisions)
    int kind;  // bit 0: a preemption (switches away from a thread that is enabled and not spinning);
               // bit 1: a weak event (time-out with other work available, spurious wake-up, late wake-up, spurious CAS failure)
};
struct Result {
    bool deadlock = false;
    bool steplimit = false;
    std::vector<std::string> trace;
    std::vector<int> decisions;
    std::vector<std::string> failures;
    std::vector<int> blocked;  // threads parked at deadlock
    long steps = 0;
    std::vector<Alt> alts;     // strategy 4 only
    int diverged = -1;         // strategy 4 only: position of the first prefix decision that did not fit (-1: none)
};
// start recording (main thread, tid 0); events emitted before run_threads (construction) are kept
void begin(const Config& cfg);
// run the logical threads 1..n to completion (or deadlock / step limit) under the scheduler
void run_threads(const std::vector<std::function<void()>>& bodies);
// stop recording, return everything
Result end();
// continue recording after an end() (used by after_run to keep tracing destructors)
void resume();

const char* order_name(int o);
uint64_t rnd();  // the one PRNG (seeded by Config.seed)

}  // namespace verif
