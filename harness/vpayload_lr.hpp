// vpayload_lr.hpp — traced multi-word payload for the left-right / copy-on-write clients: the list of
// operation ids applied to the object so far.  Included AFTER the shim, after vpayload.hpp.
//
// Layout: n | v[0..CAP) | n2.  Every complete state has n == n2 (n2 is written last, n first), so a reader
// that overlaps a writer sees n != n2 (or a value that is not a complete list) — torn states are observable.
// Accesses to a REGISTERED instance (the copies inside the wrapper, named by the client with verif::reg_name)
// are scheduling points and produce whole-object window events:
//   pwb <name>               in-place modification (append) of <name> starts
//   pwr <name> <list>        ... is complete; <name> now holds <list>
//   cpb <dst> <src>          copy assignment onto <dst> starts        (src may be an unregistered temporary: "?")
//   cpe <dst> <src> <list>   ... is complete; <dst> now holds <list>
//   prd <name> <list>        complete read of <name> (words read one by one, scheduling point before each)
// <list> is "-" for the empty list, otherwise ids joined by '.', e.g. "1.2.3".
// Unregistered instances (temporaries, constructor arguments) are silent.
#pragma once

namespace vpay {

struct OpLog;
// makes OpLog "initializer_list-constructible from itself" (like std::vector<std::any>, JSON document types …): for such a
// T, `T b{a}` is NOT a copy — it builds a one-element container.  A wrapper that brace-initialises a copy of the wrapped
// object changes its value for these types only.
struct OpLogItem {
    const OpLog* src;
    OpLogItem(const OpLog& o): src(&o) {}  // NOLINT (implicit on purpose)
};

struct OpLog {
    static constexpr int CAP = 24;
    int n = 0;
    int v[CAP] = {};
    int n2 = 0;

    OpLog() = default;
    // list construction: the elements' contents followed by the marker 999 — visibly not a copy
    OpLog(std::initializer_list<OpLogItem> l);  // NOLINT
    bool traced() const { return verif::tracing() && verif::is_registered(this); }
    std::string nm() const { return verif::is_registered(this) ? verif::name_of(this) : std::string("?"); }

    static std::string text(const std::vector<int>& l)
    {
        if (l.empty()) {
            return "-";
        }
        std::string r;
        for (size_t i = 0; i < l.size(); ++i) {
            r += (i ? "." : "") + std::to_string(l[i]);
        }
        return r;
    }
    // harness-only peek: no scheduling point, no event
    std::vector<int> raw() const
    {
        std::vector<int> r;
        for (int i = 0; i < n && i < CAP; ++i) {
            r.push_back(v[i]);
        }
        return r;
    }
    bool raw_torn() const { return n != n2; }

    // word-by-word read; `who` is used in the monitor message only
    std::vector<int> read_words(bool points) const
    {
        if (points) {
            verif::sched();
        }
        int a = n;
        std::vector<int> r;
        for (int i = 0; i < a && i < CAP; ++i) {
            if (points) {
                verif::sched();
            }
            r.push_back(v[i]);
        }
        if (points) {
            verif::sched();
        }
        int b = n2;
        if (a != b) {
            verif::fail("torn read of " + nm() + ": n=" + std::to_string(a) + " n2=" + std::to_string(b));
        }
        return r;
    }
    // complete read through a handle
    std::vector<int> snapshot() const
    {
        if (!traced()) {
            return raw();
        }
        std::vector<int> r = read_words(true);
        verif::emit("prd " + nm() + " " + text(r));
        return r;
    }
    // the user modification: append one id.  `cut` > 0: stop (return false) after `cut` word writes, leaving
    // the object torn — used by functors that throw in the middle of their work.
    bool append(int k, int cut = 0)
    {
        if (!traced()) {
            if (n < CAP) {
                v[n] = k;
            }
            ++n;
            n2 = n;
            return true;
        }
        verif::sched();
        verif::emit("pwb " + nm());
        int m = n;
        n = m + 1;  // first word: the length (readers now see n != n2)
        if (cut == 1) {
            return false;
        }
        verif::sched();
        if (m < CAP) {
            v[m] = k;
        }
        if (cut == 2) {
            return false;
        }
        verif::sched();
        n2 = m + 1;
        verif::emit("pwr " + nm() + " " + text(raw()));
        return true;
    }
    OpLog(const OpLog& o): n(0), n2(0)
    {
        // construction of a new object: the destination is never registered yet; the source may be
        std::vector<int> l = o.traced() ? o.read_words(true) : o.raw();
        if (o.traced()) {
            verif::emit("prd " + o.nm() + " " + text(l));
        }
        for (size_t i = 0; i < l.size() && i < size_t(CAP); ++i) {
            v[i] = l[i];
        }
        n = int(l.size());
        n2 = n;
    }
    OpLog& operator=(const OpLog& o)
    {
        if (!traced()) {
            std::vector<int> l = o.traced() ? o.snapshot() : o.raw();
            for (size_t i = 0; i < l.size() && i < size_t(CAP); ++i) {
                v[i] = l[i];
            }
            n = int(l.size());
            n2 = n;
            return *this;
        }
        verif::sched();
        verif::emit("cpb " + nm() + " " + o.nm());
        // read the source word by word (scheduling points only if it is a shared, registered object)
        std::vector<int> l = o.read_words(o.traced());
        n = int(l.size());
        for (size_t i = 0; i < l.size() && i < size_t(CAP); ++i) {
            verif::sched();
            v[i] = l[i];
        }
        verif::sched();
        n2 = n;
        verif::emit("cpe " + nm() + " " + o.nm() + " " + text(raw()));
        return *this;
    }
};

inline OpLog::OpLog(std::initializer_list<OpLogItem> l)
{
    for (const auto& it : l) {
        for (int i = 0; i < it.src->n && n < CAP - 1; ++i) {
            v[n++] = it.src->v[i];
        }
    }
    v[n++] = 999;
    n2 = n;
}

}  // namespace vpay
