// vshim.hpp — force-included first (-include).  Substitutes the synchronisation primitives the
// library uses by traced, scheduler-controlled ones WITHOUT touching the library sources:
//  (a) include every std header the library uses, so their include guards are set,
//  (b) define verif::atomic / mutex / ... ,
//  (c) declare aliases std::verif_* and
//  (d) #define atomic verif_atomic, mutex verif_mutex, ...
// std::unique_lock / shared_lock / lock_guard stay the real templates.
#pragma once
#ifndef GMLC_TDC_CONCURRENCY_VERIF
#define GMLC_TDC_CONCURRENCY_VERIF 1
#endif
#include <algorithm>
#include <array>
#include <atomic>
#include <chrono>
#include <condition_variable>
#include <cstddef>
#include <cstdio>
#include <deque>
#include <functional>
#include <future>
#include <iostream>
#include <iterator>
#include <list>
#include <map>
#include <memory>
#include <mutex>
#include <shared_mutex>
#include <sstream>
#include <stdexcept>
#include <string>
#include <thread>
#include <type_traits>
#include <unordered_map>
#include <utility>
#include <vector>

#include "vrt.hpp"

namespace verif {

// ---- value printing -----------------------------------------------------------------------
template <class T>
inline std::string vstr(const T& v)
{
    if constexpr (std::is_same_v<T, bool>) {
        return v ? "1" : "0";
    } else if constexpr (std::is_pointer_v<T>) {
        return name_of(static_cast<const void*>(v));
    } else if constexpr (std::is_integral_v<T>) {
        return std::to_string(static_cast<long long>(v));
    } else if constexpr (std::is_enum_v<T>) {
        return std::to_string(static_cast<long long>(v));
    } else {
        return "?";
    }
}

// ---- atomic ---------------------------------------------------------------------------------
extern int g_casfail_left;
extern int g_latewake_left;
// opt-in (set by a client after verif::begin): the CONSTRUCTION of a substituted atomic is a scheduling point (no event).
// Needed where the library creates synchronisation objects lazily: the window between "slot is empty" and "slot filled"
// contains no other substituted operation (std::atomic_load/store on shared_ptr are real libstdc++ calls).
extern int g_ctor_sched;
// opt-in (clients): an extra scheduling point right AFTER a mutex release has taken effect, so that the window between an
// unlock and the thread's next plain access can be preempted (reset by begin())
extern int g_post_unlock_sched;
template <class T>
class atomic {
    T v;

  public:
    atomic() noexcept: v()
    {
        reg_auto(this, "a");
        if (g_ctor_sched != 0) {
            sched();
        }
    }
    atomic(T x) noexcept: v(x)  // NOLINT
    {
        reg_auto(this, "a");
        if (g_ctor_sched != 0) {
            sched();
        }
    }
    ~atomic() { unreg(this); }
    atomic(const atomic&) = delete;
    atomic& operator=(const atomic&) = delete;
    T load(std::memory_order o = std::memory_order_seq_cst) const noexcept
    {
        sched();
        emit("ald " + name_of(this) + " " + order_name(int(o)) + " " + vstr(v));
        return v;
    }
    void store(T x, std::memory_order o = std::memory_order_seq_cst) noexcept
    {
        sched();
        emit("ast " + name_of(this) + " " + order_name(int(o)) + " " + vstr(x));
        v = x;
    }
    operator T() const noexcept { return load(); }  // NOLINT
    T operator=(T x) noexcept
    {
        store(x);
        return x;
    }
    T exchange(T x, std::memory_order o = std::memory_order_seq_cst) noexcept
    {
        sched();
        T old = v;
        emit("axc " + name_of(this) + " " + order_name(int(o)) + " " + vstr(x) + " " + vstr(old));
        v = x;
        return old;
    }
    bool cas(T& exp, T des, std::memory_order o, bool weak) noexcept
    {
        sched();
        bool ok = (v == exp);
        if (ok && weak && g_casfail_left > 0 && chance(1, 8, "casfail")) {
            --g_casfail_left;
            ok = false;  // spurious failure of compare_exchange_weak
            emit("cas " + name_of(this) + " " + order_name(int(o)) + " " + vstr(exp) + " " + vstr(des) + " 0 " + vstr(v) + " spurious");
            return false;
        }
        emit("cas " + name_of(this) + " " + order_name(int(o)) + " " + vstr(exp) + " " + vstr(des) + " " + (ok ? "1 " : "0 ") + vstr(v));
        if (ok) {
            v = des;
        } else {
            exp = v;
        }
        return ok;
    }
    bool compare_exchange_weak(T& exp, T des, std::memory_order o = std::memory_order_seq_cst) noexcept { return cas(exp, des, o, true); }
    bool compare_exchange_strong(T& exp, T des, std::memory_order o = std::memory_order_seq_cst) noexcept { return cas(exp, des, o, false); }
    bool compare_exchange_weak(T& exp, T des, std::memory_order o, std::memory_order) noexcept { return cas(exp, des, o, true); }
    bool compare_exchange_strong(T& exp, T des, std::memory_order o, std::memory_order) noexcept { return cas(exp, des, o, false); }
    template <class D>
    T rmw_add(D d, std::memory_order o) noexcept
    {
        sched();
        T old = v;
        emit("rmw " + name_of(this) + " " + order_name(int(o)) + " add " + std::to_string(static_cast<long long>(d)) + " " + vstr(old));
        v = static_cast<T>(old + d);
        return old;
    }
    T fetch_add(T d, std::memory_order o = std::memory_order_seq_cst) noexcept { return rmw_add(static_cast<long long>(d), o); }
    T fetch_sub(T d, std::memory_order o = std::memory_order_seq_cst) noexcept { return rmw_add(-static_cast<long long>(d), o); }
    T operator++(int) noexcept { return fetch_add(1); }
    T operator--(int) noexcept { return fetch_sub(1); }
    T operator++() noexcept { return fetch_add(1) + 1; }
    T operator--() noexcept { return fetch_sub(1) - 1; }
    T operator+=(T d) noexcept { return fetch_add(d) + d; }
    T operator-=(T d) noexcept { return fetch_sub(d) - d; }
    T raw() const { return v; }  // harness-only peek, no event
};

// ---- mutexes ----------------------------------------------------------------------------------
struct mutex {
    int owner = 0;  // tid+1 of exclusive holder, 0 = free
    int readers = 0;
    mutex() { reg_auto(this, "m"); }
    ~mutex() { unreg(this); }
    mutex(const mutex&) = delete;
    mutex& operator=(const mutex&) = delete;
    bool free_x() const { return owner == 0 && readers == 0; }
    void lock()
    {
        sched([this] { return free_x() ? int(EN) : int(DIS); });
        owner = self() + 1;
        emit("mlk " + name_of(this));
    }
    bool try_lock()
    {
        sched();
        bool ok = free_x();
        if (ok) {
            owner = self() + 1;
        }
        emit("mtl " + name_of(this) + (ok ? " 1" : " 0"));
        return ok;
    }
    void unlock()
    {
        sched();
        if (owner != self() + 1) {
            fail("unlock of mutex not owned: " + name_of(this));
        }
        owner = 0;
        emit("mul " + name_of(this));
        if (g_post_unlock_sched != 0) {
            sched();
        }
    }
    // timed forms (only reachable through timed_mutex / shared_timed_mutex)
    bool try_lock_timed()
    {
        // a timed attempt either gets the lock when it becomes free or times out (scheduler's choice)
        int c = sched([this] { return free_x() ? int(EN) : int(EN_TIMEOUT); });
        bool ok = (c == EN) && free_x();
        if (ok) {
            owner = self() + 1;
        }
        emit("mtf " + name_of(this) + (ok ? " 1" : " 0"));
        return ok;
    }
};
struct timed_mutex: mutex {
    template <class R, class P>
    bool try_lock_for(const std::chrono::duration<R, P>&) { return try_lock_timed(); }
    template <class C, class D>
    bool try_lock_until(const std::chrono::time_point<C, D>&) { return try_lock_timed(); }
};
struct shared_mutex: mutex {
    void lock_shared()
    {
        sched([this] { return owner == 0 ? int(EN) : int(DIS); });
        ++readers;
        emit("slk " + name_of(this));
    }
    bool try_lock_shared()
    {
        sched();
        bool ok = owner == 0;
        if (ok) {
            ++readers;
        }
        emit("stl " + name_of(this) + (ok ? " 1" : " 0"));
        return ok;
    }
    void unlock_shared()
    {
        sched();
        if (readers <= 0) {
            fail("unlock_shared without reader: " + name_of(this));
        }
        --readers;
        emit("sul " + name_of(this));
        if (g_post_unlock_sched != 0) {
            sched();
        }
    }
    bool try_lock_shared_timed()
    {
        int c = sched([this] { return owner == 0 ? int(EN) : int(EN_TIMEOUT); });
        bool ok = (c == EN) && owner == 0;
        if (ok) {
            ++readers;
        }
        emit("stf " + name_of(this) + (ok ? " 1" : " 0"));
        return ok;
    }
};
struct shared_timed_mutex: shared_mutex {
    template <class R, class P>
    bool try_lock_for(const std::chrono::duration<R, P>&) { return try_lock_timed(); }
    template <class C, class D>
    bool try_lock_until(const std::chrono::time_point<C, D>&) { return try_lock_timed(); }
    template <class R, class P>
    bool try_lock_shared_for(const std::chrono::duration<R, P>&) { return try_lock_shared_timed(); }
    template <class C, class D>
    bool try_lock_shared_until(const std::chrono::time_point<C, D>&) { return try_lock_shared_timed(); }
};

// ---- condition variable ---------------------------------------------------------------------------
struct condition_variable {
    std::vector<int> waiters;  // tids currently in the wait set
    condition_variable() { reg_auto(this, "cv"); }
    ~condition_variable() { unreg(this); }
    condition_variable(const condition_variable&) = delete;
    condition_variable& operator=(const condition_variable&) = delete;
    void notify_all() noexcept
    {
        sched();
        waiters.clear();
        emit("cna " + name_of(this));
    }
    void notify_one() noexcept
    {
        sched();
        int who = 0;
        if (!waiters.empty()) {
            int k = choose(int(waiters.size()), "notify_one");
            who = waiters[size_t(k)];
            waiters.erase(waiters.begin() + k);
        }
        emit("cn1 " + name_of(this) + " " + std::to_string(who));
    }
    // returns reason: 0 notified, 1 spurious, 2 timeout (trace reasons: notified | spurious | timeout | late)
    int wait_impl(std::unique_lock<mutex>& lk, bool timed)
    {
        mutex* m = lk.mutex();
        int me = self();
        sched();
        if (m->owner != me + 1) {
            fail("cv wait without owning the mutex");
        }
        m->owner = 0;
        waiters.push_back(me);
        emit("cwt " + name_of(this) + " " + name_of(m));
        int c = sched([this, m, me, timed] {
            if (!m->free_x()) {
                return int(DIS);
            }
            bool in = std::find(waiters.begin(), waiters.end(), me) != waiters.end();
            if (!in) {
                return int(EN);
            }
            return timed ? int(EN_TIMEOUT) : int(EN_SPURIOUS);
        });
        auto it = std::find(waiters.begin(), waiters.end(), me);
        int reason = 0;
        if (it != waiters.end()) {
            waiters.erase(it);
            reason = (c == EN_TIMEOUT) ? 2 : 1;
        } else if (timed && g_latewake_left > 0 && chance(1, 4, "latewake")) {
            // a timed wait that WAS notified may still report cv_status::timeout: the status only says that the
            // deadline had passed when the thread got the mutex back (scheduler's choice, budgeted per run)
            --g_latewake_left;
            reason = 3;
        }
        m->owner = me + 1;
        static const char* rn[] = {"notified", "spurious", "timeout", "late"};
        emit("cwk " + name_of(this) + " " + name_of(m) + " " + rn[reason]);
        return reason == 3 ? 2 : reason;  // the caller sees a late wake-up as a time-out
    }
    void wait(std::unique_lock<mutex>& lk) { wait_impl(lk, false); }
    template <class P>
    void wait(std::unique_lock<mutex>& lk, P p)
    {
        while (!p()) {
            wait_impl(lk, false);
        }
    }
    template <class R, class Pd>
    std::cv_status wait_for(std::unique_lock<mutex>& lk, const std::chrono::duration<R, Pd>&)
    {
        return wait_impl(lk, true) == 2 ? std::cv_status::timeout : std::cv_status::no_timeout;
    }
    template <class R, class Pd, class P>
    bool wait_for(std::unique_lock<mutex>& lk, const std::chrono::duration<R, Pd>&, P p)
    {
        while (!p()) {
            if (wait_impl(lk, true) == 2) {
                return p();
            }
        }
        return true;
    }
    template <class C, class D>
    std::cv_status wait_until(std::unique_lock<mutex>& lk, const std::chrono::time_point<C, D>&)
    {
        return wait_impl(lk, true) == 2 ? std::cv_status::timeout : std::cv_status::no_timeout;
    }
    template <class C, class D, class P>
    bool wait_until(std::unique_lock<mutex>& lk, const std::chrono::time_point<C, D>&, P p)
    {
        while (!p()) {
            if (wait_impl(lk, true) == 2) {
                return p();
            }
        }
        return true;
    }
};

inline void yield()
{
    sched();
    emit("yld");
    mark_yield();
}
template <class R, class P>
inline void sleep_for(const std::chrono::duration<R, P>&)
{
    sched();
    emit("slp");
    mark_yield();
}

}  // namespace verif

namespace std {
template <class T>
using verif_atomic = ::verif::atomic<T>;
using verif_atomic_bool = ::verif::atomic<bool>;
using verif_atomic_int = ::verif::atomic<int>;
using verif_mutex = ::verif::mutex;
using verif_timed_mutex = ::verif::timed_mutex;
using verif_shared_mutex = ::verif::shared_mutex;
using verif_shared_timed_mutex = ::verif::shared_timed_mutex;
using verif_condition_variable = ::verif::condition_variable;
namespace this_thread {
    inline void verif_yield() { ::verif::yield(); }
    template <class R, class P>
    void verif_sleep_for(const std::chrono::duration<R, P>& d) { ::verif::sleep_for(d); }
}  // namespace this_thread
}  // namespace std

#define atomic verif_atomic
#define atomic_bool verif_atomic_bool
#define atomic_int verif_atomic_int
#define mutex verif_mutex
#define timed_mutex verif_timed_mutex
#define shared_mutex verif_shared_mutex
#define shared_timed_mutex verif_shared_timed_mutex
#define condition_variable verif_condition_variable
#define yield verif_yield
#define sleep_for verif_sleep_for
