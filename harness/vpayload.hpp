// vpayload.hpp — traced payload type and user-code fault injector shared by the wrapper clients.
// Included AFTER the shim (clients include it themselves).
#pragma once

namespace vpay {

struct Injected: std::runtime_error {
    Injected(): std::runtime_error("injected") {}
};

// per logical thread: make the k-th user-code invocation (Pay copy / assignment / comparison /
// functor call) of the current operation throw.  0 = never.
inline int& ucount()
{
    static thread_local int c = 0;
    return c;
}
inline int& uthrow()
{
    static thread_local int k = 0;
    return k;
}
inline void arm(int k)
{
    ucount() = 0;
    uthrow() = k;
}
inline void user_call()
{
    int c = ++ucount();
    if (uthrow() != 0 && c == uthrow()) {
        uthrow() = 0;
        verif::emit("uth " + std::to_string(c));
        throw Injected();
    }
}

// set by a client while the wrapper under test runs with locking disabled (guarded_opt(false)): the
// user has opted out of mutual exclusion, so torn reads are not findings there
inline bool& unprotected()
{
    static bool u = false;
    return u;
}

// Two-word payload.  Accesses to a REGISTERED instance (the object inside the wrapper, named by the
// client with verif::reg_name) are scheduling points and trace events:
//   prd <name> <value>     both words read (with a scheduling point in between: torn reads show up)
//   pwr <name> <value>     both words written (scheduling point in between)
// Unregistered instances (temporaries, arguments, results) are silent.
struct Pay;
// makes Pay "initializer_list-constructible from itself" (like std::vector<std::any>): for such a T, `T b{a}` is not a
// copy but a one-element container.  A wrapper that brace-initialises a copy of the wrapped object changes its value.
struct PayItem {
    const Pay* src;
    PayItem(const Pay& o): src(&o) {}  // NOLINT (implicit on purpose)
};
struct Pay {
    long a = 0;
    long b = 0;
    // identity of the value beyond what operator== compares ("equal but not identical", like a record compared by key
    // only): carried by copies, moves, assignments and swap, ignored by ==, untouched by set().  0 = not in use.  When a
    // REGISTERED instance changes its rev the trace gets a marker `prv <name> <rev>` right after the `pwr`.
    long rev = 0;
    // moved-from marker (a real movable type is left "valid but unspecified", e.g. an empty string): set on the SOURCE of a
    // move, cleared by any assignment to the object.  Not part of the value the model sees; clients check that the wrapped
    // object is not left in this state by a finished or failed operation (husk_check in the lock-family client).
    bool husk = false;
    void take_rev(long r)
    {
        if ((r != 0 || rev != 0) && traced()) {
            verif::emit("prv " + verif::name_of(this) + " " + std::to_string(r));
        }
        rev = r;
    }
    Pay() = default;
    explicit Pay(long v): a(v), b(v) {}
    Pay(std::initializer_list<PayItem> l): a(7770 + long(l.size())), b(7770 + long(l.size())) {}  // NOLINT: visibly not a copy
    bool traced() const { return verif::tracing() && verif::is_registered(this); }
    long get() const
    {
        if (!traced()) {
            return a;
        }
        verif::sched();
        long x = a;
        verif::sched();
        long y = b;
        if (x != y && !unprotected()) {
            verif::fail("torn read of " + verif::name_of(this) + ": " + std::to_string(x) + "/" + std::to_string(y));
        }
        verif::emit("prd " + verif::name_of(this) + " " + std::to_string(x));
        return x;
    }
    void set(long v)
    {
        husk = false;
        if (!traced()) {
            a = v;
            b = v;
            return;
        }
        verif::sched();
        a = v;
        verif::sched();
        b = v;
        verif::emit("pwr " + verif::name_of(this) + " " + std::to_string(v));
    }
    Pay(const Pay& o): a(0), b(0)
    {
        user_call();
        long v = o.get();
        a = v;
        b = v;
        rev = o.rev;
        husk = o.husk;
    }
    // moves are noexcept and never throw (like every standard container); only COPIES are fault-injection points.
    // A wrapper that derives a noexcept specification from the wrong trait then terminates when a copy throws.
    Pay(Pay&& o) noexcept: a(0), b(0)
    {
        long v = o.get();
        a = v;
        b = v;
        rev = o.rev;
        husk = o.husk;
        o.husk = true;
    }
    Pay& operator=(const Pay& o)
    {
        user_call();
        bool h = o.husk;
        set(o.get());
        take_rev(o.rev);
        husk = h;
        return *this;
    }
    Pay& operator=(Pay&& o) noexcept
    {
        bool h = o.husk;
        set(o.get());
        take_rev(o.rev);
        husk = h;
        if (&o != this) {
            o.husk = true;
        }
        return *this;
    }
    friend bool operator==(const Pay& x, const Pay& y)
    {
        user_call();
        return x.get() == y.get();
    }
    friend void swap(Pay& x, Pay& y)
    {
        user_call();
        long vx = x.get();
        long vy = y.get();
        long rx = x.rev;
        long ry = y.rev;
        bool hx = x.husk;
        bool hy = y.husk;
        x.set(vy);
        x.take_rev(ry);
        x.husk = hy;
        y.set(vx);
        y.take_rev(rx);
        y.husk = hx;
    }
};

}  // namespace vpay
