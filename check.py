#!/usr/bin/env python3
"""check.py — the only entry point of the verification machinery.

  check.py --setup                       build the Lean library + driver, audit, warm the harness cache
  check.py Cnn [--tier quick|thorough]   decide property Cnn on /repo's current working tree
  check.py Cnn --replay FILE             re-run the failing input recorded in FILE

Exit 0: the property held on everything explored.  Exit 1: a line
  VIOLATION property=Cnn replay=/verif/replays/...json [no-failing-input-found]
was printed.  Everything is rebuilt from /repo's current working tree (cache keyed by content hash).
See DESIGN.md §2, §5.
"""
import fcntl
import hashlib
import json
import os
import re
import subprocess
import sys
import time

VERIF = os.path.dirname(os.path.abspath(__file__))
REPO = os.environ.get("VERIF_REPO", "/repo")
LEAN = os.path.join(VERIF, "lean")
HARN = os.path.join(VERIF, "harness")
# the three output locations can be redirected (used by seeded/run_against.py so that runs against a mutated copy of the
# repository neither pollute the build cache nor overwrite the evidence of the real tree)
CACHE = os.environ.get("VERIF_CACHE", os.path.join(VERIF, ".cache"))
EVID = os.environ.get("VERIF_EVIDENCE_DIR", os.path.join(VERIF, "evidence"))
REPLAYS = os.environ.get("VERIF_REPLAYS", os.path.join(VERIF, "replays"))
DRIVER = os.path.join(LEAN, ".lake", "build", "bin", "driver")
NCPU = min(16, os.cpu_count() or 4)
ALLOWED_AXIOMS = {"propext", "Classical.choice", "Quot.sound"}

sys.path.insert(0, os.path.join(VERIF, "checks"))


def log(*a):
    print(*a, file=sys.stderr, flush=True)


def sh(cmd, cwd=None, timeout=None, env=None, stdin=None):
    p = subprocess.run(cmd, cwd=cwd, timeout=timeout, env=env, input=stdin, stdout=subprocess.PIPE,
                       stderr=subprocess.STDOUT, text=True, shell=isinstance(cmd, str))
    return p.returncode, p.stdout


class Lock:
    def __init__(self, name):
        os.makedirs(CACHE, exist_ok=True)
        self.path = os.path.join(CACHE, name + ".lock")

    def __enter__(self):
        self.f = open(self.path, "w")
        fcntl.flock(self.f, fcntl.LOCK_EX)
        return self

    def __exit__(self, *a):
        fcntl.flock(self.f, fcntl.LOCK_UN)
        self.f.close()


# ---------------------------------------------------------------------------------------------
# Lean side: build, audit
# ---------------------------------------------------------------------------------------------

def lake_build():
    """build library + driver; returns (ok, output)"""
    with Lock("lake"):
        rc, out = sh(["lake", "build"], cwd=LEAN, timeout=3000)
    return rc == 0 and os.path.exists(DRIVER), out


FORBIDDEN = re.compile(r"\bsorry\b|\badmit\b|^axiom |native_decide|bv_decide|implemented_by|\bunsafe |maxHeartbeats 0")


def strip_comments(text):
    # remove /- ... -/ (nested not needed here) and -- line comments
    text = re.sub(r"/-.*?-/", lambda m: "\n" * m.group(0).count("\n"), text, flags=re.S)
    return "\n".join(l.split("--")[0] for l in text.split("\n"))


def grep_forbidden():
    hits = []
    for root, _, files in os.walk(os.path.join(LEAN, "ConcVerif")):
        for f in files:
            if f.endswith(".lean"):
                p = os.path.join(root, f)
                for i, l in enumerate(strip_comments(open(p).read()).split("\n")):
                    if FORBIDDEN.search(l):
                        hits.append("%s:%d: %s" % (os.path.relpath(p, LEAN), i + 1, l.strip()))
    return hits


def theorems_of(module_file):
    """fully qualified names of the theorems in a Props file"""
    text = strip_comments(open(os.path.join(LEAN, module_file)).read())
    ns = []
    names = []
    for l in text.split("\n"):
        m = re.match(r"\s*namespace\s+(\S+)", l)
        if m:
            ns.append(m.group(1))
            continue
        m = re.match(r"\s*end\s+(\S+)", l)
        if m and ns and ns[-1] == m.group(1):
            ns.pop()
            continue
        m = re.match(r"\s*(?:@\[[^\]]*\]\s*)?theorem\s+(\S+)", l)
        if m:
            names.append(".".join(ns + [m.group(1)]))
    return names


def audit(prop):
    """#print axioms for every theorem of the property's Props file(s); returns dict name -> axioms"""
    spec = PROPS[prop]
    names = []
    imports = []
    for f in spec["lean_files"]:
        names += theorems_of(f)
        imports.append("import " + f[:-5].replace("/", "."))
    src = "\n".join(imports) + "\n" + "\n".join("#print axioms %s" % n for n in names) + "\n"
    os.makedirs(CACHE, exist_ok=True)
    path = os.path.join(CACHE, "Audit_%s.lean" % prop)
    open(path, "w").write(src)
    rc, out = sh(["lake", "env", "lean", path], cwd=LEAN, timeout=1200)
    res = {}
    cur = None
    for l in out.split("\n"):
        m = re.match(r"'(.+)' depends on axioms: \[(.*)", l)
        if m:
            cur = m.group(1)
            res[cur] = [a.strip().rstrip("]") for a in m.group(2).split(",") if a.strip().rstrip("]")]
            if l.rstrip().endswith("]"):
                cur = None
            continue
        m = re.match(r"'(.+)' does not depend on any axioms", l)
        if m:
            res[m.group(1)] = []
            cur = None
            continue
        if cur is not None:
            res[cur] += [a.strip().rstrip("]") for a in l.split(",") if a.strip().rstrip("]")]
            if l.rstrip().endswith("]"):
                cur = None
    bad = {}
    for n in names:
        if n not in res:
            bad[n] = "no axiom report (theorem missing?)"
        else:
            extra = [a for a in res[n] if a not in ALLOWED_AXIOMS]
            if extra:
                bad[n] = "axioms: " + ",".join(extra)
    return names, res, bad, (out if rc != 0 else "")


# ---------------------------------------------------------------------------------------------
# harness side: build clients from /repo's working tree, run, drive
# ---------------------------------------------------------------------------------------------

def tree_hash(extra_files):
    h = hashlib.sha256()
    for root, dirs, files in os.walk(os.path.join(REPO, "gmlc")):
        dirs.sort()
        for f in sorted(files):
            p = os.path.join(root, f)
            h.update(p.encode())
            h.update(open(p, "rb").read())
    for p in extra_files:
        h.update(p.encode())
        h.update(open(p, "rb").read())
    return h.hexdigest()[:16]


CXX = ["g++", "-std=c++17", "-O1", "-g", "-fno-access-control", "-Wno-invalid-offsetof", "-DGMLC_TDC_CONCURRENCY_VERIF",
       "-I" + HARN, "-I" + REPO, "-I" + os.path.join(REPO, "gmlc"), "-pthread"]


def build_client(name, extra_flags=(), tag="", tap=False):
    """returns (path or None, compiler output)"""
    if extra_flags and not tag:
        # one cache entry per flag set (e.g. a sanitizer build of the same client next to the plain one)
        tag = "-f" + hashlib.sha256(" ".join(extra_flags).encode()).hexdigest()[:8]
    if tap:
        extra_flags = tuple(extra_flags) + ("-fsanitize=thread",)
        tag = tag + "-tap"
    src = os.path.join(HARN, "clients", name + ".cpp")
    deps = [src] + [os.path.join(HARN, f) for f in sorted(os.listdir(HARN)) if f.endswith((".hpp", ".cpp"))]
    key = tree_hash(deps) + tag
    d = os.path.join(CACHE, "bin")
    os.makedirs(d, exist_ok=True)
    exe = os.path.join(d, "%s-%s" % (name, key))
    with Lock("build-" + name + tag):
        if os.path.exists(exe):
            return exe, ""
        rt = os.path.join(d, "vrt-%s.o" % tree_hash([os.path.join(HARN, "vrt.cpp"), os.path.join(HARN, "vrt.hpp")]))
        if not os.path.exists(rt):
            rc, out = sh(["g++", "-std=c++17", "-O1", "-g", "-c", os.path.join(HARN, "vrt.cpp"), "-o", rt + ".tmp"])
            if rc != 0:
                return None, out
            os.rename(rt + ".tmp", rt)
        objs = [rt]
        if tap:
            tp = os.path.join(d, "vtap-%s.o" % tree_hash([os.path.join(HARN, "vtap.cpp"), os.path.join(HARN, "vrt.hpp")]))
            if not os.path.exists(tp):
                rc, out = sh(["g++", "-std=c++17", "-O1", "-g", "-c", os.path.join(HARN, "vtap.cpp"), "-o", tp + ".tmp"])
                if rc != 0:
                    return None, out
                os.rename(tp + ".tmp", tp)
            objs.append(tp)
            # compile with TSan instrumentation, link WITHOUT the TSan runtime (vtap.o provides the hooks)
            obj = exe + ".o"
            rc, out = sh(CXX + list(extra_flags) + ["-include", os.path.join(HARN, "vshim.hpp"), "-c", src, "-o", obj], timeout=600)
            if rc != 0:
                return None, out
            cmd = ["g++", obj] + objs + ["-o", exe + ".tmp", "-pthread"]
            rc, out = sh(cmd, timeout=600)
            try:
                os.remove(obj)
            except OSError:
                pass
        else:
            cmd = CXX + list(extra_flags) + ["-include", os.path.join(HARN, "vshim.hpp"), src] + objs + ["-o", exe + ".tmp"]
            rc, out = sh(cmd, timeout=600)
        if rc != 0:
            return None, out
        os.rename(exe + ".tmp", exe)
        # drop stale builds of this client
        for f in os.listdir(d):
            if f.startswith(name + "-") and not f.endswith(tag or key) and f != os.path.basename(exe):
                if tag == "" and re.match(r"^%s-[0-9a-f]{16}$" % re.escape(name), f):
                    try:
                        os.remove(os.path.join(d, f))
                    except OSError:
                        pass
    return exe, ""


def run_client(exe, args, total, timeout=600):
    """run the client, restarting after a deadlock/step-limit exit; returns the concatenated output"""
    out_all = []
    first = 0
    guard = 0
    while first < total and guard < 50:
        guard += 1
        try:
            p = subprocess.run([exe] + args + ["--first", str(first)], stdout=subprocess.PIPE, stderr=subprocess.PIPE,
                               text=True, timeout=timeout)
            out, err, rc = p.stdout, p.stderr, p.returncode
        except subprocess.TimeoutExpired as e:
            out = (e.stdout or b"").decode() if isinstance(e.stdout, bytes) else (e.stdout or "")
            err, rc = "timeout", -9
        n = out.count("\nEND ") + (1 if out.startswith("END ") else 0)
        out_all.append(out)
        if rc != 0:
            # crash / sanitizer abort / timeout: record it as a pseudo-run
            tail = err.strip().split("\n")[-15:]
            out_all.append("CRASH rc=%d first=%d done=%d\n%s\n" % (rc, first, n, "\n".join("CRASHLOG " + t for t in tail)))
            # the run that crashed is the one after the last END; skip it
            first += n + 1
            continue
        if n == 0:
            break
        first += n
        last_end = out.rstrip().split("\n")[-1]
        if "status=ok" in last_end and first >= total:
            break
        if "status=ok" in last_end:
            # finished early without abnormal exit
            break
    return "".join(out_all)


def parse_runs(text):
    """split client output into runs: dict(header, seed, strat, script, trace[list], fails, status, decisions)"""
    runs = []
    cur = None
    crash = None
    last_start = None
    for l in text.split("\n"):
        if l.startswith("START "):
            m = re.match(r"START seed=(\d+) strat=(\d+) script=(.*)", l)
            if m:
                last_start = (int(m.group(1)), int(m.group(2)), m.group(3))
            continue
        if l.startswith("RUN "):
            m = re.match(r"RUN seed=(\d+) strat=(\d+) script=(.*)", l)
            cur = dict(seed=int(m.group(1)), strat=int(m.group(2)), script=m.group(3), trace=[], fails=[], status="incomplete",
                       decisions="", crashlog=[])
            runs.append(cur)
        elif l.startswith("END "):
            m = re.match(r"END status=(\S+) steps=(\d+) decisions=(.*)", l)
            if cur is not None and m:
                cur["status"] = m.group(1)
                cur["decisions"] = m.group(3)
            cur = None
        elif l.startswith("FAIL "):
            if cur is not None:
                cur["fails"].append(l[5:])
        elif l.startswith("ALTS "):
            # strategy 4 (checks/dfs.py): alternatives per decision position; not part of the trace
            if cur is not None:
                cur["alts"] = l[5:]
        elif l.startswith("CRASH "):
            # attach to the incomplete run if there is one, else create a pseudo run
            if runs and runs[-1]["status"] == "incomplete":
                crash = runs[-1]
            else:
                ls = last_start or (0, 0, "?")
                crash = dict(seed=ls[0], strat=ls[1], script=ls[2], trace=[], fails=[], status="incomplete", decisions="", crashlog=[])
                runs.append(crash)
            crash["status"] = "crash"
            crash["crashlog"].append(l)
        elif l.startswith("CRASHLOG "):
            if crash is not None:
                crash["crashlog"].append(l[9:])
        elif l.strip() and cur is not None:
            cur["trace"].append(l)
    return runs


def drive(comp, text):
    """pipe client output through the Lean driver; returns (verdicts[list of str], summary dict)"""
    text = "\n".join(l for l in text.split("\n") if not l.startswith(("START ", "CRASH ", "CRASHLOG ", "ALTS ")))
    p = subprocess.run([DRIVER, comp], input=text, stdout=subprocess.PIPE, stderr=subprocess.STDOUT, text=True, timeout=1200)
    verdicts = []
    summary = {}
    for l in p.stdout.split("\n"):
        if l.startswith("ACCEPT") or l.startswith("REJECT"):
            verdicts.append(l)
        elif l.startswith("SUMMARY"):
            for kv in l.split()[1:]:
                k, v = kv.split("=", 1)
                summary[k] = v
        elif l.startswith("MISSING"):
            summary["missing"] = l.split()[1:]
        elif l.startswith("EXTRA"):
            summary["extra"] = l.split()[1:]
    return verdicts, summary


# ---------------------------------------------------------------------------------------------
# property table (filled by checks/*.py)
# ---------------------------------------------------------------------------------------------
PROPS = {}
COMPONENTS = {}


def load_tables():
    import registry  # noqa: F401  (checks/registry.py fills PROPS and COMPONENTS)
    registry.register(PROPS, COMPONENTS)


def known_findings():
    p = os.path.join(VERIF, "known_findings.json")
    if os.path.exists(p):
        return json.load(open(p))
    return {"findings": [], "fixed": []}


def write_replay(prop, payload):
    os.makedirs(REPLAYS, exist_ok=True)
    blob = json.dumps(payload, indent=1, sort_keys=True)
    h = hashlib.sha256(blob.encode()).hexdigest()[:12]
    path = os.path.join(REPLAYS, "%s-%s.json" % (prop, h))
    open(path, "w").write(blob)
    return path


# ---------------------------------------------------------------------------------------------
# source-line coverage of the modelled headers under the harness (part of the tie: a line of the
# header that no script executes is code the trace-acceptance check has never compared with the model)
# ---------------------------------------------------------------------------------------------

def coverage_check(cname, c, seed):
    """returns (summary dict or None, list of 'file:line: text' never executed and not allow-listed)"""
    hdrs = c.get("cov_headers")
    if not hdrs:
        return None, []
    import shutil
    src = os.path.join(HARN, "clients", c["client"] + ".cpp")
    deps = [src] + [os.path.join(HARN, f) for f in sorted(os.listdir(HARN)) if f.endswith((".hpp", ".cpp"))]
    key = tree_hash(deps) + "-s%d" % seed
    d = os.path.join(CACHE, "cov", cname)
    res_file = os.path.join(d, "result.json")
    with Lock("cov-" + cname):
        if os.path.exists(res_file):
            try:
                r = json.load(open(res_file))
                if r.get("key") == key:
                    return r["summary"], r["missing"]
            except ValueError:
                pass
        shutil.rmtree(d, ignore_errors=True)
        os.makedirs(d)
        tap = c.get("tap", False)
        rt = os.path.join(d, "vrt.o")
        rc, out = sh(["g++", "-std=c++17", "-O1", "-g", "-c", os.path.join(HARN, "vrt.cpp"), "-o", rt])
        if rc != 0:
            return dict(error=out[-1500:]), ["coverage build failed (vrt)"]
        objs = [rt]
        flags = ["-O0", "--coverage"] + list(c.get("flags", ()))
        if tap:
            tp = os.path.join(d, "vtap.o")
            rc, out = sh(["g++", "-std=c++17", "-O1", "-g", "-c", os.path.join(HARN, "vtap.cpp"), "-o", tp])
            if rc != 0:
                return dict(error=out[-1500:]), ["coverage build failed (vtap)"]
            objs.append(tp)
            flags.append("-fsanitize=thread")
        obj = os.path.join(d, "c.o")
        exe = os.path.join(d, "c")
        cxx = [x for x in CXX if x != "-O1"]
        rc, out = sh(cxx + flags + ["-include", os.path.join(HARN, "vshim.hpp"), "-c", src, "-o", obj], timeout=900)
        if rc != 0:
            return dict(error=out[-1500:]), ["coverage build failed:\n" + out[-1500:]]
        rc, out = sh(["g++", obj] + objs + ["-o", exe, "-pthread", "--coverage"], timeout=600)
        if rc != 0:
            return dict(error=out[-1500:]), ["coverage link failed:\n" + out[-1500:]]
        ndirected = int(subprocess.run([exe, "--count-directed"], stdout=subprocess.PIPE, text=True).stdout.strip() or "0")
        nd = c.get("directed_runs", 4)
        run_client(exe, ["--directed", "--runs", str(nd), "--seed", str(seed)], ndirected * nd)
        nr = c.get("cov_runs", 200)
        run_client(exe, ["--runs", str(nr), "--seed", str(seed * 131), "--size", "1"], nr)
        run_client(exe, ["--runs", str(nr // 2), "--seed", str(seed * 131 + 7), "--size", "2"], nr // 2)
        sh(["gcov", "-p", "-o", d, obj], cwd=d, timeout=600)
        allow = [re.compile(a) for a in c.get("cov_allow", [])]
        missing = []
        total = 0
        hit = 0
        inst_total = 0
        inst_miss = 0
        for h in hdrs:
            want = os.path.join(REPO, h).replace("/", "#") + ".gcov"
            path = os.path.join(d, want)
            if not os.path.exists(path):
                missing.append("%s: no coverage data (header not compiled into the client?)" % h)
                continue
            # gcov prints, for a line of a template, first the count summed over all instantiations and then one block
            # per instantiation (between lines of dashes, headed by the instantiation's name).  A source line counts as
            # executed when SOME instantiation executed it (the summed count); the per-instantiation blocks are only
            # tallied for the evidence (inst_lines / inst_lines_unexecuted).
            in_inst = False
            after_dash = False
            for l in open(path, errors="replace"):
                if l.startswith("------------------"):
                    after_dash = True
                    continue
                parts = l.split(":", 2)
                regular = len(parts) >= 3 and re.match(r"^\s*([-#=]+|\d+\*?)$", parts[0]) is not None
                if after_dash:
                    in_inst = not regular
                    after_dash = False
                if not regular:
                    continue
                cnt, ln, text = parts[0].strip(), parts[1].strip(), parts[2].rstrip("\n")
                if cnt == "-" or ln == "0":
                    continue
                if in_inst:
                    inst_total += 1
                    if cnt in ("#####", "=====") or cnt.rstrip("*") == "0":
                        inst_miss += 1
                    continue
                total += 1
                if cnt == "=====" and text.strip() in ("}", "};"):
                    continue    # compiler-generated unwinding clean-up at a closing brace (e.g. bad_alloc paths)
                if cnt in ("#####", "=====") or cnt.rstrip("*") == "0":
                    if any(a.search(text) for a in allow):
                        continue
                    missing.append("%s:%s: %s" % (h, ln, text.strip()))
                else:
                    hit += 1
        # member functions the client never instantiates have no code for gcov to count: ask clang's typed AST
        import instcov
        iflags = [x for x in cxx[1:] if x not in ("-g", "-pthread", "-std=c++17")] + list(c.get("flags", ())) + [
            "-include", os.path.join(HARN, "vshim.hpp")]
        nmem, imiss = instcov.inst_coverage(src, hdrs, iflags, allow=c.get("inst_allow", ()))
        missing += imiss
        summary = dict(headers=hdrs, lines_instrumented=total, lines_executed=hit, lines_missing=len(missing) - len(imiss),
                       member_functions=nmem, members_never_instantiated=len(imiss),
                       inst_lines=inst_total, inst_lines_unexecuted=inst_miss,
                       runs=ndirected * nd + nr + nr // 2)
        json.dump(dict(key=key, summary=summary, missing=missing), open(res_file, "w"))
        for f in os.listdir(d):
            if f.endswith((".gcov", ".gcda", ".gcno", ".o")) or f == "c":
                try:
                    os.remove(os.path.join(d, f))
                except OSError:
                    pass
        return summary, missing


def explore(prop, tier, seed, comp_names, t0, dfs=False, scale=1.0):
    """run the harness for each component of the property; returns (stats, problems)
    problems: list of dict(kind, component, detail, run) where kind in
      'build' | 'reject' | 'monitor' | 'oracle' | 'coverage' | 'crash'
    dfs: additionally enumerate the schedules of every directed script systematically (checks/dfs.py)"""
    stats = {"components": {}}
    problems = []
    for cname in comp_names:
        c = COMPONENTS[cname]
        exe, out = build_client(c["client"], tuple(c.get("flags", ())), tap=c.get("tap", False))
        if exe is None:
            problems.append(dict(kind="build", component=cname, detail=out[-3000:], run=None))
            continue
        nrand = c["quick_runs"] if tier == "quick" else c["thorough_runs"]
        ncomp = max(1, len(comp_names))
        if tier == "thorough":
            # keep a thorough check within ~10 minutes: properties decided by many components split the budget, and the
            # additional seeds (scale < 1) run a fraction of the first seed's count
            nrand = max(c["quick_runs"], int(nrand * scale / (1 if ncomp <= 2 else ncomp / 2.0)))
        nd = c.get("directed_runs", 4) if tier == "quick" else c.get("directed_runs", 4) * 4
        size = 1 if tier == "quick" else 2
        texts = []
        # directed scripts (path forcing) first
        ndirected = int(subprocess.run([exe, "--count-directed"], stdout=subprocess.PIPE, text=True).stdout.strip() or "0")
        if dfs and tier == "thorough" and os.environ.get("VERIF_DFS_ONLY") == "1":
            nd = nrand = 0    # self-test of the systematic search: no sampled schedules at all
        texts.append(run_client(exe, ["--directed", "--runs", str(nd), "--seed", str(seed)], ndirected * nd))
        # scripts that need a FRESH PROCESS (static state of the library untouched before the run): one process per run
        for fs in c.get("fresh_scripts", []):
            for k in range(c.get("fresh_runs", 8) * (1 if tier == "quick" else 4)):
                texts.append(run_client(exe, ["--script", fs, "--fresh", "--runs", "1", "--seed", str(seed * 100 + k)], 1,
                                        timeout=60))
        # random scripts / schedules, split over processes
        nproc = max(1, min(NCPU, nrand // 100))
        per = (nrand + nproc - 1) // nproc
        procs = []
        from concurrent.futures import ThreadPoolExecutor
        with ThreadPoolExecutor(max_workers=nproc) as ex:
            futs = [ex.submit(run_client, exe, ["--runs", str(per), "--seed", str(seed * 131 + k), "--size", str(size)], per)
                    for k in range(nproc)]
            for f in futs:
                texts.append(f.result())
        text = "".join(texts)
        runs = parse_runs(text)
        verdicts, summary = drive(c["driver"], text)
        done = [r for r in runs if r["status"] != "crash" and r["status"] != "incomplete"]
        cs = dict(runs=len(runs), events=int(summary.get("events", 0)), accepted=int(summary.get("accepted", 0)),
                  rejected=int(summary.get("rejected", 0)), edges_total=int(summary.get("edges_total", 0)),
                  edges_covered=int(summary.get("edges_covered", 0)), missing=summary.get("missing", []),
                  distinct_scripts=len(set(r["script"] for r in runs)),
                  distinct_traces=len(set("\n".join(r["trace"]) for r in runs)),
                  threads_max=max([len(r["script"].split(";")) - 1 for r in runs] or [0]),
                  deadlocks=sum(1 for r in runs if r["status"].startswith("deadlock")),
                  steplimits=sum(1 for r in runs if r["status"] == "steplimit"),
                  sample=(done[0]["script"], done[0]["trace"][:40]) if done else None)
        stats["components"][cname] = cs
        if len(verdicts) != len(done):
            problems.append(dict(kind="reject", component=cname,
                                 detail="driver produced %d verdicts for %d runs" % (len(verdicts), len(done)), run=None))
        for r, v in zip(done, verdicts):
            r["verdict"] = v
        oracle = c.get("oracle")
        for r in runs:
            if r["status"] == "crash" or r["status"] == "incomplete":
                problems.append(dict(kind="crash", component=cname, detail="\n".join(r["crashlog"])[-2000:] or r["status"], run=r))
                continue
            if r["status"].startswith("deadlock") or r["status"] == "steplimit":
                problems.append(dict(kind="monitor", component=cname, detail=r["status"], run=r))
            for f in r["fails"]:
                problems.append(dict(kind="monitor", component=cname, detail=f, run=r))
            if oracle is not None:
                why = oracle(r)
                if why:
                    problems.append(dict(kind="oracle", component=cname, detail=why, run=r))
            if r.get("verdict", "").startswith("REJECT"):
                problems.append(dict(kind="reject", component=cname, detail=r["verdict"].split("||")[0].strip(), run=r))
        if summary.get("missing"):
            problems.append(dict(kind="coverage", component=cname, detail="model edges never exercised: " + " ".join(summary["missing"]),
                                 run=None))
        if dfs and tier == "thorough":
            import dfs as dfs_mod
            if dfs_mod.ENABLED:
                # time budget: per component, and about 5 minutes for all components of the property together (every
                # component keeps at least 20 s)
                later = len(comp_names) - comp_names.index(cname) - 1
                used = sum(v["dfs"]["wall_s"] for v in stats["components"].values() if v.get("dfs"))
                tb = max(20.0, min(dfs_mod.TIME, dfs_mod.TOTAL - used - 20.0 * later))
                ds, dp = dfs_mod.explore_component(cname, c, exe, seed, DRIVER, parse_runs, ncpu=NCPU, time_budget=tb)
                cs["dfs"] = ds
                for k in ("runs", "events", "accepted", "rejected", "deadlocks", "steplimits"):
                    cs[k] += ds[k]
                problems += dp
        csum, cmiss = coverage_check(cname, c, seed)
        if csum is not None:
            cs["source_coverage"] = csum
        if cmiss:
            problems.append(dict(kind="coverage", component=cname,
                                 detail="header lines never executed by the harness (code the tie has not compared with the model): "
                                        + " | ".join(cmiss[:12]), run=None))
        if time.time() - t0 > 3000:
            break
    return stats, problems


def run_failures(c, r):
    """property-level failures of one parsed run (independent of the Lean verdict): list of strings"""
    out = []
    if r["status"] in ("crash", "incomplete"):
        out.append("crash")
        return out
    if r["status"].startswith("deadlock") or r["status"] == "steplimit":
        out.append(r["status"].split(":")[0])
    out += r["fails"]
    if c.get("oracle") is not None:
        why = c["oracle"](r)
        if why:
            out.append(why)
    return out


def signature(text):
    return re.sub(r"\d+", "N", text.split("\n")[0])[:80]


def shrink(c, exe, run, what, budget_s=20):
    """delta-debugging of a failing script (only for components whose every op sequence is a valid, terminating script:
    c['shrinkable']).  A candidate is kept when some schedule of it fails with the same signature.  Returns a run dict."""
    if not c.get("shrinkable") or not run or not run.get("script") or run["script"] == "?":
        return run
    sig = signature(what)
    if sig.startswith(("deadlock", "steplimit")):
        return run
    t_end = time.time() + budget_s
    best = run
    parts = run["script"].split(";")
    cfg, threads = parts[0], [[o for o in p.split(",") if o] for p in parts[1:]]

    def attempt(ths):
        ths = [t for t in ths if t]
        if not ths:
            return None
        text = run_client(exe, ["--script", ";".join([cfg] + [",".join(t) for t in ths]), "--runs", "24",
                                "--seed", str(run.get("seed") or 1)], 24, timeout=60)
        for r in parse_runs(text):
            if any(signature(f) == sig for f in run_failures(c, r)):
                return r
        return None

    changed = True
    while changed and time.time() < t_end:
        changed = False
        # drop whole threads, then halves, then single ops
        for i in range(len(threads)):
            cand = threads[:i] + threads[i + 1:]
            r = attempt(cand)
            if r:
                threads, best, changed = [t for t in cand if t], r, True
                break
        if changed:
            continue
        for i in range(len(threads)):
            n = len(threads[i])
            chunk = max(1, n // 2)
            while chunk >= 1 and not changed and time.time() < t_end:
                j = 0
                while j < len(threads[i]) and time.time() < t_end:
                    cand = [list(t) for t in threads]
                    del cand[i][j:j + chunk]
                    r = attempt(cand)
                    if r:
                        threads, best, changed = [t for t in cand if t], r, True
                        break
                    j += chunk
                chunk //= 2
            if changed:
                break
    return best


def run_check(prop, tier, seed):
    t0 = time.time()
    spec = PROPS[prop]
    violations = []   # (replay_path, found_input: bool, text)
    notes = []
    # 1. Lean build
    ok, out = lake_build()
    lean_problem = None
    if not ok:
        lean_problem = "lake build failed:\n" + out[-4000:]
    # 2. audit
    names, axioms, bad, aout = ([], {}, {}, "")
    forb = grep_forbidden()
    if ok:
        names, axioms, bad, aout = audit(prop)
        if aout and not axioms:
            lean_problem = "audit failed:\n" + aout[-3000:]
    if forb:
        lean_problem = (lean_problem or "") + "\nforbidden tokens:\n" + "\n".join(forb)
    if bad:
        lean_problem = (lean_problem or "") + "\naxiom audit:\n" + json.dumps(bad, indent=1)
    # 2b. thorough tier: independent re-check of the compiled proofs with leanchecker (one module per call)
    rechecked = []
    if ok and tier == "thorough" and not lean_problem:
        for f in spec["lean_files"]:
            mod = f[:-5].replace("/", ".")
            rc, out = sh(["lake", "env", "leanchecker", mod], cwd=LEAN, timeout=3000)
            if rc != 0:
                lean_problem = (lean_problem or "") + "\nleanchecker %s failed:\n%s" % (mod, out[-2000:])
            else:
                rechecked.append(mod)
    # 3. property-specific extra obligations (e.g. regenerated bodies)
    extra = {}
    if spec.get("pre") is not None and ok:
        extra = spec["pre"](tier, seed) or {}
        if extra.get("lean_problem"):
            lean_problem = (lean_problem or "") + "\n" + extra["lean_problem"]
    # 4. exploration
    stats, problems = ({"components": {}}, [])
    if ok:
        stats, problems = explore(prop, tier, seed, spec["components"], t0, dfs=True)
        if tier == "thorough":
            # further independent seeds (fresh random scripts and schedules); stop at the first problem
            for extra_seed in (seed + 1000, seed + 2000):
                if problems or time.time() - t0 > 420:
                    break
                s2, p2 = explore(prop, tier, extra_seed, spec["components"], t0, scale=0.34)
                problems += p2
                for cname, cs2 in s2["components"].items():
                    cs = stats["components"].setdefault(cname, cs2)
                    if cs is not cs2:
                        for k in ("runs", "events", "accepted", "rejected", "distinct_scripts", "distinct_traces", "deadlocks", "steplimits"):
                            cs[k] = cs.get(k, 0) + cs2.get(k, 0)
            stats["seeds"] = [seed, seed + 1000, seed + 2000]
    # 5. classify
    kf = known_findings()
    known_hits = []
    real = [p for p in problems if p["kind"] in ("monitor", "oracle", "crash")]
    corr = [p for p in problems if p["kind"] in ("reject", "build", "coverage")]
    reported = set()
    for p in real:
        sig = "%s|%s" % (p["component"], re.sub(r"\d+", "N", p["detail"].split("\n")[0][:120]))
        matched = None
        for f in kf.get("findings", []):
            if f["property"] == prop and re.search(f["match"], sig + "|" + (p["run"]["script"] if p["run"] else "")):
                matched = f
        if matched:
            known_hits.append(matched)
            continue
        if sig in reported:
            continue
        reported.add(sig)
        r = p["run"] or {}
        orig_script = r.get("script")
        cc = COMPONENTS.get(p["component"], {})
        if cc.get("shrinkable") and p["run"]:
            exe, _ = build_client(cc["client"], tuple(cc.get("flags", ())), tap=cc.get("tap", False))
            if exe:
                r = shrink(cc, exe, p["run"], p["detail"])
        path = write_replay(prop, dict(property=prop, kind="failing-input", component=p["component"], what=p["detail"],
                                       script=r.get("script"), seed=r.get("seed"), strategy=r.get("strat"),
                                       decisions=r.get("decisions"), trace=r.get("trace"), model_verdict=r.get("verdict"),
                                       original_script=orig_script if orig_script != r.get("script") else None,
                                       search=r.get("dfs"),   # set when the systematic search (checks/dfs.py) found the run
                                       lean_problem=lean_problem))
        violations.append((path, True, p["detail"].split("\n")[0][:200]))
        if len(violations) >= 3:
            break
    if not violations and (corr or lean_problem):
        # correspondence or proof obligation broken but no failing input among the explored runs:
        # search harder before giving up (more schedules on the components concerned)
        found = None
        if tier == "quick" and ok:
            comps = sorted(set(p["component"] for p in corr)) or spec["components"]
            s2, p2 = explore(prop, "thorough", seed + 1, comps, t0, dfs=True)
            for p in p2:
                if p["kind"] in ("monitor", "oracle", "crash"):
                    found = p
                    break
        if found:
            r = found["run"] or {}
            path = write_replay(prop, dict(property=prop, kind="failing-input", component=found["component"], what=found["detail"],
                                           script=r.get("script"), seed=r.get("seed"), strategy=r.get("strat"),
                                           decisions=r.get("decisions"), trace=r.get("trace"), model_verdict=r.get("verdict"),
                                           broken=[dict(kind=p["kind"], component=p["component"], detail=p["detail"][:500]) for p in corr[:5]],
                                           lean_problem=lean_problem))
            violations.append((path, True, found["detail"].split("\n")[0][:200]))
        else:
            first = corr[0] if corr else None
            r = (first or {}).get("run") or {}
            path = write_replay(prop, dict(property=prop, kind="no-failing-input-found",
                                           broken=[dict(kind=p["kind"], component=p["component"], detail=p["detail"][:1500]) for p in corr[:8]],
                                           lean_problem=lean_problem,
                                           theorems=names, script=r.get("script"), seed=r.get("seed"), strategy=r.get("strat"),
                                           decisions=r.get("decisions"), trace=r.get("trace")))
            violations.append((path, False, (first["detail"].split("\n")[0][:200] if first else (lean_problem or "").strip().split("\n")[0][:200])))
    # 6. evidence
    nthm = len(names) + int(extra.get("obligations", 0))
    discharged = (len([n for n in names if n not in bad and n in axioms]) + int(extra.get("discharged", 0))) if ok else 0
    total_runs = sum(c["runs"] for c in stats["components"].values())
    ev = dict(
        property_id=prop, tier=tier, seed=seed, level="proof",
        coverage=dict(
            obligations=max(nthm, 1), discharged=discharged,
            checker_cmd="cd /verif/lean && lake build && lake env lean ../.cache/Audit_%s.lean   (# print axioms of every theorem in %s)" % (
                prop, ", ".join(spec["lean_files"])),
            trusted_base=spec.get("trusted_base", []) + COMMON_TRUSTED,
            theorems=names, axioms_used=sorted(set(a for n in names for a in axioms.get(n, []))),
            extra_obligations=extra.get("detail"), leanchecker_rechecked=rechecked,
            traces_validated_against_impl=sum(c["accepted"] for c in stats["components"].values()),
            evaluations=total_runs, events=sum(c["events"] for c in stats["components"].values()),
            distinct_nontrivial=sum(c["distinct_traces"] for c in stats["components"].values()),
            rule="one evaluation = one script run under one schedule of the deterministic scheduler against the real headers; "
                 "distinct = distinct primitive-level traces; every trace is replayed through the Lean model's step function",
            components=stats["components"],
            samples=[dict(component=k, script=v["sample"][0], trace_head=v["sample"][1]) for k, v in stats["components"].items() if v.get("sample")]
            or [dict(theorem=n) for n in names[:3]],
            seeds=stats.get("seeds", [seed]),
            model_stage=spec.get("stage", "A"),
            partial_clauses=spec.get("partial", []),
        ),
        assumptions=spec.get("assumptions", []),
        wall_s=round(time.time() - t0, 2),
        violations=len(violations),
        known_findings=[f["id"] for f in known_hits],
    )
    dfs_cov = {k: {f: v["dfs"][f] for f in ("scripts", "runs", "exhausted_scripts", "truncated_scripts", "preemption_bound",
                                              "weak_event_bound", "run_budget_per_script", "time_budget_s", "time_budget_hit",
                                              "min_complete_level", "wall_s")}
               for k, v in stats["components"].items() if v.get("dfs")}
    if dfs_cov:
        # systematic exploration of the directed scripts (checks/dfs.py); part of the failing-input search, never of the claim
        ev["coverage"]["dfs"] = dfs_cov
        every = all(k in dfs_cov and dfs_cov[k]["scripts"] > 0 and dfs_cov[k]["exhausted_scripts"] == dfs_cov[k]["scripts"]
                    for k in spec["components"])
        if every:
            ev["coverage"]["exhaustive"] = True
        b = next(iter(dfs_cov.values()))
        ev["coverage"]["rule"] += (
            "; dfs = additionally every directed script's schedules are enumerated systematically (stateless depth-first search "
            "over the scheduler's decisions: thread choice, time-out / spurious wake-up, try/CAS/notify choices) within the "
            "bounds <= %d preemptions and <= %d weak events (time-out with other work available, spurious or late wake-up, "
            "spurious CAS failure) per run, a thread that has just yielded not being rescheduled while another can run, at most "
            "%d runs per script; a script is 'exhausted' when its whole search space within these bounds was run; "
            "exhaustive is set only when every directed script of every component of the property was exhausted%s" % (
                b["preemption_bound"], b["weak_event_bound"], b["run_budget_per_script"],
                " (it was)" if every else " (it was not: see dfs.*.truncated_scripts)"))
    os.makedirs(EVID, exist_ok=True)
    json.dump(ev, open(os.path.join(EVID, prop + ".json"), "w"), indent=1)
    seen = set()
    for f in known_hits:
        if f["id"] not in seen:
            seen.add(f["id"])
            print("KNOWN-FINDING: property=%s %s" % (prop, f["what"]))
    for path, found, text in violations:
        log("  " + text)
        print("VIOLATION property=%s replay=%s%s" % (prop, path, "" if found else " no-failing-input-found"))
    if not violations:
        print("OK property=%s tier=%s theorems=%d runs=%d events=%d wall=%.1fs" % (
            prop, tier, len(names), total_runs, ev["coverage"]["events"], time.time() - t0))
    return 1 if violations else 0


COMMON_TRUSTED = [
    "Lean 4.33 kernel; axioms limited to propext, Classical.choice, Quot.sound (audited by #print axioms on every run)",
    "harness/vshim.hpp + vrt.cpp: substituted std::atomic/mutex/condition_variable implement the primitive semantics the model assumes",
    "Driver/*.lean trace parser (unverified glue); per-thread determinism argument of DESIGN §1",
    "the model is a model of the header, validated by trace acceptance; the C++ is not given a semantics in Lean",
]


def do_replay(prop, path):
    rp = json.load(open(path))
    if rp.get("kind") == "no-failing-input-found" and not rp.get("script"):
        print("replay names broken obligations only:", json.dumps(rp.get("broken"), indent=1)[:2000])
        return run_check(prop, "quick", 1)
    comp = rp["component"] if "component" in rp else PROPS[prop]["components"][0]
    c = COMPONENTS[comp]
    exe, out = build_client(c["client"], tuple(c.get("flags", ())), tap=c.get("tap", False))
    if exe is None:
        print("VIOLATION property=%s replay=%s no-failing-input-found" % (prop, path))
        return 1
    args = ["--script", rp["script"], "--seed", str(rp.get("seed") or 1)]
    if rp["script"] in c.get("fresh_scripts", []):
        args.append("--fresh")      # found by a fresh-process run: the library's static state must be untouched
    if rp.get("decisions"):
        args += ["--replay", rp["decisions"]]
    text = run_client(exe, args + ["--runs", "1"], 1)
    runs = parse_runs(text)
    verdicts, summary = drive(c["driver"], text)
    bad = False
    for r in runs:
        print("\n".join(r["trace"]))
        print("status:", r["status"], "fails:", r["fails"])
        if "replay-divergence" in " ".join(r["fails"]):
            print("note: the recorded schedule no longer fits this tree (different code); divergent points fell back to the first enabled thread")
        if r["status"] != "ok" or [f for f in r["fails"] if "replay-divergence" not in f]:
            bad = True
        if c.get("oracle") and c["oracle"](r):
            print("oracle:", c["oracle"](r))
            bad = True
    for v in verdicts:
        print(v)
        if v.startswith("REJECT"):
            bad = True
    if bad:
        print("VIOLATION property=%s replay=%s" % (prop, path))
        return 1
    print("replay did not reproduce")
    return 0


def setup():
    ok, out = lake_build()
    if not ok:
        print(out[-5000:])
        return 1
    load_tables()
    for cname, c in COMPONENTS.items():
        exe, out = build_client(c["client"], tuple(c.get("flags", ())), tap=c.get("tap", False))
        if exe is None:
            print("client %s failed to build:\n%s" % (cname, out[-3000:]))
    print("setup ok")
    return 0


def main():
    args = sys.argv[1:]
    if not args:
        print(__doc__)
        return 2
    if args[0] == "--setup":
        return setup()
    load_tables()
    prop = args[0]
    if prop not in PROPS:
        print("unknown property", prop)
        return 2
    tier = os.environ.get("VERIF_TIER", "quick")
    replay = None
    i = 1
    while i < len(args):
        if args[i] == "--tier":
            tier = args[i + 1]
            i += 2
        elif args[i] == "--replay":
            replay = args[i + 1]
            i += 2
        else:
            i += 1
    seed = int(os.environ.get("VERIF_SEED", "1"))
    if replay:
        return do_replay(prop, replay)
    return run_check(prop, tier, seed)


if __name__ == "__main__":
    sys.exit(main())
