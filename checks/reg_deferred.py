"""deferred_guarded (gmlc/libguarded/deferred_guarded.hpp): component entry, trace-level oracle, property entry C06 and the
deferred parts of C02 / C20 (merged through PARTS, see registry.py)."""


def events(run):
    for l in run["trace"]:
        t = l.split()
        yield int(t[0]), t[1:]


def _inner(name):
    return len(name) > 1 and name[0] == "m" and name[1:].isdigit()


def oracle_deferred(run):
    """C06 / C02 / C20 stated on the raw trace, independently of the Lean model's pcs.

    C06  once:       every `ucb k` belongs to a submitted task and happens at most once; by the end of a completed run (all
                     threads done, then one lock_shared by the main thread) exactly once;
         exclusive:  `ucb k` … `uce k`/`uth k` and every `pwr` happen while the executing thread holds `m` exclusively
                     (mtl m 1 … mul m) and nobody holds it shared;
         order:      ret(a) before call(b) in the trace (includes same-thread order)  =>  b applied implies a applied earlier;
         value:      every read returns the last written value; the final value is the fold of v -> 3v+k over the tasks in the
                     order of application (tasks that threw before writing excluded);
         futures:    a poll says ready iff the task's function has ended; get() yields what the function returned / threw.
    C02:             reads of the object only under the lock (shared or exclusive); shared and exclusive holders never coexist.
    C20:             when a call returns or throws to the client the thread holds neither `m` exclusively, nor the queue mutex,
                     nor a task-wrapper mutex; a throw on the direct path of modify_detach reaches the caller, everywhere else
                     it is captured."""
    excl = None
    shared = set()
    qm = None
    inner = {}
    val = 0
    count = {}
    applied = []
    running = {}     # tid -> [k, reads, writes]
    called = {}      # k -> dict(idx, tid, kind, mode)
    returned = {}    # k -> idx
    result = {}      # k -> ("val", r) | ("exc",)
    direct = {}
    lastread = {}
    final = None
    idx = -1
    for tid, t in events(run):
        idx += 1
        k0 = t[0]
        if k0 == "mtl" and t[1] == "m":
            if t[2] == "1":
                if excl is not None or shared:
                    return "m granted exclusively to %d while held (excl=%s shared=%s)" % (tid, excl, sorted(shared))
                excl = tid
        elif k0 == "mul" and t[1] == "m":
            if excl != tid:
                return "thread %d unlocked m without holding it" % tid
            if tid in running:
                return "thread %d released m inside the function of task %d" % (tid, running[tid][0])
            excl = None
        elif k0 in ("slk", "stl", "stf") and t[1] == "m":
            if k0 == "slk" or t[2] == "1":
                if excl is not None:
                    return "m granted shared to %d while %d holds it exclusively" % (tid, excl)
                shared.add(tid)
        elif k0 == "sul" and t[1] == "m":
            if tid not in shared:
                return "thread %d released a shared lock it does not hold" % tid
            shared.discard(tid)
        elif k0 in ("mtl", "mtf") and t[1] == "qm":
            # a try / timed acquisition of the queue mutex (not in today's code, but legal): track the holder as for mlk
            if t[2] == "1":
                if qm is not None:
                    return "queue mutex granted twice"
                qm = tid
        elif k0 == "mlk" and t[1] == "qm":
            if qm is not None:
                return "queue mutex granted twice"
            qm = tid
        elif k0 == "mul" and t[1] == "qm":
            if qm != tid:
                return "queue mutex released by a non-holder"
            qm = None
        elif k0 == "mlk" and _inner(t[1]):
            inner.setdefault(tid, set()).add(t[1])
        elif k0 == "mul" and _inner(t[1]):
            inner.setdefault(tid, set()).discard(t[1])
        elif k0 == "call" and t[1] in ("md", "ma", "mv"):
            k = int(t[2])
            if k not in called:
                called[k] = dict(idx=idx, tid=tid, kind=t[1], mode=int(t[3]))
        elif k0 in ("ret", "exc", "got"):
            if excl == tid:
                return "thread %d returned to the client holding m exclusively" % tid
            if qm == tid:
                return "thread %d returned to the client holding the queue mutex" % tid
            if inner.get(tid):
                return "thread %d returned to the client holding a task mutex" % tid
            if k0 == "got":
                if (t[1] == "1") != (tid in shared):
                    return "handle is %s but the shared lock is %s" % ("non-null" if t[1] == "1" else "null",
                                                                      "held" if tid in shared else "not held")
            elif t[1] in ("md", "ma", "mv"):
                k = int(t[2])
                returned[k] = idx
                threw_direct = direct.get(k) and result.get(k) == ("exc",)
                if k0 == "exc" and not (t[1] == "md" and threw_direct):
                    return "%s of task %d threw to the caller although its function did not throw on the direct path" % (t[1], k)
                if k0 == "ret" and t[1] == "md" and threw_direct:
                    return "modify_detach of task %d swallowed the exception of its function (direct path)" % k
            elif t[1] == "ld":
                if tid in shared:
                    return "load returned holding the shared lock"
                if k0 == "ret" and len(t) > 2 and int(t[2]) != lastread.get(tid):
                    return "load returned %s, the value it read under the lock is %s" % (t[2], lastread.get(tid))
        elif k0 == "ucb":
            k = int(t[1])
            if k not in called:
                return "function of task %d ran although it was never submitted" % k
            count[k] = count.get(k, 0) + 1
            if count[k] > 1:
                return "task %d executed %d times" % (k, count[k])
            if excl != tid or shared:
                return "task %d applied by thread %d without exclusive access (excl=%s shared=%s)" % (k, tid, excl, sorted(shared))
            if tid in running:
                return "task %d entered inside the function of task %d" % (k, running[tid][0])
            running[tid] = [k, [], []]
            applied.append(k)
            if called[k]["tid"] == tid and k not in returned:
                direct[k] = True
        elif k0 == "prd":
            v = int(t[2])
            if tid not in shared and excl != tid:
                return "thread %d read the object without holding m" % tid
            if v != val:
                return "thread %d read %d, last written value is %d" % (tid, v, val)
            if tid in running:
                running[tid][1].append(v)
            else:
                # C15: a reader (load / shared handle) sees the register after a prefix of the applied modifications: nobody is
                # inside a task and the value is the fold of the completed ones (never a value that did not exist)
                if running:
                    return "thread %d read the object while task %d is being applied" % (tid, list(running.values())[0][0])
                x = 0
                for a in applied:
                    if called[a]["mode"] != 1:
                        x = 3 * x + a
                if v != x:
                    return "thread %d read %d, the applied tasks %s give %d (a value the object never had)" % (tid, v, applied, x)
                lastread[tid] = v
        elif k0 == "pwr":
            v = int(t[2])
            if excl != tid or shared or tid not in running:
                return "thread %d wrote the object without exclusive access inside a task" % tid
            val = v
            running[tid][2].append(v)
        elif k0 in ("uce", "uth"):
            k = int(t[1])
            if tid in running and running[tid][0] == k:
                if excl != tid or shared:
                    return "task %d finished without exclusive access" % k
                _, rd, wr = running.pop(tid)
                if k0 == "uce":
                    r = int(t[2])
                    if len(rd) != 1 or wr != [3 * rd[0] + k]:
                        return "task %d: read %s wrote %s" % (k, rd, wr)
                    if called[k]["kind"] != "mv" and r != wr[0]:
                        return "task %d returned %d after writing %d" % (k, r, wr[0])
                    result[k] = ("val", r)
                else:
                    result[k] = ("exc",)
            elif k0 == "uce":
                return "uce of task %d outside its function" % k
        elif k0 == "fpoll":
            k = int(t[1])
            if (t[2] == "1") != (k in result):
                return "future of task %d polled %s but its function has %s" % (
                    k, "ready" if t[2] == "1" else "not ready", "ended" if k in result else "not ended")
        elif k0 == "fget":
            k = int(t[1])
            got = ("exc",) if t[2] == "exc" else ("val", int(t[2]))
            if result.get(k) != got:
                return "future of task %d delivered %s, its function produced %s" % (k, got, result.get(k))
        elif k0 == "final":
            final = (int(t[1]), int(t[2]))
    # order: ret(a) < call(b) and b applied  =>  a applied before b
    pos = {k: i for i, k in enumerate(applied)}
    for b in applied:
        cb = called[b]["idx"]
        for a, ra in returned.items():
            if ra < cb and (a not in pos or pos[a] > pos[b]):
                return "task %d (returned before task %d was submitted) %s" % (
                    a, b, "was not applied although %d was" % b if a not in pos else "was applied after it")
    if run["status"] == "ok":
        for k in called:
            if count.get(k, 0) != 1:
                return "task %d executed %d times by the end (after quiescence + one lock_shared)" % (k, count.get(k, 0))
        if final is not None:
            if final[0] != final[1]:
                return "final value torn: %d/%d" % final
            x = 0
            for k in applied:
                if called[k]["mode"] != 1:
                    x = 3 * x + k
            if final[0] != x or val != x:
                return "final value %d, fold of the applied tasks %s gives %d" % (final[0], applied, x)
    return None


DF_TRUST = ["Model/Deferred.lean is a hand-written model of deferred_guarded.hpp (modify_detach, modify_async, lock_shared, "
            "try_lock_shared, try_lock_shared_for/until, load, do_pending_writes, do_pending_writes_internal) for a shared-capable "
            "mutex type; stage A: the exact sequence of primitive operations of today's code",
            "std::packaged_task / std::promise / std::future and std::vector are real library code and are not modelled: the "
            "queue content is inferred from the qm lock brackets (push / swap) and confirmed by the order in which the task "
            "functions are entered; that a future becomes ready with the function's result is observed by the client (fpoll / "
            "fget events, which the model checks against its own record)",
            "locks of the per-task guarded<packaged_task> wrappers are checked by the driver only for per-thread bracketing",
            "harness/clients/deferred.cpp: task functors emit ucb / uce / uth; harness/vpayload.hpp: traced two-word payload"]
DF_ASSUME = ["std::shared_timed_mutex / std::shared_mutex behave as the acquire/release semantics of the model (shared try / timed "
             "forms may fail spuriously or time out at any moment)",
             "exclusive try_lock does not fail spuriously on a free mutex — needed ONLY by C06_no_stranding_next; the model has the "
             "parameter `spur`, every other theorem holds for both values, and C06_no_stranding_needs_no_spurious_failure exhibits an "
             "accepted trace with a stranded task when it is dropped (true of glibc and of the harness)",
             "client obligations: a thread that holds a shared handle calls nothing on the wrapper until it has released it; task "
             "functions terminate and do not call back into the wrapper; task ids name distinct submissions",
             "seq_cst atomics are interleaved cells (C07 carries the memory-model half)"]
DF_TIE = (" The model is tied to the source on every run: the unmodified header runs against substituted std primitives under a "
          "deterministic scheduler (direct path, queued path forced by parked readers and by writers parked inside their function, "
          "drains by later modifies / lock_shared / try_lock_shared* / load, throwing functors on every path, futures awaited by "
          "polling); every primitive-level trace must be accepted by the model's step function with all model edges covered.")


def register(PROPS, COMPONENTS):
    COMPONENTS["deferred"] = dict(client="deferred", driver="deferred", directed_runs=8, quick_runs=1500, thorough_runs=40000,
                                  oracle=oracle_deferred, cov_headers=["gmlc/libguarded/deferred_guarded.hpp"],
                                  # task_runner is an abstract base: its deleting / complete-object destructor variants are never
                                  # called (objects die through ~void_runner / ~type_runner, which call the base-object variant:
                                  # that one is executed), so gcov shows one never-executed instance of this line
                                  cov_allow=[r"virtual ~task_runner\(\) \{\}"],
                                  # pure virtual (no body to instantiate); called through the vtable, the two overriders
                                  # void_runner::run_task / type_runner::run_task are instantiated and executed
                                  inst_allow=[r"^task_runner::run_task$"])
    PROPS["C06"] = dict(
        lean_files=["ConcVerif/Props/C06.lean"], components=["deferred"], stage="A",
        level_text="Lean 4 theorems (kernel-checked; unbounded threads, tasks, client programs and interleavings; with and without "
                   "spurious try_lock failures unless stated) over an executable model of deferred_guarded.hpp at the level of its "
                   "shared mutex, atomic flag, queue mutex and user-function invocations: the list of applied tasks has no duplicates "
                   "and contains only submitted tasks, conservation (every submitted task is in exactly one of: its submitter's "
                   "hands during the call, the queue, the draining thread's batch, applied); every entry into a task's function, "
                   "every step inside it and every write of the object is made by the exclusive holder of the mutex while nobody "
                   "holds it shared; if a's call returned before b's call began (real time, which includes same-thread program "
                   "order) then b applied implies a applied earlier (state form with a ghost snapshot and trace form with explicit "
                   "ret / call positions); no stranding: whenever no submitter is between push and flag-store and no drainer between "
                   "flag-clear and swap a non-empty queue implies the flag is up, at quiescence every submitted task is applied or "
                   "queued, and — assuming no spurious try_lock failure — any call sequence of one thread started at a quiescent, "
                   "handle-free state has emptied queue and batch and applied every earlier task whenever it holds the shared lock or "
                   "enters its own function, with all outcomes recorded; futures: an outcome is recorded once, never overwritten, "
                   "by the step that ends that task's function under the exclusive lock, with its result or exception, and the client's "
                   "poll / get events must agree with it. Liveness without any fairness assumption (Proof/DeferredLive.lean, shared-potential "
                   "form of Base/Live.lean; environment events = the calls, the accesses to the wrapped object by task bodies / load / "
                   "handle holders, future polls): C06_terminates — no infinite execution with finitely many environment events (every "
                   "library step lowers 2(|batch|+|queue|) + the summed pc ranks; the drain loop runs exactly the batch it swapped out, "
                   "C06_drain_bounded); C06_progress / C06_stuck_all_returned / C06_stuck_quiescent — while a thread is inside a call "
                   "some thread inside a call has an enabled library step, so a state without one has every thread at rest, both "
                   "mutexes free and no batch." + DF_TIE,
        level_note="Trusted: Lean kernel (+propext, Classical.choice, Quot.sound), the primitive semantics of the mutexes and seq_cst "
                   "atomics, shim + scheduler + driver glue, std::future / packaged_task. The 'next call drains' clause is proved for a "
                   "thread running alone from a quiescent state (see partial).",
        trusted_base=DF_TRUST, assumptions=DF_ASSUME,
        partial=["'the next lock_shared or modify call applies all of them before granting access' is proved from a QUIESCENT state (no "
                 "call in flight, no handle held), under no-spurious-try_lock-failure: for any number of concurrent next callers in any "
                 "interleaving nobody is granted shared access or enters its own function before every earlier task is applied "
                 "(C06_no_stranding_next_concurrent), and for a caller running alone queue and batch are then empty and all outcomes "
                 "recorded (C06_no_stranding_next). With a lock_shared already IN FLIGHT when the submitters return the literal claim "
                 "is false for the code (C06_no_stranding_inflight_caveat: it loaded flag=false before the submission, is granted "
                 "without draining, and makes the try_lock of the next caller fail) — best-effort drain, the task is applied by the "
                 "next successful drain; not claimed",
                 "'executed exactly once': at-most-once and conservation are theorems for every reachable state; 'at least once' is "
                 "the no-stranding safety statement (a liveness claim would need the client to call again)",
                 "termination (C06_terminates) and deadlock-freedom (C06_progress, C06_stuck_all_returned) are proved for every "
                 "scheduler for executions with finitely many calls and object accesses; NOT proved: that one particular caller is "
                 "eventually served when others call infinitely often (unfair mutex / scheduler), e.g. a blocking lock_shared "
                 "against an endless stream of successful modify_* calls"],
    )


PARTS = {
    "C15": dict(
        lean_files=["ConcVerif/Props/C15_deferred.lean"], components=["deferred"],
        level_text_add="deferred_guarded (Model/Deferred.lean extended conservatively by a ghost log of completed applications, "
                       "same accepted traces): the value a load() — or a read through a shared handle — obtains under the shared lock is "
                       "the object's value at that moment, when nobody holds the mutex exclusively and no task function is running, i.e. "
                       "the value left by the last completed application (never a partially written one); for every cut of an accepted "
                       "trace around such a read the value is the one after a prefix of the final log that contains every application "
                       "completed before the earlier cut (e.g. the call) and only applications made before the later one (e.g. the "
                       "return) — the linearisation point lies inside the call; logs at successive reads are prefix-ordered. The trace "
                       "oracle checks every reader's value against the fold of the tasks applied so far and load's result against it.",
        trusted_base=["Proof/DeferredR.lean: stepL = the model's step plus a ghost log (proved to accept exactly the same traces); the "
                      "functions of the tasks are opaque to the model: the log records the value each one left"],
        assumptions=[],
        partial=["deferred_guarded has no whole-object store: its writes are the applications of modify_detach / modify_async tasks "
                 "(C06); the value returned by load() is the copy made under the lock — that the `ret ld v` result equals the value "
                 "read is checked on traces (python oracle), the copy itself is client/payload code"]),
    "C08": dict(
        lean_files=["ConcVerif/Props/C08_deferred.lean"], components=["deferred"],
        level_text_add="deferred_guarded shared handles (Model/Deferred.lean): the truth value reported for the handle equals the "
                       "outcome of the shared acquisition event and is true exactly when the thread holds the mutex shared; at the "
                       "acquisition point of try_lock_shared / _for / _until only the try / timed event is accepted (never the blocking "
                       "one) and its failing outcome is enabled in every global state; the drain attempt that precedes every shared "
                       "acquisition touches the mutex only by an exclusive try-lock with an always-enabled outcome; a non-null handle's "
                       "owner stays a shared holder (nobody exclusive) under every step of every thread until its own release event, "
                       "after which it is no holder and no further release is accepted; after a null result nothing is held.",
        trusted_base=["Model/Deferred.lean: handle moves / unlock() of shared_lock_handle are covered by the lock-family model (same "
                      "handles.hpp class); the deferred client destroys its handle (one `sul`)"],
        assumptions=[],
        partial=["deferred_guarded: 'never blocking beyond the given time' — the try / timed forms never block on the shared mutex, but "
                 "they first run do_pending_writes: if its try-lock wins they execute the queued task functions and take the queue "
                 "mutex (blocking, held only across one push or one swap; its holder is always enabled to release). Real time is not "
                 "modelled"]),
    "C02": dict(
        lean_files=["ConcVerif/Props/C02_deferred.lean"], components=["deferred"],
        trusted_base=["Model/Deferred.lean (deferred_guarded with std::shared_timed_mutex / std::shared_mutex; the plain-mutex "
                      "instantiations of deferred_guarded are not modelled — handles.hpp's fallback itself is covered by C02_plain_degrades)"],
        assumptions=["deferred_guarded: a thread that holds a shared handle calls nothing on the wrapper until it released it"],
        partial=[]),
    "C20": dict(
        lean_files=["ConcVerif/Props/C20_deferred.lean"], components=["deferred"],
        trusted_base=["Model/Deferred.lean: a task's function may throw at any point of its execution (`uth`), on the direct path and "
                      "inside a drain; the copy in load() may throw under the shared lock; std::packaged_task / std::promise capture "
                      "semantics are observed through the client's future events, not modelled"],
        assumptions=["deferred_guarded: a function that throws after having written leaves its write in place (the wrapper does not "
                     "roll back user modifications; nothing is claimed about it)"],
        partial=[]),
}
