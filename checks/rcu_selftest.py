#!/usr/bin/env python3
"""rcu_selftest.py [name ...]   (no name: all)

Self-test of the rcu checks (C05 / C12 / C13): copies the tree $RCU_SELFTEST_BASE (default /repo; never modified) to a
scratch directory, applies one textual mutation at a time and runs `check.py <property> --tier quick` with VERIF_REPO pointing at the
copy.  Expected: every mutant is reported as `VIOLATION ... replay=...` with at least one concrete failing input; the
harmless rewrites (names starting with `H-`, and `tail-before-link`: readers never read `m_tail`) are `OK` or at worst
`VIOLATION ... no-failing-input-found` (the stage-A model is the exact program, so a reordering is rejected by the model,
but no run fails and the oracle reports nothing)."""
import os, shutil, subprocess, sys, tempfile, time

HERE = os.path.dirname(os.path.abspath(__file__))
VERIF = os.path.dirname(HERE)
BASE = os.environ.get("RCU_SELFTEST_BASE", "/repo")      # the tree the mutations are applied to (fixed erase expected)
SRC = BASE + "/gmlc/libguarded/"
def sub(text, old, new, count=1):
    assert text.count(old) >= 1, "pattern not found: " + old[:60]
    return text.replace(old, new, count)

SCAN = """    while (n) {
        if (n->owner.load() != nullptr) {
            last = false;
            break;
        }

        n = n->next.load();
    }
"""
ERASE_UNLINK = """        node* oldPrev = iter.m_current->back.load();
        node* oldNext = iter.m_current->next.load();

        if (oldPrev) {
            oldPrev->next.store(oldNext);
        } else {
            // no previous node, this node was the head
            m_head.store(oldNext);
        }

        if (oldNext) {
            oldNext->back.store(oldPrev);
        } else {
            // no next node, this node was the tail
            m_tail.store(oldPrev);
        }

"""
ERASE_PUSH = """        zombie_list_node* oldZombie = m_zombie_head.load();

        do {
            newZombie->next = oldZombie;
        } while (!m_zombie_head.compare_exchange_weak(oldZombie, newZombie));
"""
ERASE_ALLOC = """        auto newZombie = zombie_alloc_trait::allocate(m_zombie_alloc, 1);
        zombie_alloc_trait::construct(m_zombie_alloc,
                                      newZombie,
                                      iter.m_current);

"""
PF = """        newNode->next.store(oldHead);
        oldHead->back.store(newNode.get());
        m_head.store(newNode.release());
"""
PB = """        newNode->back.store(oldTail);
        oldTail->next.store(newNode.get());
        m_tail.store(newNode.release());
"""

def m_null(t):
    t = sub(t, """            if (deadNode != nullptr) {
                node_alloc_trait::destroy(m_list->m_node_alloc, deadNode);
                node_alloc_trait::deallocate(m_list->m_node_alloc, deadNode, 1);
            }
""", """            node_alloc_trait::destroy(m_list->m_node_alloc, deadNode);
            node_alloc_trait::deallocate(m_list->m_node_alloc, deadNode, 1);
""")
    return sub(t, """        if (current->zombie_node != nullptr) {
            node_alloc_trait::destroy(m_node_alloc, current->zombie_node);
            node_alloc_trait::deallocate(m_node_alloc, current->zombie_node, 1);
        }
""", """        node_alloc_trait::destroy(m_node_alloc, current->zombie_node);
        node_alloc_trait::deallocate(m_node_alloc, current->zombie_node, 1);
""")

MUT = {
  # name: (property, function text -> text)
  "null-destroy": ("C13", m_null),
  "no-scan": ("C05", lambda t: sub(t, SCAN, "")),
  # the zombie record is PUSHED (published on the log) before the node is unlinked
  "zombie-before-unlink": ("C05", lambda t: sub(sub(t, ERASE_PUSH, ""), ERASE_UNLINK, ERASE_PUSH + "\n" + ERASE_UNLINK)),
  # the pre-fix erase: the record is allocated only after the node has been unlinked (leaks the node if that allocation throws)
  "alloc-after-unlink": ("C13", lambda t: sub(sub(t, ERASE_ALLOC, ""), ERASE_PUSH, ERASE_ALLOC + ERASE_PUSH)),
  "owner-before-trunc": ("C05", lambda t: sub(sub(t, "    m_zombie->owner.store(nullptr);\n}", "}"),
                                              "    if (last) {\n        while (n) {\n            node* deadNode",
                                              "    if (!last) {\n        m_zombie->owner.store(nullptr);\n    }\n    if (last) {\n        m_zombie->owner.store(nullptr);\n        while (n) {\n            node* deadNode")),
  "scan-stops-at-inactive": ("C05", lambda t: sub(t, SCAN, """    while (n) {
        if (n->owner.load() != nullptr) {
            last = false;
        }
        break;
    }
""")),
  "erase-clears-next": ("C12", lambda t: sub(t, ERASE_UNLINK, ERASE_UNLINK + "        iter.m_current->next.store(nullptr);\n\n")),
  "publish-before-next": ("C12", lambda t: sub(t, PF, """        node* fresh = newNode.release();
        m_head.store(fresh);
        fresh->next.store(oldHead);
        oldHead->back.store(fresh);
""")),
  "tail-before-link": ("C12", lambda t: sub(t, PB, """        node* fresh = newNode.release();
        m_tail.store(fresh);
        oldTail->next.store(fresh);
        fresh->back.store(oldTail);
""", 1)),
  "push-back-no-mutex": ("C12", lambda t: sub(t, """void rcu_list<T, M, Alloc>::push_back(T data)
{
    std::lock_guard<M> guard(m_write_mutex);
""", """void rcu_list<T, M, Alloc>::push_back(T data)
{
""")),
  "erase-no-mutex": ("C12", lambda t: sub(t, """auto rcu_list<T, M, Alloc>::erase(const_iterator iter) -> iterator
{
    std::lock_guard<M> guard(m_write_mutex);
""", """auto rcu_list<T, M, Alloc>::erase(const_iterator iter) -> iterator
{
""")),
  # harmless rewrites
  "H-extra-load": ("C12", lambda t: sub(t, "    node* oldHead = m_head.load();\n\n    if (oldHead == nullptr) {\n        m_head.store(newNode.get());",
                                           "    node* oldHead = m_head.load();\n    oldHead = m_head.load();\n\n    if (oldHead == nullptr) {\n        m_head.store(newNode.get());")),
  "H-unique-lock": ("C12", lambda t: t.replace("std::lock_guard<M> guard(m_write_mutex);", "std::unique_lock<M> guard(m_write_mutex);")),
  "H-seq-cst-reg": ("C05", lambda t: sub(sub(t, "list.m_zombie_head.load(std::memory_order_relaxed);", "list.m_zombie_head.load();"),
                                          "m_zombie->next.store(oldNext, std::memory_order_relaxed);", "m_zombie->next.store(oldNext);")),
  "H-reorder-erase": ("C05", lambda t: sub(t, """        if (oldPrev) {
            oldPrev->next.store(oldNext);
        } else {
            // no previous node, this node was the head
            m_head.store(oldNext);
        }

        if (oldNext) {
            oldNext->back.store(oldPrev);
        } else {
            // no next node, this node was the tail
            m_tail.store(oldPrev);
        }
""", """        if (oldNext) {
            oldNext->back.store(oldPrev);
        } else {
            // no next node, this node was the tail
            m_tail.store(oldPrev);
        }

        if (oldPrev) {
            oldPrev->next.store(oldNext);
        } else {
            // no previous node, this node was the head
            m_head.store(oldNext);
        }
""")),
}


def main():
    names = sys.argv[1:] or list(MUT)
    scratch = tempfile.mkdtemp(prefix="verif-rcu-selftest-", dir="/var/tmp")
    bad = 0
    try:
        repo = os.path.join(scratch, "repo")
        subprocess.check_call(["rsync", "-a", "--exclude", "_build", "--exclude", ".git", BASE + "/", repo + "/"])
        dst = os.path.join(repo, "gmlc/libguarded/")
        for name in names:
            prop, fn = MUT[name]
            for f in ("rcu_list.hpp", "rcu_guarded.hpp"):
                shutil.copy(SRC + f, dst + f)
            t = open(dst + "rcu_list.hpp").read()
            t2 = fn(t)
            assert t2 != t
            open(dst + "rcu_list.hpp", "w").write(t2)
            base = os.path.join(scratch, name)
            env = dict(os.environ, VERIF_REPO=repo, VERIF_CACHE=base + "/cache", VERIF_EVIDENCE_DIR=base + "/evid",
                       VERIF_REPLAYS=base + "/replays")
            t0 = time.time()
            p = subprocess.run([sys.executable, os.path.join(VERIF, "check.py"), prop, "--tier", "quick"], cwd=VERIF, env=env,
                               stdout=subprocess.PIPE, stderr=subprocess.STDOUT, text=True)
            out = p.stdout.strip().split("\n")
            heads = [l for l in out if l.startswith(("VIOLATION", "OK "))]
            concrete = [l for l in heads if l.startswith("VIOLATION") and "no-failing-input-found" not in l]
            harmless = name.startswith("H-") or name == "tail-before-link"
            ok = (not concrete) if harmless else bool(concrete)
            bad += 0 if ok else 1
            print("%-24s %s [%3ds] %s  %s || %s" % (name, prop, time.time() - t0, "as-expected" if ok else "UNEXPECTED",
                                                   ("concrete-failing-inputs=%d" % len(concrete)) if concrete else (heads[0][:60] if heads else "?"),
                                                   " | ".join(x.strip() for x in out[-3:])[:300]), flush=True)
    finally:
        shutil.rmtree(scratch, ignore_errors=True)
    return 1 if bad else 0


if __name__ == "__main__":
    sys.exit(main())
