"""C19 — gmlc::concurrency::TripWire / TripWireTrigger / TripWireDetector (component entry, property entry, oracle)."""

ACQ = ("acq", "ar", "sc")
REL = ("rel", "ar", "sc")


def events(run):
    for l in run["trace"]:
        t = l.split()
        yield int(t[0]), t[1:]


def _join(a, b):
    for k, v in b.items():
        if a.get(k, 0) < v:
            a[k] = v


def oracle_tripwire(run):
    """Trace-level statement of C19, independent of the Lean model's pcs.

    Object bindings are recomputed here from the `call` markers with the SOURCE-level meaning of the
    operations (constructor from line / index, defaulted move construction and assignment, copy).
      index    : a constructor ends with the exception iff its index is outside the table; otherwise the
                 new object holds exactly the requested line;
      move     : after a move the new / assigned object holds the source's line and the source is empty;
                 no atomic write happens inside a move or inside the destructor of an empty trigger;
                 the destructor of a trigger holding l writes to l and to nothing else;
      monotone : per line, over all threads in trace order: isTripped() is false as long as no destructor
                 of a trigger holding the line has started, true once one has returned, and never goes
                 back from true to false; nothing ever stores false;
      indep.   : (the bookkeeping above is per line: a line only becomes true through its own triggers);
      publish  : happens-before from the DECLARED memory orders (release store / acquire load that reads
                 it, thread start / join): every read of a client datum is ordered after the write it
                 reads and sees its value; every pair of conflicting accesses is ordered (race check)."""
    nidx = None
    trig = {}       # id -> line name or None (empty)
    det = {}        # id -> line name
    cur = {}        # tid -> current call tokens
    started = set()   # lines: a destructor of a trigger holding the line has started
    finished = set()  # lines: such a destructor has returned
    seen_true = set()
    lineval = {}      # line -> True once an atomic write stored true (the line's current value; it never goes back)
    # happens-before
    vc = {}         # tid -> {tid: clock}
    msg = {}        # line -> clock attached to its current value
    lastw = {}      # datum -> (tid, clock, value)
    reads = {}      # datum -> list of (tid, clock)
    seen_thread = False
    joined = False

    def clock(t):
        if t not in vc:
            vc[t] = {t: 1}
        return vc[t]

    def tick(t):
        c = clock(t)
        c[t] = c.get(t, 0) + 1

    def ordered(a, t):
        # access a = (tid, clock) happens-before the current point of thread t
        return a[0] == t or clock(t).get(a[0], 0) >= a[1]

    def line_of_src(src):
        if src.startswith("ix"):
            k = int(src[2:])
            return src if k < nidx else None
        return src

    for tid, t in events(run):
        k = t[0]
        if k == "cfg":
            nidx = int(t[2])
            continue
        if tid != 0:
            seen_thread = True
        elif seen_thread and not joined:
            joined = True   # the main thread continues after having joined every logical thread
            for u in list(vc):
                _join(clock(0), vc[u])
        if k == "fork":
            _join(clock(tid), clock(0))
        elif k == "call":
            cur[tid] = t[1:]
            op = t[1]
            if op == "rm":
                i = int(t[2])
                if i not in trig:
                    return "client-error: destroying a trigger that does not exist"
                b = trig.pop(i)
                cur[tid] = ["rm", i, b, 0]
                if b is not None:
                    started.add(b)
        elif k == "ret":
            c = cur.pop(tid, None)
            op = t[1]
            if c is None or c[0] != op:
                return "client-error: ret without call"
            if op in ("mkT", "mkD"):
                i, src, res = int(t[2]), c[2], t[3]
                want = line_of_src(src)
                if want is None:
                    if res != "exc":
                        return "out-of-range index %s accepted without an exception (object bound to %s)" % (src, res)
                else:
                    if res == "exc":
                        return "constructor on %s threw" % src
                    if res != want:
                        return "object constructed on %s holds line %s" % (src, res)
                    (trig if op == "mkT" else det)[i] = want
            elif op == "mv":
                i, j = int(t[2]), int(t[3])
                b = trig[j]
                if t[4] != (b or "null") or t[5] != "null":
                    return "move construction: new object holds %s, source holds %s (expected %s, null)" % (t[4], t[5], b or "null")
                trig[i], trig[j] = b, None
            elif op == "as":
                i, j = int(t[2]), int(t[3])
                b = trig[j]
                want_src = (b or "null") if i == j else "null"
                if t[4] != (b or "null") or t[5] != want_src:
                    return "move assignment: target holds %s, source holds %s (expected %s, %s)" % (t[4], t[5], b or "null", want_src)
                if i != j:
                    trig[i], trig[j] = b, None
            elif op == "cp":
                i, j = int(t[2]), int(t[3])
                if t[4] != det[j] or t[5] != det[j]:
                    return "detector copy holds %s / %s instead of %s" % (t[4], t[5], det[j])
                det[i] = det[j]
            elif op == "rm":
                b, stores = c[2], c[3]
                if b is not None:
                    if not lineval.get(b):
                        return "destructor of a trigger holding %s returned and the line is still false" % b
                    finished.add(b)
            elif op == "rd":
                det.pop(int(t[2]), None)
            elif op == "ck":
                i, v = int(t[2]), t[3]
                l = det.get(i)
                if l is None:
                    return "client-error: polling a detector that does not exist"
                if v == "1":
                    if l not in started:
                        return "isTripped() on %s is true before any trigger holding that line was destroyed" % l
                    seen_true.add(l)
                else:
                    if l in finished:
                        return "isTripped() on %s is false after a trigger holding that line was destroyed" % l
                    if l in seen_true:
                        return "isTripped() on %s went back from true to false" % l
        elif k in ("ast", "axc", "cas"):
            l, o = t[1], t[2]
            c = cur.get(tid)
            if k == "cas":
                # cas <line> <order> <expected> <desired> <ok> <value seen>: a failed CAS is a load, a successful one an RMW
                if t[5] != "1":
                    if o in ACQ or o in ("acq", "ar", "sc"):
                        _join(clock(tid), msg.get(l, {}))
                    continue
                t = [k, l, o, t[4]]
            if c is None or c[0] != "rm":
                return "atomic write to %s outside a trigger destructor (inside %s)" % (l, c[0] if c else "nothing")
            if c[2] is None:
                return "destructor of an empty (moved-from) trigger wrote to line %s" % l
            if c[2] != l:
                return "destructor of a trigger holding %s wrote to line %s" % (c[2], l)
            if t[3] != "1":
                return "destructor stored false to line %s" % l
            c[3] += 1
            lineval[l] = True
            if k == "ast":
                msg[l] = dict(clock(tid)) if o in REL else {}
            else:
                if o in ACQ:
                    _join(clock(tid), msg.get(l, {}))
                if o in REL:
                    m = msg.setdefault(l, {})
                    _join(m, clock(tid))
            tick(tid)
        elif k == "ald":
            l, o = t[1], t[2]
            c = cur.get(tid)
            if c is None or c[0] != "ck" or det.get(int(c[1])) != l:
                return "load of line %s outside isTripped() of a detector on that line" % l
            if o in ACQ:
                _join(clock(tid), msg.get(l, {}))
        elif k == "pwr":
            d, v = t[1], int(t[2])
            w = lastw.get(d)
            if w is not None and not ordered(w, tid):
                return "data race on %s: write by thread %d is not ordered after the write by thread %d" % (d, tid, w[0])
            for r in reads.get(d, []):
                if not ordered(r, tid):
                    return "data race on %s: write by thread %d is not ordered after the read by thread %d" % (d, tid, r[0])
            lastw[d] = (tid, clock(tid)[tid], v)
            reads[d] = []
            tick(tid)
        elif k == "prd":
            d, v = t[1], int(t[2])
            w = lastw.get(d)
            if w is None:
                if v != 0:
                    return "read of %s returned %d although it was never written" % (d, v)
            else:
                if v != w[2]:
                    return "read of %s after the line was seen tripped returned %d, the triggering thread had written %d" % (d, v, w[2])
                if not ordered(w, tid):
                    return ("publication broken: thread %d read %s after observing its line as tripped, but the write by thread %d is "
                            "not happens-before ordered with the read (declared orders give no release/acquire edge)" % (tid, d, w[0]))
            reads.setdefault(d, []).append((tid, clock(tid)[tid]))
            tick(tid)
    return None


def register(PROPS, COMPONENTS):
    COMPONENTS["tripwire"] = dict(client="tripwire", driver="tripwire", directed_runs=6, quick_runs=1500,
                                  thorough_runs=40000, oracle=oracle_tripwire,
                                  cov_headers=["gmlc/concurrency/TripWire.hpp"],
                                  # first use of the process-wide static lines from several threads at once (each run in a
                                  # fresh process: the client does not touch the static lines beforehand)
                                  fresh_scripts=["0;mkT:0:ix1,rm:0;mkD:0:ix1,wt:0,ck:0",
                                                 "0;mkD:0:ix2,wt:0;mkT:0:ix2,rm:0;mkD:1:ix2,wt:1",
                                                 "0;mkT:0:ix3,rm:0;mkD:0:ix3,wt:0;mkD:1:ix3,wt:1"], fresh_runs=8)
    PROPS["C19"] = dict(
        lean_files=["ConcVerif/Props/C19.lean"], components=["tripwire"], stage="B",
        level_text="Lean 4 theorems (kernel-checked; any number of lines, trigger objects, detectors, threads, moves and "
                   "interleavings) over an executable model of TripWire.hpp at the level of the atomic<bool> operations of each "
                   "line, with a ghost view (what each thread knows; release stores attach it to the line, acquire loads join it): "
                   "a line is false until the first store by the destructor of a trigger holding it and true for ever after, for "
                   "every detector in every thread; only atomic events on a line change anything about that line, and they occur "
                   "only inside operations on objects of that line; an out-of-range index ends the constructor with the exception "
                   "and leaves the state exactly as it was; move construction / assignment hand the binding over without any "
                   "atomic write, the destructor of an empty trigger writes nothing, the destructor of a bound trigger cannot return "
                   "before its release store; an acquire load that returns true makes the loading thread know everything the "
                   "thread of the store it read knew at that store. The model is tied to the source on every run: the unmodified "
                   "header runs against substituted std::atomic under a deterministic scheduler and every primitive-level trace "
                   "(with the declared memory orders) must be accepted by the model's step function with all model edges covered.",
        level_note="Trusted: Lean kernel (+propext, Classical.choice, Quot.sound), the release/acquire view semantics assumed for "
                   "std::atomic (an operational RC11-style abstraction, not the axiomatic C++ text), the shim+scheduler+driver glue, "
                   "the client's reports of the private line pointers. The harness itself is sequentially consistent: weak "
                   "behaviours are not executed, happens-before is computed from the declared orders.",
        trusted_base=["Model/TripWire.lean is a hand-written model of TripWire.hpp (TripWire, make_tripline(s), TripWireDetector, "
                      "TripWireTrigger incl. defaulted move operations)",
                      "the client reads the private shared_ptr members (lineTrigger / lineDetector) after each constructor / move "
                      "and reports which line they point to; the model and the oracle compare these reports with the bindings "
                      "they compute",
                      "shared_ptr reference counting and the function-local static initialisation of the declared / indexed "
                      "lines happen inside libstdc++ and are not traced; the client resets the static lines to false before each "
                      "run so that every run starts like a fresh process",
                      "`fork` markers: the model lets a starting thread know what the main thread knew (std::thread creation "
                      "synchronises-with the thread's start)"],
        partial=[],
        assumptions=["release/acquire atomics carry views: a load reads the latest store in the interleaving (the harness is "
                     "sequentially consistent); a plain store by another thread replaces the view attached to the line",
                     "publication is stated for the store the observing load read from (the latest one): with several triggers "
                     "on one line destroyed by different, mutually unordered threads, a detector is guaranteed to see the writes "
                     "of the thread whose store it read, not of an earlier storing thread (no client can tell them apart anyway)",
                     "objects are used by one thread at a time (TripWireTrigger / TripWireDetector are not themselves thread-safe)"],
    )
