"""Property and component tables for check.py (DESIGN.md §8)."""
import re


def events(run):
    """yield (tid, tokens) for each trace line"""
    for l in run["trace"]:
        t = l.split()
        yield int(t[0]), t[1:]


# ---- trace-level property oracles (failing-input search; never a proof) ----------------------

def oracle_latch(run):
    start = None
    decs = 0
    in_arrive = {}
    for tid, t in events(run):
        if t[0] == "cfg":
            start = int(t[2])
        elif t[0] == "rmw" and t[1] == "counter":
            decs += 1
        elif t[0] == "call":
            in_arrive[tid] = (t[1] == "arrive")
        elif t[0] == "cwt" and in_arrive.get(tid):
            return "arrive() entered a condition-variable wait"
        elif t[0] == "ret":
            if t[1] in ("wait", "aaw") and decs < start:
                return "%s returned after %d arrivals, latch count %d" % (t[1], decs, start)
            in_arrive[tid] = False
    return None


NOT_YET = {}

# text for properties that have no single owning component (filled from the components' PARTS)
BASE = {
    "C14": dict(
        stage="A",
        level_text="Lean 4 theorems over the executable protocol models of lr_guarded, cow_guarded and rcu_list: no mutex / "
                   "condition-variable event is ever accepted from a reader pc, every reader pc has an enabled next step in every "
                   "reachable state whatever the writers' positions, a strictly decreasing bounded measure per read acquisition, and the "
                   "writer's spin conditions are false once the registered readers have left. Tied to the source by trace acceptance "
                   "of the unmodified headers under a deterministic scheduler.",
        level_note="Trusted: Lean kernel (+propext, Classical.choice, Quot.sound), primitive semantics, shim/scheduler/driver glue. "
                   "Wait-freedom is proved as enabledness + bounded measure; the RCU registration CAS loop is lock-free under the stated "
                   "assumption that compare_exchange_weak does not fail spuriously forever."),
}


def register(PROPS, COMPONENTS):
    # component-specific tables live in checks/reg_*.py (each defines register(PROPS, COMPONENTS))
    import glob
    import importlib
    import os
    here = os.path.dirname(os.path.abspath(__file__))
    mods = [importlib.import_module(os.path.basename(f)[:-3]) for f in sorted(glob.glob(os.path.join(here, "reg_*.py")))]
    for m in mods:
        m.register(PROPS, COMPONENTS)
    # properties decided by several components: each component contributes a PART (lean files + component names)
    for m in mods:
        for pid, part in getattr(m, "PARTS", {}).items():
            if pid not in PROPS:
                if pid not in BASE:
                    continue
                PROPS[pid] = dict(BASE[pid], lean_files=[], components=[], trusted_base=[], assumptions=[], partial=[])
            sp = PROPS[pid]
            for k in ("lean_files", "components", "trusted_base", "assumptions", "partial"):
                for x in part.get(k, []):
                    if x not in sp[k]:
                        sp[k] = sp[k] + [x]
            # optional: a part may describe what it adds to the property's level text
            if part.get("level_text_add") and part["level_text_add"] not in sp.get("level_text", ""):
                sp["level_text"] = sp.get("level_text", "") + " " + part["level_text_add"]

    # C14 spans three components; say which parts this tree actually carries
    if "C14" in PROPS:
        have = PROPS["C14"]["components"]
        missing = [c for c in ("lr", "cow", "rcu") if not any(x == c or x.startswith(c + "_") for x in have)]
        if missing:
            PROPS["C14"]["partial"] = PROPS["C14"]["partial"] + [
                "parts for %s are not in this tree yet: for them nothing is claimed" % ", ".join(missing)]
            PROPS["C14"]["level_note"] += " Covered components: %s; NOT covered yet: %s." % (", ".join(have), ", ".join(missing))
            PROPS["C14"]["level_text"] = PROPS["C14"]["level_text"].replace(
                "lr_guarded, cow_guarded and rcu_list", "lr_guarded, cow_guarded and rcu_list (this tree: %s only)" % ", ".join(have))

    COMPONENTS["latch"] = dict(client="latch", driver="latch", directed_runs=6, quick_runs=400, thorough_runs=30000,
                               oracle=oracle_latch, cov_headers=["gmlc/concurrency/Latch.hpp"])
    PROPS["C10"] = dict(
        lean_files=["ConcVerif/Props/C10.lean"], components=["latch"], stage="A",
        level_text="Lean 4 theorems (kernel-checked, unbounded threads/calls/interleavings, spurious wake-ups included) over an "
                   "executable model of Latch.hpp at the level of its mutex / condition-variable / atomic operations: wait soundness "
                   "(stated both on the ghost decrement counter and on the arrive / arrive_and_wait CALLS of the trace itself: "
                   "C10_arrived_accounting, C10_arrived_le_calls, C10_wait_needs_calls, and conversely C10_calls_open), "
                   "no-lost-wake-up invariant, holder-never-blocked, bounded remaining steps once open, arrive never waits, and termination: "
                   "once open, deadlock-freedom plus a strictly decreasing rank make every execution with finitely many calls end with "
                   "all waiters returned, under every scheduler. The model is "
                   "tied to the source on every run: the unmodified header runs against substituted std primitives under a deterministic "
                   "scheduler and every primitive-level trace must be accepted by the model's step function with all model edges covered.",
        level_note="Trusted: Lean kernel (+propext, Classical.choice, Quot.sound), the primitive semantics assumed for std::mutex / "
                   "condition_variable / seq_cst atomics, the shim+scheduler+driver glue. Liveness is proved without any fairness assumption for "
                   "executions with finitely many calls (deadlock-freedom + strictly decreasing rank, Base/Live.lean); not covered: one "
                   "waiter starved by infinitely many calls of other threads under an unfair mutex/scheduler.",
        trusted_base=["Model/Latch.lean is a hand-written model of Latch.hpp (arrive/wait/arrive_and_wait)"],
        partial=["'every current and future waiter returns' is proved as: (a) C10_open_progress — in every reachable open state "
                 "some thread inside a call has an enabled step (deadlock-freedom); (b) C10_open_terminates / C10_open_bounded_run — "
                 "every execution that makes finitely many calls after the latch opened is finite, for EVERY scheduler, spurious "
                 "wake-ups included (ranking function, Base/Live.lean); hence every maximal such execution ends with every waiter "
                 "returned (C10_stuck_all_returned). Not covered: starvation of one waiter by infinitely many calls of other "
                 "threads (would need a fair mutex, which C++ does not promise)"],
        assumptions=["std::mutex / std::condition_variable behave as in Base semantics (spurious wake-ups allowed)",
                     "seq_cst atomics are interleaved cells (C07 carries the memory-model half)"],
    )
