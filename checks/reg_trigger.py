"""C11 — gmlc::concurrency::TriggerVariable (component table entry, property entry, trace oracle)."""


def events(run):
    for l in run["trace"]:
        t = l.split()
        yield int(t[0]), t[1:]


LOCK_OF = {"triggered": "triggerLock", "activated": "activeLock", "cv_trigger": "triggerLock", "cv_active": "activeLock"}


def oracle_trigger(run):
    """Trace-level statement of C11 on the raw primitive trace, independent of the Lean model's pcs.

    The values of the two flags are rebuilt from the `ast` lines.  An *activation* is an `ast activated 1`;
    its clear step is the `ast triggered 0` of the same activate() call (the constructor is activation -1).
      (1) wait() / wait_for() that read `activated = 1` written by activation A and return true: some
          `ast triggered 1` lies after A's clear step and before the return; wait() never returns false;
      (2) waitActivation() / wait_forActivation() returning true: their last load of `activated` read 1;
      (3) the timed forms return false only if their last load of the awaited flag read 0 while the thread
          held the matching mutex, and the flag (set only under that mutex) is still 0 when they release the
          mutex for the last time: "false" is never returned when the event had happened by the time they gave up
          (a notified waiter that wakes late - `cwk ... late` - must re-read the flag);
      (4) trigger() returning false stored / notified nothing and read `activated = 0`; returning true it
          stored `triggered = 1` and notified cv_trigger, both under triggerLock;
          activate() likewise (clear under triggerLock; set-active + notify under activeLock);
      (5) reset(): `activated` is 0 when it releases activeLock for the last time; if it performed the
          set-inactive store, `triggered` is 1 at that store unless an activate() is between its clear and
          its set-active step ("reset forces a trigger before deactivating");
      (6) every store to a flag and every cv wait happens under the matching mutex.
    (Lost wake-ups themselves are the scheduler's deadlock monitor: generated scripts always terminate on a
    correct TriggerVariable.)"""
    val = {"triggered": 0, "activated": 0}
    cur_act_clear = -1          # line of the clear step of the activation that wrote the current `activated = 1`
    last_trig_true = -2         # line of the latest `ast triggered 1`
    holds = {}                  # tid -> set of mutex names
    call = {}                   # tid -> dict describing the call in progress
    pending = {}                # tid -> True while an activate() call is between its clear and its set-active
    i = -1
    for i, (tid, t) in enumerate(events(run)):
        k = t[0]
        h = holds.setdefault(tid, set())
        c = call.get(tid)
        if k == "cfg":
            val["activated"] = int(t[2])
        elif k == "call":
            call[tid] = dict(op=t[1], at=i, seen=None, first=True, flagload=None, stores=[], notifies=[], unlock_act=None, flag_at_release=None,
                             clear=None, set_inactive_ok=None)
        elif k == "mlk":
            h.add(t[1])
        elif k == "mul":
            h.discard(t[1])
            if c is not None and t[1] == "activeLock":
                c["unlock_act"] = val["activated"]
            if c is not None:
                # value of the awaited flag when the thread gives the matching mutex up (stores need that mutex, so this
                # is the value at every point since the thread last (re)acquired it: its deciding point)
                c["flag_at_release"] = val["triggered" if t[1] == "triggerLock" else "activated"]
        elif k == "cwt":
            if LOCK_OF.get(t[1]) != t[2] or t[2] not in h:
                return "cv wait on %s without holding its mutex" % t[1]
            h.discard(t[2])
        elif k == "cwk":
            h.add(t[2])
        elif k == "ald":
            if c is None:
                continue
            v = int(t[3])
            if c["op"] in ("wait", "waitFor"):
                if c["first"] and t[1] == "activated":
                    c["first"] = False
                    c["seen"] = cur_act_clear if v == 1 else None
                elif t[1] == "triggered":
                    c["flagload"] = (v, "triggerLock" in h)
            elif c["op"] in ("waitAct", "waitForAct") and t[1] == "activated":
                c["flagload"] = (v, "activeLock" in h)
            elif c["op"] == "trigger" and t[1] == "activated":
                c["flagload"] = (v, False)
        elif k in ("ast", "axc") or (k == "cas" and len(t) > 5 and t[5] == "1"):
            # any atomic WRITE of a flag counts (store, exchange, successful compare-exchange): the rules below are about the
            # values the flags take and where, not about the instruction used
            name, v = t[1], int(t[4] if k == "cas" else t[3])
            if LOCK_OF[name] not in h:
                return "store to %s outside %s" % (name, LOCK_OF[name])
            if c is not None:
                c["stores"].append((name, v))
            if name == "triggered":
                if v == 1:
                    last_trig_true = i
                elif c is not None and c["op"] == "activate":
                    c["clear"] = i
                    pending[tid] = True
            else:
                if v == 1:
                    cur_act_clear = c["clear"] if (c is not None and c["op"] == "activate" and c["clear"] is not None) else i
                    pending[tid] = False
                elif c is not None and c["op"] == "reset":
                    c["set_inactive_ok"] = (val["triggered"] == 1) or any(pending.values())
            val[name] = v
        elif k == "cna":
            if c is not None:
                c["notifies"].append((t[1], LOCK_OF[t[1]] in h))
        elif k == "ret":
            if c is None:
                continue
            op = c["op"]
            r = t[2] if len(t) > 2 else None
            if op == "wait" and r != "1":
                return "wait() returned false"
            if op in ("wait", "waitFor") and r == "1" and c["seen"] is not None and not last_trig_true > c["seen"]:
                return "%s() returned true without a set-triggered step after the clear step of the activation it observed" % op
            if op in ("waitAct", "waitForAct") and r != "0" and (c["flagload"] is None or c["flagload"][0] != 1):
                return "%s() returned without having read activated = 1" % op
            if op in ("waitFor", "waitForAct") and r == "0":
                fl = c["flagload"]
                if fl is None or fl[0] != 0 or not fl[1]:
                    return "%s() returned false but its last load of the awaited flag was not a 0 read under the mutex" % op
                if c["flag_at_release"] == 1:
                    return ("%s() returned false although the awaited flag had been set (and not cleared) when it gave up: "
                            "the event had happened" % op)
            if op == "trigger":
                if r == "0" and (c["stores"] or c["notifies"] or c["flagload"] != (0, False)):
                    return "trigger() returned false but had an effect (or did not read activated = 0)"
                if r == "1" and (c["stores"] != [("triggered", 1)] or c["notifies"] != [("cv_trigger", True)]):
                    return "trigger() returned true without exactly one store triggered=1 and one notify under triggerLock"
            if op == "activate":
                if r == "0" and (c["stores"] or c["notifies"]):
                    return "activate() returned false but had an effect"
                if r == "1" and (sorted(c["stores"]) != [("activated", 1), ("triggered", 0)] or c["notifies"] != [("cv_active", True)]):
                    return "activate() returned true without clear, set-active and one notify under activeLock"
            if op == "reset":
                if c["unlock_act"] != 0:
                    return "reset() released activeLock with activated = %s" % c["unlock_act"]
                if c["set_inactive_ok"] is False:
                    return "reset() deactivated an untriggered variable (no activate() in progress)"
            call[tid] = None
    return None


def register(PROPS, COMPONENTS):
    COMPONENTS["trigger"] = dict(client="trigger", driver="trigger", directed_runs=6, quick_runs=6000, thorough_runs=60000,
                                 oracle=oracle_trigger, cov_headers=["gmlc/concurrency/TriggerVariable.hpp"])
    PROPS["C11"] = dict(
        lean_files=["ConcVerif/Props/C11.lean"], components=["trigger"], stage="B",
        level_text="Lean 4 theorems (kernel-checked; any number of threads, any mix of the nine public methods, any "
                   "interleaving, spurious wake-ups and time-outs as ordinary events) over an executable model of "
                   "TriggerVariable.hpp at the level of its two atomic flags, two mutexes and two condition variables, "
                   "with a ghost history of clear / set-active / set-triggered / set-inactive steps: wait()/wait_for() "
                   "that observed an activation return true only after a set-triggered step later than that activation's "
                   "clear step, and `triggered` is true from their deciding load until they release triggerLock; the "
                   "same for waitActivation()/wait_forActivation() and `activated`; the timed forms return false only from "
                   "a deciding load of false under the matching mutex after a time-out (flag false until the mutex is "
                   "released); no-lost-wake-up invariants for both condition variables, and their history form under "
                   "the proviso (no clear step after the set-triggered step / no set-inactive after the set-active); "
                   "trigger() on an inactive variable changes nothing but its own pc and returns false, and returns "
                   "false only so; reset() releases activeLock only with `activated` false, and after a set-inactive "
                   "step, absent a later set-active, `activated` is false and `triggered` is true unless an activate() "
                   "is between its clear and set-active steps; L2-L4 (mutex holders always enabled, bounded remaining "
                   "steps of a waiter while its flag is true, per-thread deadlock-freedom); termination under the proviso "
                   "without any fairness assumption (Base/Live.lean: from a reachable state with both flags true, every "
                   "execution that performs no clear / set-inactive step and finitely many calls is finite, with an explicit "
                   "bound, and ends with every thread returned); a concrete accepted trace showing the re-activation proviso "
                   "is necessary. The model is tied to the source on every run: the unmodified header runs against "
                   "substituted std primitives under a deterministic scheduler, every primitive-level trace must be accepted "
                   "by the model's step function with all edges covered, and every line and member function of the header "
                   "must be executed.",
        level_note="Trusted: Lean kernel (+propext, Classical.choice, Quot.sound), the primitive semantics assumed for std::mutex / "
                   "condition_variable / atomics as interleaved cells, the shim+scheduler+driver glue. Partial: the wake-up clause "
                   "is mechanised to termination only for the case where BOTH flags are true and stay so (the proviso taken for "
                   "both condition variables at once); for a trigger on its own (activated may be reset meanwhile) and for "
                   "activate on its own it is proved as the safety facts L1-L4 that imply it under weak fairness.",
        trusted_base=["harness/vshim.hpp: a timed cv wait that was notified may, by the scheduler's recorded choice, report "
                      "a time-out (`cwk ... late`), as the real wait_for / wait_until may",
                      "Model/Trigger.lean is a hand-written model of TriggerVariable.hpp (all nine public methods, reset's "
                      "unlock/trigger/lock loop with its acquire load included); it is a discipline slightly weaker than "
                      "today's code: the store and the notify_all inside trigger()'s / activate()'s critical section may "
                      "come in either order, waits may load their flag any number of times under the mutex, reset's loop "
                      "load may be acquire or stronger",
                      "the ghost history (hist, lastClear, actClear, myClear, obs) is updated by the model's step function at "
                      "the four kinds of store steps and at the fast-path load of wait()/wait_for(); its reading is part of "
                      "the statement of the theorems",
                      "the shim's condition variable re-acquires the mutex in the same step as the wake-up / time-out; a "
                      "time-out that loses a race with a notification appears as a `late` wake-up (notified, reported "
                      "as a time-out) or as a notified one"],
        partial=["'a successful trigger(), activate() or reset() releases every thread already blocked on that event, provided the "
                 "variable is not re-activated while they are still blocked': fully mechanised (termination for every scheduler, "
                 "C11_armed_terminates / C11_armed_bounded_run / C11_armed_stuck_all_returned) for executions that start with "
                 "activated = triggered = true and perform neither a clear step nor a set-inactive step; for each condition "
                 "variable separately (only its own flag stays true) it is proved as the safety facts L1-L4 (no lost wake-up "
                 "incl. the history form under the proviso, mutex holders never blocked, bounded remaining own steps of a "
                 "waiter while its flag stays true, per-thread deadlock-freedom) whose fair-scheduler termination step is not "
                 "mechanised. Without the proviso the clause is false (C11_proviso_needed), and reset()'s loop can spin "
                 "forever under an unfair scheduler - both are behaviour of the code, not findings"],
        assumptions=["std::mutex / std::condition_variable behave as in Base semantics (spurious wake-ups allowed; timed waits "
                     "may time out at any point)",
                     "seq_cst atomics (and reset's acquire load) are interleaved cells (C07 carries the memory-model half)",
                     "the property's own proviso: the wake-up clause is claimed only while no clear step (re-activation) "
                     "follows the set-triggered step; C11_proviso_needed shows a concrete accepted trace where it fails otherwise"],
    )
