"""C18 — gmlc::concurrency::DelayedObjects (component table entry, property entry, trace oracle)."""
import atexit
import collections
import sys

MAPS = ("pI", "pS", "uI", "uS")
OPDIST = collections.Counter()


def events(run):
    for l in run["trace"]:
        t = l.split()
        yield int(t[0]), t[1:]


def _print_dist():
    if OPDIST:
        tot = sum(OPDIST.values())
        sys.stderr.write("  dobj op distribution (%d calls): %s\n" % (
            tot, " ".join("%s=%d" % kv for kv in sorted(OPDIST.items()))))


atexit.register(_print_dist)


def _parse_call(t):
    """tokens after 'call'/'ret'/'exc' -> (kind, key, arg, rest)   key = ('I', n) / ('S', name) / None"""
    name = t[0]
    if name in ("getI", "getS"):
        return "get", (name[3], t[1]), int(t[2]), t[3:]
    if name in ("setI", "setS"):
        return "set", (name[3], t[1]), int(t[2]), t[4:]
    if name == "ful":
        return "ful", None, int(t[1]), t[2:]
    if name == "dtor":
        return "dtor", None, None, t[1:]
    for pre, kind in (("rec", "rec"), ("comp", "comp"), ("fin", "fin")):
        if name in (pre + "I", pre + "S"):
            return kind, (name[-1], t[1]), None, t[2:]
    return None, None, None, t


def _linearisable_queries(hist):
    """search for a total order of the completed calls, consistent with real time, in which isRecognized / isCompleted give
    the observed answers under the key life cycle (requested -> pending; set / fulfil-all -> completed; finished -> gone)"""
    n = len(hist)
    if n > 40:
        return True
    seen = set()

    def go(done, pending, used):
        if len(done) == n:
            return True
        kk = (done, pending, used)
        if kk in seen:
            return False
        seen.add(kk)
        rest = [i for i in range(n) if i not in done]
        first_end = min(hist[i]["end"] for i in rest)
        for i in rest:
            h = hist[i]
            if h["start"] > first_end:
                continue
            p, u = set(pending), set(used)
            k, key = h["kind"], h["key"]
            ok = True
            if k == "get":
                p.add(key)
            elif k == "set":
                if key in p:
                    p.discard(key)
                    u.add(key)
            elif k == "ful":
                u |= p
                p = set()
            elif k == "fin":
                u.discard(key)
            elif k == "dtor":
                p, u = set(), set()
            elif k == "rec":
                ok = h["got"] == ("1" if (key in p or key in u) else "0")
            elif k == "comp":
                ok = h["got"] == ("1" if key in u else "0")
            if ok and go(done | frozenset([i]), frozenset(p), frozenset(u)):
                return True
        return False

    return go(frozenset(), frozenset(), frozenset())


def oracle_dobj(run):
    """C18 on the raw trace, independent of the Lean model's pcs.

    The critical sections of promiseLock are totally ordered (checked: mutual exclusion); their order is the
    order of the `mlk` lines.  From that order alone:
      (value rule)  for the future handed out by a getFuture(k) whose key is requested once (not pending at the
                    request, not requested again before it is satisfied): the FIRST later critical section that is
                    setDelayedValue(k, v) (-> v), fulfillAllPromises(v) (-> v) or the destructor (-> 0) decides
                    what the future yields; futures of keys requested twice only have to become ready, once;
      (exactly once) every future is read exactly once by the harness (`got`), after the deciding critical
                    section began, and yields exactly that; `got .. hang` / `error` never appears;
      (no escape)   no `exc` line (promise_already_satisfied or anything else escaping the API);
      (queries)     isRecognized / isCompleted results equal those of a reference dict model run in the same
                    order; set on an unknown / completed key and finishedWithValue perform no set_value;
      (set_value)   the number and values of the `pset` lines of a critical section are those of the promises the
                    reference model satisfies there, and every `pset` and every plain access to the four maps
                    happens while the thread holds promiseLock (the destructor's member destruction excepted)."""
    holder = None
    cur = {}         # tid -> (kind, key, arg) of the call in progress
    phase = {}       # tid -> 'called' | 'locked' | 'unlocked'
    sections = []    # (line index of mlk, tid, kind, key, arg)
    psets = {}       # section index -> list of values
    sec_of = {}      # tid -> index of its current section
    results = {}     # section index -> result tokens
    gots = {}        # id -> list of (line index, text)
    dtor_done = set()
    heldset = {}     # tid -> names of the mutexes it holds
    mholder = {}     # mutex name -> tid holding it exclusively
    sholders = {}    # mutex name -> tids holding it shared
    xheld = {}       # tid -> mutexes it holds exclusively
    overlap = False  # critical sections (of different mutexes) of two calls overlapped
    several = False  # some call consisted of several critical sections
    started = {}     # tid -> line of its current call
    hist = []        # completed calls with their real-time interval and (for the queries) result
    lockset = {}     # map -> mutexes held at EVERY access so far
    for i, (tid, t) in enumerate(events(run)):
        k = t[0]
        if k == "call":
            kind, key, arg, rest = _parse_call(t[1:])
            if kind is None:
                return "unparseable call: %s" % " ".join(t)
            OPDIST[t[1] + (t[4] if kind == "set" else "")] += 1
            cur[tid] = (kind, key, arg)
            phase[tid] = "called"
            started[tid] = i
        elif k in ("mlk", "mtl", "mtf", "slk", "stl", "stf"):
            # any mutex, whatever it is called (the harness names the one it knows `promiseLock`; a rewrite may add more),
            # exclusive or shared side
            if k not in ("mlk", "slk") and t[2] != "1":
                continue
            name = t[1]
            sh = k[0] == "s"
            if mholder.get(name) is not None or (not sh and sholders.get(name)):
                return "%s granted to %d while %s holds it" % (name, tid, mholder.get(name) if mholder.get(name) is not None
                                                               else sorted(sholders[name]))
            if sh:
                sholders.setdefault(name, set()).add(tid)
                xheld.setdefault(tid, set()).discard(name)
            else:
                mholder[name] = tid
                xheld.setdefault(tid, set()).add(name)
            heldset.setdefault(tid, set()).add(name)
            if tid not in phase:
                return "thread %d locked %s outside a call" % (tid, name)
            if phase[tid] == "called":
                phase[tid] = "locked"
                kind, key, arg = cur[tid]
                if any(p == "locked" for u, p in phase.items() if u != tid):
                    overlap = True     # critical sections of different mutexes overlap: "order of the sections" is not an order
                sec_of[tid] = len(sections)
                sections.append((i, tid, kind, key, arg))
            elif phase[tid] == "unlocked":
                several = True         # a call made of several critical sections: judged by the futures, not by the reference
                phase[tid] = "locked"
        elif k in ("mul", "sul"):
            name = t[1]
            if k == "sul":
                if tid not in sholders.get(name, set()):
                    return "thread %d released %s (shared) without holding it" % (tid, name)
                sholders[name].discard(tid)
            else:
                if mholder.get(name) != tid:
                    return "thread %d released %s without holding it" % (tid, name)
                mholder[name] = None
                xheld.setdefault(tid, set()).discard(name)
            heldset.setdefault(tid, set()).discard(name)
            if not heldset[tid]:
                phase[tid] = "unlocked"
                if cur[tid][0] == "dtor":
                    dtor_done.add(tid)
        elif k == "pset":
            if not xheld.get(tid):
                return "thread %d satisfied a promise (value %s) without holding any mutex exclusively" % (tid, t[2])
            psets.setdefault(sec_of[tid], []).append(int(t[2]))
        elif k in ("pld", "pst"):
            m = t[1].split("+")[0]
            if m in MAPS and tid not in dtor_done:
                # lockset discipline, whatever the mutexes are called and however many there are: every access to one map
                # must be made under at least one common mutex (otherwise two accesses can overlap: a data race)
                hs = frozenset(heldset.get(tid, ()))
                if not hs:
                    return "thread %d accessed map %s without holding any mutex" % (tid, m)
                prev = lockset.get(m)
                lockset[m] = hs if prev is None else (prev & hs)
                if not lockset[m]:
                    return ("map %s is not consistently protected: thread %d accesses it holding %s, earlier accesses held %s"
                            % (m, tid, sorted(hs), sorted(prev)))
                if k == "pst" and not (lockset[m] & frozenset(xheld.get(tid, ()))):
                    return "thread %d WROTE map %s holding %s only shared (other readers may be inside)" % (tid, m, sorted(hs))
        elif k == "ret":
            if phase.get(tid) == "called":
                # a call that took no lock at all (a lock-free fast path): not by itself a failure; it is placed in the
                # order of the sections at its return, where it must have had its effect - the futures decide
                kind, key, arg = cur[tid]
                sec_of[tid] = len(sections)
                sections.append((i, tid, kind, key, arg))
                phase[tid] = "unlocked"
            if phase.get(tid) != "unlocked":
                return "thread %d returned from %s holding %s" % (tid, t[1], sorted(heldset.get(tid, ())))
            results[sec_of[tid]] = t[-1]
            kind, key, arg = cur[tid]
            hist.append(dict(kind=kind, key=key, start=started[tid], end=i, got=t[-1] if kind in ("rec", "comp") else None))
            phase.pop(tid, None)
        elif k == "exc":
            return "exception escaped the API: %s" % " ".join(t[1:])
        elif k == "got":
            gots.setdefault(int(t[1]), []).append((i, t[2]))
    if (overlap or several) and not _linearisable_queries(hist):
        return ("no order of the completed calls (consistent with real time) explains the results of isRecognized / isCompleted: "
                "the life cycle of a key was observed in an impossible state")
    # reference dict model in critical-section order
    pending, used, handed = {}, {}, {}
    later = []       # bookkeeping discrepancies, reported only if the futures themselves look right
    for si, (line, tid, kind, key, arg) in enumerate(sections):
        want_sets = []
        res = "-"
        if kind == "get":
            handed[arg] = (si, key, key in pending)   # third field: a re-request of a key that is still pending
            pending[key] = arg
        elif kind == "set":
            if key in pending:
                used[key] = pending.pop(key)
                want_sets = [arg]
        elif kind == "ful":
            want_sets = [arg] * len(pending)
            used.update(pending)
            pending.clear()
        elif kind == "dtor":
            want_sets = [0] * len(pending)
            pending.clear()
            used.clear()
        elif kind == "rec":
            res = "1" if (key in pending or key in used) else "0"
        elif kind == "comp":
            res = "1" if key in used else "0"
        elif kind == "fin":
            used.pop(key, None)
        keytxt = "" if key is None else " " + key[0] + ":" + key[1]
        if si in results and results[si] != res and not overlap and not several:
            return "%s%s by thread %d returned %s, reference model says %s" % (kind, keytxt, tid, results[si], res)
        if sorted(psets.get(si, [])) != sorted(want_sets):
            later.append("%s%s by thread %d performed set_value %s, expected %s" % (kind, keytxt, tid, psets.get(si, []), want_sets))
    # value rule, literally
    complete = run["status"] == "ok" and any(s[2] == "dtor" for s in sections)
    for pid, (si, key, rerequest) in handed.items():
        expect, decided_at = None, None
        once = not rerequest
        for (line, tid, kind, k2, arg) in sections[si + 1:]:
            if kind == "get" and k2 == key:
                # requested again while pending: outside the property's hypothesis ("requested once"); today's code
                # abandons the promise (broken_promise).  Only "ready exactly once, never hanging" is required then.
                expect, once = "broken", False
            elif kind == "set" and k2 == key:
                expect = str(arg)
            elif kind == "ful":
                expect = str(arg)
            elif kind == "dtor":
                expect = "0"
            if expect is not None:
                decided_at = line
                break
        g = gots.get(pid, [])
        if len(g) > 1:
            return "future %d was ready twice: %s" % (pid, [x[1] for x in g])
        if g:
            line, val = g[0]
            if val in ("hang", "error"):
                return "future %d: %s" % (pid, "never became ready (destructor did not fulfil it)" if val == "hang" else "unexpected error")
            if expect is None:
                return "future %d yielded %s although nothing satisfied it" % (pid, val)
            if not once:
                continue
            if overlap or several:
                # calls made of several steps / sections of different mutexes that overlap: "the first deciding operation in
                # the order of the sections" is not well defined; require only that SOME operation that could decide the
                # value explains it
                cands = {str(a) for (_, _, kd, k2, a) in sections if (kd == "set" and k2 == key) or kd == "ful"}
                cands.add("0")
                if any(kd == "get" and k2 == key and j != si for j, (_, _, kd, k2, _a) in enumerate(sections)):
                    cands.add("broken")     # the key was requested again: the earlier promise is abandoned
                if val not in cands:
                    return "future %d (key %s:%s) yielded %s, no set / fulfil-all / destruction explains that value" % (
                        pid, key[0], key[1], val)
                continue
            if val != expect:
                return "future %d (key %s:%s) yielded %s, the rule says %s" % (pid, key[0], key[1], val, expect)
            if line < decided_at:
                return "future %d was ready before the operation that decides its value" % pid
        elif complete:
            return "future %d was never read" % pid
    for pid in gots:
        if pid not in handed:
            return "future %d read but its getFuture has no critical section" % pid
    # bookkeeping relative to the order of the sections: meaningless when calls consist of several steps / sections overlap
    return later[0] if (later and not overlap and not several) else None


def register(PROPS, COMPONENTS):
    COMPONENTS["dobj"] = dict(client="dobj", driver="dobj", tap=True, cov_headers=["gmlc/concurrency/DelayedObjects.hpp"], directed_runs=6, quick_runs=900, thorough_runs=30000,
                              oracle=oracle_dobj)
    PROPS["C18"] = dict(
        lean_files=["ConcVerif/Props/C18.lean"], components=["dobj"], stage="B",
        level_text="Lean 4 theorems (kernel-checked; unbounded threads, keys, calls and interleavings) over an executable model of "
                   "DelayedObjects.hpp with two layers: a sequential specification (one pure function per public method — "
                   "getFuture, setDelayedValue copy/move, fulfillAllPromises, isRecognized, isCompleted, finishedWithValue for int "
                   "and string keys, destructor — mirroring the code including its quirks) and a concurrent layer (every call is "
                   "one critical section of promiseLock; the specification is applied at the lock acquisition, the return must "
                   "carry its result, the critical section must perform exactly the set_value calls it prescribes, the maps are "
                   "touched only under the lock). Proved: no promise is ever the target of two set_value calls and the "
                   "specification is defined in every reachable state (no promise_already_satisfied can arise); after the "
                   "destructor every future whose key was not requested again is ready with a value and was set exactly once; "
                   "the value is that of the first later matching setDelayedValue, else fulfillAllPromises, else X{} at "
                   "destruction (value rule over the linearised history, for every reachable state); setDelayedValue on an "
                   "unknown or completed key changes nothing; isRecognized / isCompleted / finishedWithValue follow the life-cycle "
                   "automaton (pending -> completed -> forgotten, with the re-request quirk as a fourth phase); linearizability as "
                   "an inductive invariant (the ghost history in lock order replays through the specification with the recorded "
                   "results); mutual exclusion, idle threads hold nothing, the lock holder is always enabled, deadlock-freedom; "
                   "without any fairness assumption (Proof/DObjLive.lean, lexicographic form of Base/Live.lean; environment events = "
                   "call, tap observation, a consumer's observation of a ready future) C18_terminates: no infinite execution with "
                   "finitely many environment events, and C18_progress / C18_stuck_all_returned / C18_stuck_after_dtor_all_ready: a "
                   "state without enabled library step has every thread returned (and after the destructor every future ready). "
                   "The model is tied to the source on every run: the unmodified header, instantiated with a traced value type "
                   "(long and heap std::string payloads), runs against substituted std::mutex with a plain-access tap on the four "
                   "maps under a deterministic scheduler (consumers poll their futures with wait_for(0) + yield; a scheduling "
                   "point sits inside every set_value); every trace must be accepted by the model's step function with all 59 "
                   "model edges covered, and a python oracle restates the value rule on the raw order of critical sections.",
        level_note="Trusted: Lean kernel (+propext, Classical.choice, Quot.sound), std::promise / std::future / std::map (real "
                   "library, not modelled: a promise is a three-state cell unset / value / broken_promise), the primitive semantics "
                   "of std::mutex, shim + tap + scheduler + driver glue, the traced value type of the client. Partial: 'never hangs' "
                   "is proved as: after the destructor every future handed out is ready, every execution with finitely many calls "
                   "terminates under every scheduler with all threads returned (C18_terminates, C18_stuck_all_returned); a consumer "
                   "blocked inside future::get is not a thread state of the model (std::future is trusted), and starvation of one "
                   "caller by infinitely many calls of others under an unfair mutex is not excluded.",
        trusted_base=["Model/DObj.lean is a hand-written model of DelayedObjects.hpp (sequential specification + one critical section "
                      "per call)",
                      "std::promise / std::future / std::map are the real library and are trusted: set_value on an unset promise makes "
                      "the future ready with that value, on a satisfied one throws promise_already_satisfied, abandoning an unset "
                      "promise stores broken_promise",
                      "harness/clients/dobj.cpp: the traced value type TV<P> (its copy / move construction inside the library is "
                      "reported as the set_value event), the promise names chosen at call time, the final read of every future",
                      "Driver/DObj.lean maps string keys s<n> to Key.s n (canonical decimal, injective) and pld/pst on the four map "
                      "objects to the model's `acc` event"],
        partial=["'never hangs' is proved as a safety fact: after the destructor's critical section every future ever handed out is "
                 "ready (C18_never_hangs_partial), deadlock-freedom of the lock protocol (C18_deadlock_free, C18_holder_enabled, "
                 "C18_progress) and termination of every execution with finitely many calls under every scheduler (C18_terminates, "
                 "C18_stuck_all_returned); NOT proved: the wake-up of a consumer blocked inside std::future::get (std::future is "
                 "trusted, not modelled) and starvation-freedom of one caller when others call infinitely often (unfair mutex)",
                 "'requested once' is a hypothesis of C18_value / C18_exactly_once_destroyed, as in the property text: the code "
                 "abandons the pending promise when getFuture is called again for a pending key (the first future then reports "
                 "broken_promise); the model accepts this and C18_never_hangs_partial covers it (ready, not hanging)"],
        assumptions=["std::mutex behaves as an exclusive lock (Base semantics)",
                     "client obligations: the destructor runs when no other call is in progress and nothing is called afterwards; "
                     "every getFuture call creates a fresh promise (promise names are unique)",
                     "plain fields accessed only under the mutex are sequentially consistent cells (C07 carries the data-race half)"],
    )
