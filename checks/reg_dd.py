"""C16 — gmlc::concurrency::DelayedDestructor (component entry, trace oracle, property entry) and the
DelayedDestructor part of C20 (PARTS)."""


def events(run):
    for l in run["trace"]:
        t = l.split()
        yield int(t[0]), t[1:]


DESTROY = ("destroy", "destroyd", "dtor")


def oracle_dd(run):
    """C16 on the raw trace, independent of the Lean model's frames.
    (1) every object's destructor starts at most once, and exactly once by the end of the run (container destroyed,
        all script references dropped);
    (2) no destructor start / callback for k while the script holds a reference to k;
    (3) no destructor / callback event of a thread between its acquisition and release of destructionLock;
    (4) callback installed: at most one callback per object unless the callback re-added it; an object destroyed by a
        destroyObjects call that did not throw had its callback before;
    (5) sizes: size() returns the vector length at its critical section; destroyObjects returns -1 only when one of the call's
        acquisition attempts failed, otherwise a length the vector had at one of the call's own critical sections."""
    evs = list(events(run))
    if not evs or evs[0][1][0] != "cfg":
        return None
    cfg = evs[0][1]
    cb = cfg[3] == "1"
    single = cfg[2] != "1"   # DelayedDestructorSingleThread: no lock events; a "critical section" is the silent code
                             # right after call destroy* / slp / yld of the calling thread
    nshared, nthreads = int(cfg[4]), int(cfg[5])
    held = {k: nthreads for k in range(nshared)}     # script-held references
    made = set(range(nshared)) if nthreads else set()
    pdt = {}
    locked = {}
    ncb = {}
    readd = set()
    stack = {}      # tid -> list of frames (dict)
    removed = {}    # index of the mul that closed a critical section -> set of objects it took out of the vector
    prev = {}       # tid -> previous event of that thread
    # ---- pass 1: life cycle, lock, callbacks; attribute removals to critical sections
    for i, (tid, t) in enumerate(evs):
        k = t[0]
        st = stack.setdefault(tid, [])
        top = st[-1] if st else None
        if k == "new":
            o = int(t[1]); made.add(o); held[o] = held.get(o, 0) + 1
        elif k == "dup":
            held[int(t[1])] += 1
        elif k == "drop":
            held[int(t[1])] -= 1
        elif k == "call":
            if t[1] == "addm":
                held[int(t[2])] -= 1
            st.append(dict(op=t[1], cs=(i if single and t[1] in DESTROY else None), thrown=False, first=None, lens=[]))
        elif k == "ret":
            if not st or st[-1]["op"] != t[1]:
                return "ret %s does not match the thread's innermost call" % t[1]
            st.pop()
        elif k in ("mlk", "mtf", "mtl"):
            ok = k == "mlk" or t[2] == "1"
            if top is not None and top.get("first") is None:
                top["first"] = ok
            if ok:
                if locked.get(tid):
                    return "thread %d acquired destructionLock twice" % tid
                locked[tid] = True
        elif k == "mul":
            locked[tid] = False
            if top is not None:
                top["cs"] = i
        elif single and k in ("slp", "yld") and top is not None:
            top["cs"] = i
        elif k in ("ucb", "pdt"):
            o = int(t[1])
            if locked.get(tid):
                return "%s %d while thread %d holds destructionLock" % ("callback for" if k == "ucb" else "destructor of", o, tid)
            if held.get(o, 0) > 0:
                return "%s %d while the script still holds %d reference(s)" % ("callback for" if k == "ucb" else "destructor of", o, held[o])
            user_drop = prev.get(tid) == ["drop", t[1]]
            if top is not None and top.get("op") in DESTROY and top["cs"] is not None and not user_drop and top["op"] != "dtor":
                removed.setdefault(top["cs"], set()).add(o)
            if k == "ucb":
                ncb[o] = ncb.get(o, 0) + 1
                if ncb[o] > 1 and o not in readd:
                    return "callback ran %d times for object %d" % (ncb[o], o)
                readd.discard(o)
            else:
                pdt[o] = pdt.get(o, 0) + 1
                if pdt[o] > 1:
                    return "object %d destroyed twice" % o
                if cb and top is not None and top.get("op") in ("destroy", "destroyd") and not user_drop \
                        and not top["thrown"] and ncb.get(o, 0) == 0:
                    return "object %d reaped by destroyObjects without its callback" % o
            st.append(dict(op=k, obj=o))
        elif k in ("uce", "uth", "pde"):
            if locked.get(tid):
                return "%s event while thread %d holds destructionLock" % (k, tid)
            if not st or st[-1].get("op") != ("pdt" if k == "pde" else "ucb"):
                return "%s without matching begin" % k
            st.pop()
            if k == "uth" and st:
                st[-1]["thrown"] = True
        elif k == "end":
            for o in made:
                if pdt.get(o, 0) != 1:
                    return "object %d destroyed %d times by the end of the run" % (o, pdt.get(o, 0))
        if k == "call" and t[1] == "add" and len(st) >= 2 and st[-2].get("op") == "ucb" and st[-2]["obj"] == int(t[2]):
            readd.add(int(t[2]))
        prev[tid] = t
    # ---- pass 2: vector length
    L = 0
    stack = {}
    for i, (tid, t) in enumerate(evs):
        k = t[0]
        st = stack.setdefault(tid, [])
        if single and i in removed:
            L -= len(removed[i])
        if k == "call":
            if t[1] == "dtor":
                break
            st.append(dict(op=t[1], lens=[], first=None, got=False))
            if single:
                if t[1] in ("add", "addm"):
                    L += 1
                st[-1]["lens"].append(L)
                st[-1]["first"] = True
                st[-1]["got"] = True
        elif k in ("ucb", "pdt"):
            st.append(dict(op=k, lens=[], first=None, got=False))
        elif k in ("uce", "uth", "pde"):
            st.pop()
        elif k in ("mlk", "mtf", "mtl") and st:
            ok = k == "mlk" or t[2] == "1"
            if st[-1]["first"] is None:
                st[-1]["first"] = ok
            if ok:
                st[-1]["got"] = True
            else:
                st[-1]["failed"] = True
            if ok and st[-1]["op"] in ("add", "addm"):
                L += 1
        elif k == "mul":
            L -= len(removed.get(i, ()))
            if st:
                st[-1]["lens"].append(L)
        elif single and k == "slp" and st:
            st[-1]["lens"].append(L)
        elif k == "ret":
            f = st.pop()
            if single:
                f["lens"].append(L)
                if t[1] == "size":
                    f["lens"] = [L]
            if t[1] == "size" and [int(t[2])] != f["lens"][-1:]:
                return "size() returned %s, vector length at its critical section was %s" % (t[2], f["lens"][-1:])
            if t[1] in ("destroy", "destroyd"):
                n = int(t[2])
                # size_t(-1) means "gave up waiting for the lock": it needs an acquisition attempt of this call that failed, and
                # a call whose every attempt succeeded never returns it (which attempt failed is the implementation's business)
                if n == -1 and not f.get("failed") and not single:
                    return "%s returned -1 although none of its acquisition attempts failed" % t[1]
                if n != -1 and n not in f["lens"]:
                    return "%s returned %d, vector lengths at its critical sections were %s" % (t[1], n, f["lens"])
    return None


DD_TRUST = ["Model/DD.lean is a hand-written model of DelayedDestructor.hpp (addObjectsToBeDestroyed, size, destroyObjects(), "
            "destroyObjects(delay), ~DelayedDestructor) with a per-thread frame stack for re-entrant calls",
            "std::shared_ptr reference counting is trusted and represented by the model's reference ledger (external copies + "
            "vector entries + ecall entries); an object's destructor starts exactly when the ledger reaches zero",
            "harness/clients/dd.cpp: payload type with traced destructor, traced callback, script-side reference table"]
DD_ASSUME = ["std::timed_mutex behaves as the acquire/release semantics of the model; try_lock_for may time out at any moment",
             "client obligations: the container's destructor runs while no thread is inside a call; no call after it started "
             "(except re-entrant ones from callbacks it runs); a payload destructor does not call the container while the "
             "vector member is being destroyed; nobody holds weak_ptr / raw references that could revive an unowned object",
             "code between two scheduling points of one thread (scan / remove_if / erase under the lock, the release loop of "
             "ecall.clear()) is executed atomically with the preceding event; a scan racing with the last external owner is "
             "covered in the model by the `skip` parameter of the acquisition event (theorems hold for every skip list)",
             "a handle is identified with its control block: alias handles (same address, own control block - aliasing "
             "constructor) are objects of their own for the container, and the client exercises them (op l<k>o<j>); the alias "
             "handle itself is never dereferenced"]


DD_TIE = (" The model is tied to the source on every run: the unmodified header runs against substituted std primitives under a "
          "deterministic scheduler with a payload type whose destructor and callback are traced and may re-enter the container "
          "(add / size / destroyObjects), scripts with shared ownership, duplicates of one pointer, throwing and resurrecting "
          "callbacks, time-outs at every try_lock_for site, the delayed overload and the destructor's retry loop; every trace "
          "must be accepted by the model's step function with all model edges covered. DelayedDestructorSingleThread runs "
          "through the same model (the driver inserts the uncontended lock events that class omits).")


def register(PROPS, COMPONENTS):
    COMPONENTS["dd"] = dict(client="dd", driver="dd", directed_runs=6, quick_runs=1600, thorough_runs=40000, oracle=oracle_dd,
                            cov_headers=["gmlc/concurrency/DelayedDestructor.hpp"],
                            # the catch (...) of the two destructors is dead code: everything inside their try blocks is
                            # noexcept (destroyObjects) or cannot throw (yield, sleep_for).  The catch (...) of
                            # destroyObjects has the same text; it is exercised by the `uth` model edges, which are mandatory.
                            cov_allow=[r"^\s*catch \(\.\.\.\) \{$"])
    PROPS["C16"] = dict(
        lean_files=["ConcVerif/Props/C16.lean"], components=["dd"], stage="A",
        level_text="Lean 4 theorems (kernel-checked; unbounded threads, objects, calls, interleavings, lock time-outs, re-entrant "
                   "callbacks and payload destructors as a per-thread frame stack) over an executable model of "
                   "DelayedDestructor.hpp at the level of its timed-mutex operations, payload life-cycle events and callback "
                   "invocations, with an explicit reference ledger (external copies + vector entries + ecall entries): no "
                   "destructor starts twice (C16_once, C16_once_step); when the container's destructor has emptied the vector, all "
                   "threads are idle and an object's external owners are gone, that object has been destroyed exactly once "
                   "(C16_once_final, C16_dtor_returns_empty, C16_dtor_done_stays_empty, C16_no_leak); a destructor starts only when "
                   "no external copy, vector entry or ecall entry references the object (C16_not_while_owned); at every destructor / "
                   "callback event, and during the whole user code, the thread does not hold destructionLock, a thread about to "
                   "acquire never holds it, the holder can always release, re-entrant calls are accepted and their acquisitions "
                   "enabled (C16_outside_lock, C16_user_code_unlocked, C16_no_self_deadlock, C16_holder_enabled, "
                   "C16_reentrant_enabled, C16_acquire_enabled); callbacks of one call run over its ecall vector front to back once "
                   "each and every object still to be destroyed by a non-throwing call had its callback exactly once, before any of "
                   "them is destroyed (C16_callback_once, C16_callback_once_dying, C16_callback_order, C16_callback_before_destruction); with multiplicity "
                   "every push_back is in the vector, was reaped by a selection, or released by the vector's destructor, selections "
                   "take only objects whose use_count is 1, and returned sizes are the vector's length at a critical section of the "
                   "call or the sentinel exactly on a first-attempt time-out (C16_accounting, C16_reap_only_unowned, C16_size_value, "
                   "C16_size_returned, C16_destroy_*). Liveness without any fairness assumption (Proof/DDLive.lean, shared-potential form "
                   "of Base/Live.lean; environment events = new/dup/drop and the five calls, at script level or inside a callback / "
                   "payload destructor): C16_terminates — no infinite execution with finitely many environment events (every library "
                   "step, time-outs, callback and destructor ends, sleeps and retry loops included, lowers 5|vec| + the summed frame "
                   "ranks); C16_thread_cases / C16_progress / C16_stuck_all_returned — every thread inside a call (nested re-entrant "
                   "ones included) has an enabled library step or waits in add / size for the lock held by another thread that can "
                   "release it, so a state without enabled library step has every stack empty; new invariants: stack grammar (Shape), "
                   "a critical-section frame on top implies holding the lock (HoldsL), the object of a dying frame is pending and no "
                   "two threads are about to destroy the same object (C16_dying_unique)." + DD_TIE,
        level_note="Trusted: Lean kernel (+propext, Classical.choice, Quot.sound), the primitive semantics of std::timed_mutex, "
                   "std::shared_ptr reference counting (represented by the ledger), shim + scheduler + driver glue. Model stage A "
                   "(the exact program), except that the scan of destroyObjects may skip selectable objects (`skip` parameter).",
        trusted_base=DD_TRUST, assumptions=DD_ASSUME,
        partial=["C16_callback_once is stated per destroyObjects call (per reap): an object whose callback re-adds it is reaped "
                 "again later and gets one callback per reap",
                 "the size recorded under the lock (`sz`) is carried in the call's frames; that it is unchanged from the first "
                 "critical section to the return is visible in the step function but not stated as a separate history theorem",
                 "deadlock-freedom of re-entrant calls and termination are proved for every scheduler for executions with finitely "
                 "many user decisions (C16_progress, C16_stuck_all_returned, C16_terminates), with one exception stated in the "
                 "theorems: an addObjectsToBeDestroyed(k) in flight while no external reference to k exists (`Unowned`: the model "
                 "counts external references per object, not per owner, so it cannot exclude a client dropping a reference it does "
                 "not own); NOT proved: that one particular caller is eventually served when other threads call infinitely often "
                 "(unfair mutex / scheduler)"],
    )


PARTS = {
    "C20": dict(lean_files=["ConcVerif/Props/C20_dd.lean"], components=["dd"], trusted_base=DD_TRUST, assumptions=DD_ASSUME,
                partial=[]),
}
