"""C09 — gmlc::concurrency::Barrier (component table entry, property entry, trace oracle)."""


def events(run):
    for l in run["trace"]:
        t = l.split()
        yield int(t[0]), t[1:]


def oracle_barrier(run):
    """Trace-level statement of C09, independent of the Lean model's pcs.

    Participants are the script's threads 1..N (config N); thread u takes part in generation n iff its
    script has at least n operations (a `drop` is its last one).  An arrival is observable as the first
    `mlk mtx` of a call (the arrival is counted inside that critical section).
      (1) when a thread returns from its n-th call, every participant of generation n has made its
          n-th arrival;
      (2) the generation counter written under the mutex never decreases.
    (No lost wake-up itself is the scheduler's deadlock monitor: generated scripts always terminate on
    a correct barrier.)"""
    parts = run["script"].split(";")
    try:
        n = int(parts[0])
    except ValueError:
        return None
    ops = {i + 1: [o for o in p.split(",") if o] for i, p in enumerate(parts[1:])}
    calls = {}      # tid -> number of calls started
    arrivals = {}   # tid -> number of calls in which the mutex was taken at least once
    locked_in_call = {}
    last_gen = 0
    for tid, t in events(run):
        k = t[0]
        if k == "call":
            calls[tid] = calls.get(tid, 0) + 1
            locked_in_call[tid] = False
        elif k == "mlk":   # the barrier has one mutex, whatever it is called in the tree under test
            if not locked_in_call.get(tid, True):
                locked_in_call[tid] = True
                arrivals[tid] = arrivals.get(tid, 0) + 1
        elif k in ("pld", "pst"):
            if k == "pst" and t[1] == "generation":
                g = int(t[3])
                if g < last_gen:
                    return "generation went back from %d to %d" % (last_gen, g)
                last_gen = g
        elif k == "ret":
            nth = calls.get(tid, 0)
            for u, uops in ops.items():
                if u <= n and len(uops) >= nth and arrivals.get(u, 0) < nth:
                    return "thread %d returned from its arrival #%d before participant %d made its arrival #%d" % (
                        tid, nth, u, nth)
    return None


def register(PROPS, COMPONENTS):
    COMPONENTS["barrier"] = dict(client="barrier", driver="barrier", tap=True, directed_runs=8, quick_runs=600,
                                 thorough_runs=30000, oracle=oracle_barrier, cov_headers=["gmlc/concurrency/Barrier.hpp"])
    PROPS["C09"] = dict(
        lean_files=["ConcVerif/Props/C09.lean"], components=["barrier"], stage="B",
        level_text="Lean 4 theorems (kernel-checked; any number of participants, generations, interleavings, any subset dropping "
                   "at any generation, spurious wake-ups as ordinary events) over an executable model of Barrier.hpp at the level of "
                   "its mutex / condition-variable operations and its three plain fields: a thread returns from its n-th arrival "
                   "only when every current participant has arrived n times (n also read off the trace as the number of calls the thread "
                   "has made: C09_arrivals_are_calls, C09_return_sound_calls); a generation is released exactly by the arrival of "
                   "the last pending participant; no waiter of a released generation is left in the wait set; wait_and_drop is an "
                   "arrival of the current generation and lowers the arrivals needed by every later generation by one; lapping "
                   "threads cannot release / be released by the wrong generation; L2-L4 (holder never blocked, bounded remaining "
                   "steps after release, enabledness / deadlock-freedom). The model is tied to the source on every run: the "
                   "unmodified header runs against substituted std primitives with a plain-access tap under a deterministic "
                   "scheduler and every primitive-level trace must be accepted by the model's step function with all edges covered.",
        level_note="Trusted: Lean kernel (+propext, Classical.choice, Quot.sound), the primitive semantics assumed for std::mutex / "
                   "condition_variable, the shim+tap+scheduler+driver glue. Liveness is proved without a fairness assumption for executions with "
                   "finitely many calls / spurious wake-ups (deadlock-freedom relative to owed arrivals + strictly decreasing rank); "
                   "starvation under an unfair mutex with infinitely many calls is not covered.",
        trusted_base=["Model/Barrier.lean is a hand-written model of Barrier.hpp (wait / wait_and_drop)",
                      "Driver/Barrier.lean rebuilds the values of threshold_/count_/generation_ from the tap's pld/pst lines and "
                      "attaches them to the mutex-release events (cwt, mul) where the model compares them with its own fields",
                      "between two primitive operations the real code performs finitely many plain accesses (straight-line code); "
                      "the model does not bound their number"],
        partial=["'when the last one arrives all of them are released' is proved as: the safety facts L1-L4 (no lost wake-up, holder "
                 "never blocked, bounded remaining own steps of every released thread, enabledness), C09_terminates / "
                 "C09_bounded_run (every execution with finitely many calls, spurious wake-ups and plain accesses is finite under "
                 "EVERY scheduler: ranking function, Base/Live.lean) and C09_stuck_owes_arrival (a state without an enabled "
                 "protocol step has everybody returned or waiting for an arrival the client still owes). Not covered: starvation "
                 "of one thread by infinitely many calls of others under an unfair mutex (C++ promises no fairness)"],
        assumptions=["std::mutex / std::condition_variable behave as in Base semantics (spurious wake-ups allowed)",
                     "size_t wrap-around is not modelled: Barrier(n) with n >= 1 participants, exactly the current participants call "
                     "(nobody over-arrives, nobody calls after wait_and_drop), fewer than 2^64 generations",
                     "plain fields accessed only under the mutex are sequentially consistent cells (C07 carries the data-race half)"],
    )
