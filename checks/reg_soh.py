"""SearchableObjectHolder: component entries (plain build and ASan/UBSan build of the same client), the trace-level
oracle (a python reference std::map model + lock bracket + object-lifetime checks), property entry C17 and the
SearchableObjectHolder part of C20."""


def events(run):
    for l in run["trace"]:
        t = l.split()
        yield int(t[0]), t[1:]


def _pred(p):
    if p == "T":
        return lambda k: True
    if p == "F":
        return lambda k: False
    want = int(p[1:])
    return lambda k: k == want


def _scan(objs, pred, thr, ok):
    """key-order scan; returns (outcome, invoked ids); outcome = ('found', name, id) | ('none',) | ('threw',)"""
    calls = []
    for n in sorted(objs):
        k = objs[n]
        calls.append(k)
        if thr != 0 and len(calls) == thr:
            return ("threw",), calls
        if pred(k) and ok(n):
            return ("found", n, k), calls
    return ("none",), calls


def _ref(objs, tags, f):
    """reference semantics of one call on (objs: name->id, tags: name->list); returns (result text | 'threw',
    ids handed to the caller, predicate invocations)"""
    op = f[0]
    b = lambda x: "true" if x else "false"
    if op in ("add", "addt"):
        n, k = f[1], int(f[2])
        if n in objs:
            return "false", [], []
        objs[n] = k
        if op == "addt":
            tags.setdefault(n, [int(f[3])])
        return "true", [], []
    if op == "aty":
        tags.setdefault(f[1], []).append(int(f[2]))
        return "()", [], []
    if op == "emp":
        return b(not objs), [], []
    if op == "get":
        ids = [objs[n] for n in sorted(objs)]
        return "[" + ",".join(str(i) for i in ids) + "]", ids, []
    if op == "rm":
        if f[1] in objs:
            del objs[f[1]]
            tags.pop(f[1], None)
            return "true", [], []
        return "false", [], []
    if op == "cp":
        a, c = f[1], f[2]
        if a in objs and c not in objs:
            objs[c] = objs[a]
            if a in tags:
                tags.setdefault(c, list(tags[a]))
            return "true", [], []
        return "false", [], []
    if op == "chk":
        return b(int(f[2]) in tags.get(f[1], [])), [], []
    if op == "find":
        if f[1] in objs:
            return str(objs[f[1]]), [objs[f[1]]], []
        return "null", [], []
    if op in ("rp", "fp", "fpt"):
        ok = (lambda n: True) if op != "fpt" else (lambda n: int(f[3]) in tags.get(n, []))
        out, calls = _scan(objs, _pred(f[1]), int(f[2]), ok)
        if out[0] == "threw":
            return "threw", [], calls
        if op == "rp":
            if out[0] == "found":
                del objs[out[1]]
                tags.pop(out[1], None)
                return "true", [], calls
            return "false", [], calls
        if out[0] == "found":
            return str(out[2]), [out[2]], calls
        return "null", [], calls
    return None, [], []


def _oracle_soh_pass(run, hist, multi):
    """C17 on the raw trace, independent of the Lean model:
    * every call is exactly one bracket of mapLock, brackets of different threads never overlap, nothing is held at return;
    * taking the calls in the order of their lock acquisitions, every result equals the result of a reference
      std::map model (python dicts), an exception is raised exactly when the reference says the predicate throws, and
      the predicate is invoked on exactly the objects of the reference scan;
    * an object is destroyed only when no map entry and no caller-held reference refers to it; nothing destroyed is
      ever returned or destroyed twice."""
    objs, tags = {}, {}
    owner = None
    shared = set()
    cur = {}
    held = {}
    dead = set()
    soft = []          # result mismatches w.r.t. "linearised at the (first) lock acquisition"
    hist_clock = []    # one entry per call / return, in trace order (real-time order of the history)
    for tid, t in events(run):
        k = t[0]
        if k == "call":
            cur[tid] = dict(f=t[1:], locks=0, unlocks=0, exp=None, calls=[], seen=[], start=len(hist_clock))
            hist_clock.append(0)
            if t[1] in ("add", "addt"):
                held.setdefault(tid, []).append(int(t[3]))
        elif k in ("mlk", "slk"):
            # slk: a shared acquisition (a tree whose mapLock is a shared mutex): readers may overlap each other, never a writer
            if owner is not None or (k == "mlk" and shared):
                return "mapLock granted to %d while %s holds it" % (tid, owner if owner is not None else sorted(shared))
            if k == "mlk":
                owner = tid
            else:
                shared.add(tid)
            c = cur.get(tid)
            if c is None:
                return "thread %d locked mapLock outside any call" % tid
            c["locks"] += 1
            if c.get("teardown"):
                return "the destructor locked mapLock again after it began destroying the stored objects"
            if c["f"][0] != "dtor":
                if c["locks"] > 1:
                    # a call made of several critical sections: not by itself a failure of "behaves as an atomic map";
                    # the results decide (linearisability search in oracle_soh)
                    multi.append("%s locked mapLock twice" % " ".join(c["f"]))
                    continue
                if c["f"][0] in ("add", "addt"):
                    held[tid].remove(int(c["f"][2]))
                exp, ids, calls = _ref(objs, tags, c["f"])
                c["exp"], c["calls"] = exp, calls
                # (the references a caller holds are taken from what the call ACTUALLY returned, at its return)
        elif k in ("mul", "sul"):
            if (k == "mul" and owner != tid) or (k == "sul" and tid not in shared):
                return "thread %d released mapLock it does not hold" % tid
            if k == "mul":
                owner = None
            else:
                shared.discard(tid)
            cur[tid]["unlocks"] += 1
        elif k == "pcl":
            c = cur.get(tid)
            if c is None:
                return "predicate invoked by %d outside any call" % tid
            if owner != tid and tid not in shared:
                # user code running outside the lock is not by itself a failure of "behaves as an atomic map": the call then
                # consists of several steps and its results are judged by the linearisability search
                multi.append("%s invoked the predicate outside its critical section" % " ".join(c["f"]))
            c["seen"].append(int(t[1]))
        elif k in ("ret", "exc"):
            c = cur.pop(tid, None)
            if c is None:
                return "return without call"
            what = " ".join(c["f"])
            if owner == tid or tid in shared:
                return "%s returned still holding mapLock" % what
            if c["f"][0] == "dtor":
                objs.clear()
                tags.clear()
                continue
            got = "threw" if k == "exc" else t[3]
            hist.append(dict(tid=tid, f=c["f"], got=got, start=c["start"], end=len(hist_clock)))
            hist_clock.append(1)
            if c["locks"] != c["unlocks"]:
                return "%s: %d acquisitions / %d releases of mapLock" % (what, c["locks"], c["unlocks"])
            if c["locks"] == 0:
                return "%s never took mapLock" % what
            if got != c["exp"]:
                soft.append("%s returned %s, the reference map model gives %s" % (what, got, c["exp"]))
            elif c["seen"] != c["calls"] and c["locks"] == 1:
                soft.append("%s invoked the predicate on %s, key-order scan gives %s" % (what, c["seen"], c["calls"]))
            if k == "ret" and t[3] not in ("true", "false", "()", "null"):
                ids = [int(x) for x in t[3].strip("[]").split(",") if x]
                for i in ids:
                    if i in dead:
                        return "%s returned object %d, which was already destroyed" % (what, i)
                held.setdefault(tid, []).extend(ids)
        elif k == "rel":
            i = int(t[1])
            if i in dead:
                return "thread %d still held object %d, which was already destroyed" % (tid, i)
            if i in held.get(tid, []):
                held[tid].remove(i)
        elif k == "mac":
            c = cur.get(tid)
            teardown = c is not None and c["f"][0] == "dtor" and c["unlocks"] > 0 and c["locks"] == c["unlocks"]
            write = len(t) < 3 or t[2] != "r"
            if not teardown:
                if owner != tid and tid not in shared:
                    return "thread %d accessed %s without holding mapLock" % (tid, t[1])
                if write and owner != tid:
                    return "thread %d WROTE %s while holding mapLock only shared (other readers may be inside)" % (tid, t[1])
        elif k == "pdt":
            i = int(t[1])
            if i in dead:
                return "object %d destroyed twice" % i
            if i in objs.values():
                c = cur.get(tid)
                if c is not None and c["f"][0] == "dtor" and owner != tid and c["unlocks"] > 0:
                    # the destructor has made its last release: the maps themselves are being torn down
                    c["teardown"] = True
                    for n in [n for n in objs if objs[n] == i]:
                        del objs[n]
                        tags.pop(n, None)
                else:
                    # relative to the reference order of the calls: decided with the results when some call has several steps
                    soft.append("object %d destroyed while still stored in the holder" % i)
            for u, l in held.items():
                if i in l:
                    return "object %d destroyed while thread %d holds a reference to it" % (i, u)
            dead.add(i)
    return ("soft", soft[0]) if soft else None


def _linearisable(hist):
    """is there a total order of the completed calls, consistent with real time (a call that returned before another was
    invoked comes first), in which the reference map model gives every observed result?"""
    import copy
    n = len(hist)
    if n > 40:
        return True     # out of reach for the search: do not claim a failure
    seen_states = set()

    def key(done, objs, tags):
        return (done, tuple(sorted(objs.items())), tuple(sorted((k, tuple(v)) for k, v in tags.items())))

    def go(done, objs, tags):
        if len(done) == n:
            return True
        kk = key(done, objs, tags)
        if kk in seen_states:
            return False
        seen_states.add(kk)
        pending = [i for i in range(n) if i not in done]
        first_end = min(hist[i]["end"] for i in pending)
        for i in pending:
            if hist[i]["start"] > first_end:
                continue        # some pending call returned before this one was invoked
            o2, t2 = dict(objs), {k: list(v) for k, v in tags.items()}
            if hist[i]["f"][0] == "dtor":
                o2.clear()
                t2.clear()
                exp = hist[i]["got"]
            else:
                exp = _ref(o2, t2, hist[i]["f"])[0]
            if exp == hist[i]["got"] and go(done | frozenset([i]), o2, t2):
                return True
        return False

    return go(frozenset(), {}, {})


def oracle_soh(run):
    """C17 on the raw trace, independent of the Lean model (see _oracle_soh_pass).  Calls made of ONE critical section are
    linearised at their lock acquisition and compared with the reference map at once.  When some call consists of several
    critical sections the result complaints are decided by a search for ANY linearisation of the observed results."""
    hist, multi = [], []
    r = _oracle_soh_pass(run, hist, multi)
    if r is None:
        return None
    if not (isinstance(r, tuple) and r[0] == "soft"):
        return r
    if not multi:
        return r[1]
    if _linearisable(hist):
        return None
    return "%s; %s — and no order of the completed calls explains the observed results (not an atomic map)" % (multi[0], r[1])


SOH_TRUST = ["Model/SOH.lean is a hand-written model of SearchableObjectHolder.hpp: sequential specification over two sorted "
             "association lists + one-critical-section-per-call concurrent layer + ghost reference ledger",
             "std::map / std::vector / std::string / std::function / std::shared_ptr are not modelled: their behaviour is what the "
             "specification assumes of a sorted unique-key map and of reference counting (checked on every run by trace acceptance "
             "and by the ASan/UBSan build, not proved)",
             "harness/clients/soh.cpp: traced payload (destructor event), predicate functor (invocation events, scheduling "
             "points, fault injection), type tag whose comparison is a scheduling point, caller-side reference bookkeeping, "
             "plain-access tap on objectMap / typeMap and on their tree nodes (nodes are recognised by their allocation size "
             "while the allocating thread is inside a holder call); accesses made inside libstdc++.so (tree rebalancing, "
             "iterator increment) and by memcmp on the keys are not seen by the tap"]
SOH_ASSUME = ["std::mutex behaves as the acquire/release semantics of the model",
              "object ids given to addObject are fresh (client obligation, checked by the model)",
              "no call is started after the holder's destructor has finished (client obligation, checked by the model); calls "
              "racing with the destructor's wait loop are allowed and covered",
              "user predicates terminate; whether and when they throw is arbitrary (every invocation index is covered)"]
SOH_TIE = (" The model is tied to the source on every run: the unmodified header runs against substituted std::mutex / yield / "
           "sleep_for under a deterministic scheduler (1 thread with long random op streams incl. duplicate / missing / "
           "malformed sequences; 2-4 threads colliding on a 3-4 name x 3 type domain; destructor racing with the last calls; "
           "predicates id==k / always / never / throwing at the j-th invocation, each invocation a scheduling point inside the "
           "critical section) and every trace must be accepted by the model's step function, i.e. every result, every predicate "
           "invocation, every payload destruction and every plain access to the two std::map objects and their tree nodes "
           "(plain-access tap) must be exactly what the specification, the ledger and the lock discipline allow, with all 61 "
           "model edges covered (58 in the sanitizer build, which has no tap) and every line / member function of the header "
           "executed. The same runs are repeated on an ASan+UBSan build of the client.")


def register(PROPS, COMPONENTS):
    COMPONENTS["soh"] = dict(client="soh", driver="soh", tap=True, cov_headers=["gmlc/concurrency/SearchableObjectHolder.hpp"], directed_runs=4, quick_runs=4000, thorough_runs=60000,
                             oracle=oracle_soh)
    COMPONENTS["soh-asan"] = dict(client="soh", driver="soh-notap", directed_runs=3, quick_runs=2000, thorough_runs=30000,
                                  oracle=oracle_soh,
                                  flags=("-fsanitize=address,undefined", "-fno-sanitize-recover=all", "-fno-omit-frame-pointer"))
    PROPS["C17"] = dict(
        lean_files=["ConcVerif/Props/C17.lean"], components=["soh", "soh-asan"], stage="A",
        level_text="Lean 4 theorems (kernel-checked). (1) Map semantics of the sequential specification, for every well-formed "
                   "state and every argument: addObject refuses duplicates without replacing; fresh add / add-then-find; "
                   "findObject / getObjects / empty return exactly what is stored (key order); predicate forms return / remove "
                   "exactly the first match in key order (with the type filter), one entry only, together with its tags; "
                   "copyObject aliases the same object id and copies the tags, refused if the source is missing or the target "
                   "exists; removeObject(name); checkObjectType; addType; sortedness / key uniqueness preserved by every "
                   "operation. (2) For EVERY concurrent execution (unbounded threads, calls, interleavings, throwing "
                   "predicates): the calls in the order of their mapLock acquisitions replay through the specification with "
                   "exactly the results the callers received and end in the current maps (linearizability as an inductive "
                   "invariant); the linearisation point lies between call and return; the history is append-only; only the "
                   "linearisation step changes the maps; mutual exclusion; the lock is held exactly inside critical sections "
                   "(never leaked); every accepted plain access to the maps is made by the lock holder, so two threads are "
                   "never both in a position to touch them (data-race-freedom of the maps); the holder is never blocked and "
                   "its critical section is bounded; deadlock-freedom; and, without any fairness assumption (Proof/SOHLive.lean, "
                   "lexicographic form of Base/Live.lean; environment events = call, callD, rel, the payload destructor, the tap "
                   "observation), C17_terminates: no infinite execution with finitely many environment events (two-level rank: not "
                   "yet inside mapLock, then pending predicate invocations + 3 — fixed by the map at the lock acquisition, "
                   "C17_cs_work_fixed_at_lock — and 3(7-c)+.. for the destructor's retry loop), and C17_progress / "
                   "C17_stuck_all_returned: a state without enabled library step has every thread returned (except calls that "
                   "raced with the completed destructor), so every maximal execution with finitely many calls ends with "
                   "everybody returned. "
                   "(3) Reference ledger: the payload destructor is accepted only when no map entry and no caller-held "
                   "reference refers to the object, hence in every reachable state every stored or caller-held object is "
                   "alive, a returned object is owned by the caller from the linearisation point until its own release "
                   "whatever other threads remove meanwhile, and a destroyed object is never returned." + SOH_TIE,
        level_note="Trusted: Lean kernel (+propext, Classical.choice, Quot.sound), primitive semantics of std::mutex, shim + "
                   "scheduler + driver glue, shared_ptr counting (observed through the payload destructor, checked against the "
                   "ledger on every run). PARTIAL: the clause 'every operation is memory-safe for every sequence of calls' is "
                   "about node lifetimes inside std::map, which the specification does not represent: it is covered by "
                   "EXPLORATION only (ASan+UBSan build of the same directed + random runs, a sanitizer abort being a concrete "
                   "failing input), not by proof.",
        trusted_base=SOH_TRUST, assumptions=SOH_ASSUME,
        partial=["'Every operation is memory-safe for every sequence of calls' (lifetimes of std::map nodes / iterators inside "
                 "the class) is NOT proved: the specification has no notion of node memory. It is covered by exploration only: "
                 "component soh-asan runs the same directed and random scripts on an ASan+UBSan build; a sanitizer report or a "
                 "crash is reported as a concrete failing input (script, seed, schedule, trace up to the abort)",
                 "termination is proved for every scheduler for executions with finitely many calls (C17_terminates, "
                 "C17_stuck_all_returned); NOT proved: that one particular caller is eventually served when other threads make "
                 "infinitely many calls (starvation under an unfair std::mutex / scheduler; C++ gives no fairness)",
                 "only the default build (no ENABLE_TRIPWIRE) is modelled and built"],
    )


PARTS = {
    "C20": dict(
        lean_files=["ConcVerif/Props/C20_soh.lean"], components=["soh"],
        trusted_base=["SearchableObjectHolder part: Model/SOH.lean, where the predicate of removeObject(pred) / findObject(pred) / "
                      "findObject(pred, type) may throw at any invocation index; harness/clients/soh.cpp injects the throw"],
        assumptions=[], partial=[]),
}
