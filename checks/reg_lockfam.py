"""Lock-based wrappers (guarded, guarded_opt, shared_guarded, shared_guarded_opt, ordered_guarded, atomic_guarded):
component entry, trace-level oracles, property entries C01 / C02 / C08 / C15 / C20(lock part)."""


def events(run):
    for l in run["trace"]:
        t = l.split()
        yield int(t[0]), t[1:]


def cur_shared_default(op):
    """whole-object read operations of ordered_guarded (read / load / operator T) use the shared side"""
    return False   # only handle sessions announce their side (acq S ...); whole-object ops are not constrained here


def oracle_lockfam(run):
    """Property-level checks on the raw trace, independent of the Lean model's pcs.
    C01/C02: every payload access happens while the accessing thread holds the wrapper's mutex in an adequate mode and no
             other thread holds a conflicting mode; reads return the last written value; the final value is not torn.
    C08:     bool(handle) after an acquisition == outcome of its lock event (always true when locking is disabled);
             bool(handle) after unlock() is false; per operation, releases == successful acquisitions.
    C15:     results of whole-object operations follow register semantics w.r.t. the values read/written in their bracket."""
    enabled = True
    capable = False
    want_shared = {}   # tid -> the current handle session asked for the shared side
    mode = {}          # tid -> None | 'X' | 'S'
    last_ok = {}       # tid -> outcome of the last lock event in the current op
    acq = {}
    rel = {}
    val = 0
    cur = {}           # tid -> current op text
    seen = {}
    brk = {}           # tid -> index into seen[tid] at which the current critical section began
    pre = {}           # tid -> register value immediately before the op's (last) write
    reg_rev = 0        # identity tag (vpay::Pay::rev) of the value in the register
    pre_rev = {}       # tid -> tag of the value the op's (last) write replaced
    read_rev = {}      # tid -> tag of the register at the op's last read
    res_rev = {}       # tid -> tag of the value the op handed back
    for tid, t in events(run):
        k = t[0]
        if k == "cfg":
            enabled = t[4] == "1"
            capable = t[3] in ("sm", "stm")
        elif k == "acq":
            want_shared[tid] = (t[1] == "S")
        elif k == "call":
            want_shared[tid] = cur_shared_default(t[1])
            cur[tid] = t[1]
            last_ok[tid] = None
            acq[tid] = 0
            rel[tid] = 0
            seen[tid] = []
            brk[tid] = 0
            pre[tid] = None
            pre_rev[tid] = read_rev[tid] = res_rev[tid] = None
        elif k in ("mlk", "slk", "mtl", "mtf", "stl", "stf"):
            ok = True if k in ("mlk", "slk") else t[2] == "1"
            if enabled and capable and want_shared.get(tid) and k[0] == "m":
                # C02: "with a shared-capable mutex two readers can hold shared handles at the same time"
                return ("shared access (%s) took the mutex EXCLUSIVELY (%s) although the mutex type is shared-capable: "
                        "two readers can no longer hold handles at the same time" % (cur.get(tid), k))
            if not enabled:
                # C08: with locking disabled an acquisition "never waits for other holders"
                holders = [u for u, mu in mode.items() if u != tid and mu]
                if not ok:
                    return ("locking is disabled but thread %d's acquisition waited on the mutex and gave up (%s failed while "
                            "%s held it)" % (tid, k, holders))
                if holders and k in ("mlk", "slk"):
                    return "locking is disabled but thread %d blocks on the mutex held by %s" % (tid, holders)
            last_ok[tid] = ok
            if ok:
                m = "X" if k[0] == "m" else "S"
                if mode.get(tid):
                    return "thread %d acquired the mutex while already holding it" % tid
                for u, mu in mode.items():
                    if u != tid and mu and (m == "X" or mu == "X"):
                        return "mutex granted to %d (%s) while %d holds %s" % (tid, m, u, mu)
                mode[tid] = m
                acq[tid] = acq.get(tid, 0) + 1
                brk[tid] = len(seen.get(tid, []))     # accesses of the op made before this critical section
        elif k in ("mul", "sul"):
            if not mode.get(tid):
                return "thread %d released a mutex it does not hold" % tid
            mode[tid] = None
            rel[tid] = rel.get(tid, 0) + 1
        elif k == "got":
            nn = t[2] == "1"
            if enabled:
                if last_ok.get(tid) is None:
                    return "acquisition returned a handle without any lock operation (locking enabled)"
                if nn != last_ok[tid]:
                    return "handle is %s although the lock was %s" % ("non-null" if nn else "null", "obtained" if last_ok[tid] else "not obtained")
            elif not nn:
                return "locking disabled but the acquisition returned a null handle"
        elif k == "hfree":
            if enabled and mode.get(tid):
                return ("leaked lock: thread %d still holds the mutex (%s) although every handle that could own it has been "
                        "destroyed, unlock()-ed, moved from or assigned over" % (tid, mode.get(tid)))
        elif k == "he" and len(t) > 1:
            if t[1] != "0":
                return "handle still non-null after unlock()"
        elif k in ("prd", "pwr") and enabled:
            m = mode.get(tid)
            if not m:
                return "thread %d %s the wrapped object without holding the lock" % (tid, "read" if k == "prd" else "wrote")
            if k == "pwr" and m != "X":
                return "thread %d wrote the wrapped object under a shared lock" % tid
            for u, mu in mode.items():
                if u != tid and mu and (k == "pwr" or mu == "X"):
                    return "thread %d accessed the wrapped object while %d holds %s" % (tid, u, mu)
            v = int(t[2])
            if k == "prd" and v != val:
                return "thread %d read %d, last written value is %d" % (tid, v, val)
            if k == "pwr":
                # C15: a read-modify-write operation (exchange, compare_exchange, modify) is ONE atomic step: the value it
                # replaces must have been read in the SAME critical section as the write (a re-read after a failed attempt
                # is fine; a write that rests on a read made under an earlier acquisition is not: another thread's write in
                # between would be lost).  Stated on values and critical sections only, not on how the operation is coded.
                opn = cur.get(tid, "").split("!")[0].split("=")[0]
                opn = "xc" if opn == "xl" else ("md" if opn == "mc" else opn)
                mine = seen.get(tid, [])
                here = [x for kk, x in mine[brk.get(tid, 0):] if kk == "prd"]
                earlier = [x for kk, x in mine[:brk.get(tid, 0)] if kk == "prd"]
                if opn in ("xc", "ce", "md", "mv") and not here and earlier:
                    return ("%s by thread %d read %d under an earlier acquisition of the lock and wrote %d under a later one "
                            "without re-reading (the register holds %d now): the operation is not atomic (another thread's write "
                            "in between is lost)" % (cur.get(tid), tid, earlier[-1], v, val))
                pre[tid] = val
                pre_rev[tid] = reg_rev
                val = v
            if k == "prd":
                read_rev[tid] = reg_rev
            seen.setdefault(tid, []).append((k, v))
        elif k == "prv" and enabled:
            if mode.get(tid) != "X":
                return "thread %d replaced the wrapped object without holding the lock exclusively" % tid
            reg_rev = int(t[2])
        elif k == "rrv":
            res_rev[tid] = int(t[1])
        elif k in ("ret", "exc"):
            if k == "ret" and enabled and res_rev.get(tid) is not None:
                # C15 on identities: values that compare equal need not be the same value (T::operator== may be coarser
                # than identity); an operation must hand back THE value that was in the register at its atomic step
                opn = cur.get(tid, "").split("!")[0].split("=")[0]
                opn = "xc" if opn == "xl" else opn
                if opn == "xc" and pre_rev.get(tid) is not None and res_rev[tid] != pre_rev[tid]:
                    return ("%s by thread %d handed back value #%d but the value it replaced was #%d (equal, not identical): "
                            "another thread's store in between was overwritten without being observed — no order of the "
                            "operations explains the results" % (cur.get(tid), tid, res_rev[tid], pre_rev[tid]))
                if opn in ("ld", "cv") and read_rev.get(tid) is not None and res_rev[tid] != read_rev[tid]:
                    return "%s by thread %d handed back value #%d but read #%d" % (cur.get(tid), tid, res_rev[tid], read_rev[tid])
                if opn == "ce" and len(t) > 3 and t[2] == "0" and read_rev.get(tid) is not None and res_rev[tid] != read_rev[tid]:
                    return ("%s by thread %d failed and reports value #%d as current but read #%d"
                            % (cur.get(tid), tid, res_rev[tid], read_rev[tid]))
            if mode.get(tid):
                return "thread %d returned from %s still holding the lock" % (tid, cur.get(tid))
            if acq.get(tid, 0) != rel.get(tid, 0):
                return "op %s: %d acquisitions, %d releases" % (cur.get(tid), acq.get(tid, 0), rel.get(tid, 0))
            if k == "ret" and enabled:
                why = _register_check(cur.get(tid, ""), t[2:], seen.get(tid, []), pre.get(tid))
                if why:
                    return why
        elif k == "final" and enabled:
            if t[1] != t[2]:
                return "final value torn: %s/%s" % (t[1], t[2])
            if int(t[1]) != val:
                return "final value %s, last written %d" % (t[1], val)
    return None


def _register_check(op, res, acc, pre=None):
    body = op.split("!")[0]
    name, _, arg = body.partition("=")
    reads = [v for k, v in acc if k == "prd"]
    writes = [v for k, v in acc if k == "pwr"]
    if name == "rv":
        name = "rd"
    if name in ("mv", "mc"):
        name = "md"
    if name == "xl":
        name = "xc"
    if name in ("ld", "cv", "rd"):
        if not reads or writes or not res or int(res[0]) != reads[-1]:
            return "%s returned %s, read %s, wrote %s" % (op, res, reads, writes)
    elif name in ("st", "as"):
        if writes != [int(arg)]:
            return "%s wrote %s" % (op, writes)
    elif name == "xc":
        # exchange(a): one write of a; the result is the value the register held immediately before that write
        if writes != [int(arg)] or not res or pre is None or int(res[0]) != pre:
            return "%s returned %s but replaced %s (read %s, wrote %s)" % (op, res, pre, reads, writes)
    elif name == "ce":
        e, d = [int(x) for x in arg.split("/")]
        if not reads or len(res) < 2:
            return "%s: no read / result" % op
        if res[0] == "1":
            # success: exactly one write of desired, and the value it replaced equals expected
            if writes != [d] or pre != e:
                return "%s: reported success but replaced %s, wrote %s" % (op, pre, writes)
        else:
            # failure: nothing written; expected now holds a value the register had during the call, different from the
            # original expected (a call that finds the register equal to expected must succeed)
            if writes or int(res[1]) not in reads or int(res[1]) == e:
                return "%s: reported failure with expected=%s, read %s, wrote %s" % (op, res[1], reads, writes)
    return None


LF_TRUST = ["Model/LockFam.lean is a hand-written thread-local discipline for handles.hpp + the six lock-based wrappers "
            "(weakest discipline the proofs need; it does not fix lock types or access order inside a bracket)",
            "harness/vpayload.hpp: the traced two-word payload and the user-code fault injector"]
LF_ASSUME = ["std::mutex / timed_mutex / shared_mutex / shared_timed_mutex behave as the acquire/release semantics of the model "
             "(try forms may fail spuriously; timed forms may time out at any moment)",
             "client obligations: one handle session per thread at a time, no blocking acquisition while holding a handle, "
             "no access through a null or moved-from handle"]
LF_TIE = (" The model is tied to the source on every run: the unmodified headers (6 wrappers x 4 mutex types x enabled/disabled) run "
          "against substituted std primitives under a deterministic scheduler with a traced two-word payload and a user-code fault "
          "injector; every primitive-level trace must be accepted by the model's step function with all model edges covered.")


def register(PROPS, COMPONENTS):
    COMPONENTS["lockfam"] = dict(client="lockfam", driver="lockfam", directed_runs=2, quick_runs=1200, thorough_runs=40000,
                                 oracle=oracle_lockfam, shrinkable=True,   # every op sequence is a valid terminating script
                                 cov_headers=["gmlc/libguarded/handles.hpp", "gmlc/libguarded/guarded.hpp",
                                              "gmlc/libguarded/guarded_opt.hpp", "gmlc/libguarded/shared_guarded.hpp",
                                              "gmlc/libguarded/shared_guarded_opt.hpp", "gmlc/libguarded/ordered_guarded.hpp",
                                              "gmlc/libguarded/atomic_guarded.hpp"],
                                 # members that cannot / need not be instantiated with the harness payload:
                                 inst_allow=[r"::begin$", r"::end$",            # need an iterable T; pure forwarding to std::begin/end
                                             r"^is_shared_lockable::test$",     # unevaluated SFINAE probes
                                             r"^shared_locker::generate_lock$",  # never called by the library (dead code)
                                             r"^guarded::operator ", r"^guarded_opt::operator "])  # do not compile (mutex not mutable)
    PROPS["C01"] = dict(
        lean_files=["ConcVerif/Props/C01.lean"], components=["lockfam"], stage="B",
        level_text="Lean 4 theorems (kernel-checked; unbounded threads, client programs and interleavings; both mutex families) over "
                   "an executable thread-local discipline model of handles.hpp and the lock-based wrappers: every accepted payload "
                   "access is made under the wrapper's mutex (writes exclusively), exclusive holders exclude every other holder, no "
                   "access by another thread is accepted while a thread holds an exclusive handle or is inside a modifying operation, "
                   "no step of another thread changes the value or takes the lock away (no lost update), an idle thread holds nothing "
                   "(no leaked lock), a holder always has an enabled step and a blocked acquirer is enabled once the mutex is free. "
                   "Liveness without any fairness assumption (Proof/LockFamLive.lean, Base/Live.lean; environment events = the client's "
                   "decisions: calls, the handle operations it chooses while it keeps a handle, accesses/throws of client code, the "
                   "final observation): C01_terminates — no infinite execution with finitely many environment events (every library "
                   "step, failed try_lock and time-out included, lowers a rank); C01_progress_cases / C01_progress / "
                   "C01_stuck_means_client_holds — in every reachable state some thread has a library step nobody can disable, or the "
                   "mutex is free and every waiting acquirer can take it, or every holder is a client whose move it is (a handle kept "
                   "between operations, or client code inside an incomplete bracket) and everybody else inside an operation waits for "
                   "it; hence every maximal execution with finitely many client decisions ends with every thread returned unless a "
                   "client keeps a handle for ever (C01_stuck_no_client_all_returned)." + LF_TIE,
        level_note="Trusted: Lean kernel (+propext, Classical.choice, Quot.sound), the primitive semantics of the mutexes, shim + "
                   "scheduler + driver glue. 'Every blocked acquirer proceeds once the current holder releases' is proved as "
                   "deadlock-freedom (L2, L4, C01_progress_cases) plus fairness-free termination (C01_terminates). The model is the weakest "
                   "discipline: it does not know which side a whole-object operation locks nor how many reads a bracket body makes, so "
                   "body accesses count as environment events and 'enabled' for a waiting whole-object operation means 'on some side'; "
                   "C01_free_waiting_enabled gives both sides when the mutex is free. Not proved: that ONE particular waiter is "
                   "eventually chosen when other threads keep acquiring for ever (needs a fair mutex, which C++ does not promise).",
        trusted_base=LF_TRUST, assumptions=LF_ASSUME,
        partial=["'every blocked acquirer proceeds once the current holder releases' is proved as deadlock-freedom (L2, L4, "
                 "C01_progress_cases, C01_stuck_means_client_holds) and termination of every execution with finitely many client "
                 "decisions under EVERY scheduler (C01_terminates); not proved: starvation-freedom of one particular acquirer when "
                 "other threads make infinitely many acquisitions under an unfair mutex or scheduler (C++ mutexes are not fair); "
                 "writer starvation by readers is not excluded (the property does not claim it)"],
    )
    PROPS["C02"] = dict(
        lean_files=["ConcVerif/Props/C02.lean"], components=["lockfam"], stage="B",
        level_text="Lean 4 theorems over the same wrapper model: a shared holder never coexists with an exclusive holder, no write is "
                   "accepted and no exclusive acquisition succeeds while a shared handle is alive, a blocking lock_shared is enabled "
                   "whenever nobody holds the mutex exclusively (a reader is never blocked merely by readers), a constructive "
                   "reachable state with two simultaneous shared handles, and with a plain mutex nobody ever holds a shared mode "
                   "(the shared API degrades to exclusive access and C01 applies)." + LF_TIE,
        level_note="Trusted base as C01. Writer starvation is not claimed by the property and not addressed.",
        trusted_base=LF_TRUST, assumptions=LF_ASSUME, partial=[],
    )
    PROPS["C08"] = dict(
        lean_files=["ConcVerif/Props/C08.lean"], components=["lockfam"], stage="B",
        level_text="Lean 4 theorems over the same wrapper model with explicit handle slots (live/owns/nonnull/moved-from) and the handle "
                   "operations destroy / unlock / move-construct / move-assign: the truth value of a returned handle equals 'the lock "
                   "was obtained'; try/timed lock events are enabled in every global state (never block); a non-null handle owns the "
                   "lock until an operation on it; releases happen only inside an operation on the owning handle and such an operation "
                   "cannot end without the release; acquisitions = releases (+1 while holding) per thread, stated both on the ghost counters "
                   "and on the lock / unlock EVENTS of the trace (C08_counts_are_events, C08_released_once_trace, _idle_trace); after unlock() the handle is "
                   "null; a moved-from handle is destroyed silently; with locking disabled every acquisition yields a non-null handle "
                   "at once and performs no lock operation." + LF_TIE,
        level_note="Trusted base as C01. 'never blocking beyond the given time' is modelled as: a timed attempt either obtains the "
                   "free lock or times out, at the scheduler's choice; real time is not modelled.",
        trusted_base=LF_TRUST, assumptions=LF_ASSUME, partial=[],
    )
    PROPS["C15"] = dict(
        lean_files=["ConcVerif/Props/C15.lean"], components=["lockfam"], stage="B",
        level_text="Lean 4 theorems over the wrapper model: for every concurrent execution the whole-object operations (load, store, "
                   "operator=, operator T, modify, read, exchange, compare_exchange; writes through exclusive handles as stores), taken "
                   "in the order of their linearisation points (the closing release of their single mutex bracket, which lies between "
                   "call and return), replay through the sequential single-register specification with exactly the results the callers "
                   "received and end in the committed value (linearizability, proved as an inductive invariant using mutual exclusion); "
                   "a load inside a bracket returns the committed value (never a partially written one); exchange / compare_exchange "
                   "specification lemmas; the history is append-only (real-time and program order)." + LF_TIE +
                   " The harness additionally compares every result with the register semantics of the values read/written in the "
                   "same bracket (python oracle) and checks two-word payload reads for tearing.",
        level_note="Trusted base as C01. The per-bracket check wResult (accesses amount to the claimed operation) is part of the model "
                   "and is proved sound w.r.t. the register specification (C15_bracket_is_register_op). With locking disabled "
                   "(guarded_opt(false)) nothing is claimed.",
        trusted_base=LF_TRUST, assumptions=LF_ASSUME, partial=[],
    )
    PROPS["C20"] = dict(
        lean_files=["ConcVerif/Props/C20_lock.lean"], components=["lockfam"], stage="B",
        level_text="Lean 4 theorems, per wrapper family, over models in which user code may throw at any point inside an operation "
                   "(`uth` events accepted in every state of a bracket, i.e. every choice of the throwing invocation and every "
                   "interleaving): the lock taken by the operation is released before the exception reaches the caller, the operation "
                   "has not written the wrapped object (not half-modified), all mutual-exclusion / deadlock-freedom theorems hold on "
                   "traces containing throws (the wrapper stays usable)." + LF_TIE,
        level_note="Trusted base as C01; the fault injector makes the k-th user-code invocation (copy, assignment, comparison, functor) "
                   "throw. Parts for lr_guarded, cow_guarded, deferred_guarded, DelayedDestructor and SearchableObjectHolder are "
                   "added by their components.",
        trusted_base=LF_TRUST, assumptions=LF_ASSUME, partial=[],
    )
