"""C07 — no data races; every granted access happens-after conflicting earlier ones.

The happens-before layer is generic: it re-uses the harness clients of the other components with the `hb` driver
(`lean/Driver/HB.lean`), which maps the raw trace vocabulary of ANY client to `ConcVerif.HB.Ev` and runs the executable
race checker `ConcVerif.HB.step` (soundness w.r.t. the declarative happens-before: `C07_raceFree_sound`).

Adding another client is one line in HB_CLIENTS (plus, optionally, its required edge kinds in `Driver/HB.lean: required`).

The python oracle below is an INDEPENDENT implementation of the same definition: it builds the synchronises-with edges
explicitly, closes them transitively with bit sets and compares every pair of conflicting plain accesses — no vector
clocks.  A disagreement with the Lean checker's verdict is reported as a machinery bug."""

# (component name, client, tap, directed_runs, quick_runs, thorough_runs)
HB_CLIENTS = [
    ("hb-pub", "hbpub", True, 8, 600, 20000),
    ("hb-lockfam", "lockfam", False, 1, 800, 20000),
    ("hb-barrier", "barrier", True, 4, 300, 10000),
    ("hb-latch", "latch", False, 3, 200, 10000),
    ("hb-tripwire", "tripwire", False, 2, 400, 10000),
    ("hb-deferred", "deferred", False, 2, 400, 10000),
    # components built on other branches: one line each once their client exists, e.g.
    ("hb-lr", "lr", False, 2, 400, 10000),
    ("hb-cow", "cow", True, 2, 400, 10000),     # tap: the plain accesses of m_data's two shared_ptr copies are checked too
    ("hb-rcu", "rcu", True, 2, 300, 8000),
    ("hb-trigger", "trigger", False, 2, 400, 10000),
    ("hb-dd", "dd", False, 2, 400, 10000),
    ("hb-soh", "soh", True, 2, 400, 10000),
    ("hb-dobj", "dobj", True, 2, 400, 10000),
    # two atomic_guarded wrappers and the operations that involve both (`a = b`): no component model, HB layer only
    ("hb-ag2", "ag2", False, 6, 500, 12000),
]

ACQ = ("acq", "ar", "sc")
REL = ("rel", "ar", "sc")
ORDERS = ("rlx", "con", "acq", "rel", "ar", "sc")
FAIL_ORDER = {"rel": "rlx", "ar": "acq"}


def hb_events(run):
    """raw trace -> list of (tid, kind, obj, extra, line_no, text); kind in
    acq rel ld st rmw rd wr fork join nop ; mutex events carry the mode in `extra`, atomics the order.
    Returns (events, check_plain, error)."""
    evs = []
    started = []
    check_plain = True
    atomics = set()   # locations already used atomically: the tap's echo of the shim's own storage access is dropped
    plains = set()    # plain locations seen so far (for the destruction / deallocation of a traced heap block)
    n = -1
    for l in run["trace"]:
        t = l.split()
        tid, k, a = int(t[0]), t[1], t[2:]
        n += 0 if k == "cfg" else 1     # same numbering as the Lean driver (the cfg line is not an event)
        if k == "cfg":
            if a and a[0] == "lockfam" and a[-1] == "0":
                check_plain = False     # guarded_opt(false): the user opted out of protection
            continue
        # harness thread edges: thread 0 forks the others at run_threads and joins them afterwards
        if tid == 0:
            for u in started:
                evs.append((0, "join", u, None, n, l))
            started = []
        elif tid not in started:
            started.append(tid)
            evs.append((0, "fork", tid, None, n, l))
        ev = None
        if k in ("ald", "ast", "axc", "rmw", "cas"):
            atomics.add(a[0])
        if k in ("pld", "pst") and a[0] in atomics:
            evs.append((tid, "nop", None, None, n, l))
            continue
        if k == "ald":
            ev = ("ld", a[0], a[1])
        elif k == "ast":
            ev = ("st", a[0], a[1])
        elif k in ("axc", "rmw"):
            ev = ("rmw", a[0], a[1])
        elif k == "cas":
            ev = ("rmw", a[0], a[1]) if a[4] == "1" else ("ld", a[0], FAIL_ORDER.get(a[1], a[1]))
        elif k in ("mlk", "slk"):
            ev = ("acq", a[0], "X" if k == "mlk" else "S")
        elif k in ("mul", "sul"):
            ev = ("rel", a[0], "X" if k == "mul" else "S")
        elif k in ("mtl", "mtf", "stl", "stf"):
            ev = ("acq", a[0], "X" if k[0] == "m" else "S") if a[1] == "1" else ("nop", None, None)
        elif k == "cwt":
            ev = ("rel", a[1], "X")
        elif k == "cwk":
            ev = ("acq", a[1], "X")
        elif k in ("prd", "pld"):
            ev = ("rd", a[0], None)
        elif k in ("pwr", "pst", "pwb"):
            ev = ("wr", a[0], None)
        elif k == "cpb":        # copy assignment starts: read of the source ("?" = unregistered temporary)
            ev = ("rd", a[1], None) if a[1] != "?" else ("nop", None, None)
        elif k == "cpe":        # ... complete: write of the target
            ev = ("wr", a[0], None) if a[0] != "?" else ("nop", None, None)
        elif k in ("des", "fre") and len(a) == 1:
            # destruction / deallocation of a traced heap block (rcu_list node / log record): a write of its plain
            # payload field, if that field has been accessed before
            f = a[0] + ".data" if a[0] + ".data" in plains else a[0] + ".zombie_node" if a[0] + ".zombie_node" in plains else None
            ev = ("wr", f, None) if f else ("nop", None, None)
        else:
            ev = ("nop", None, None)
        if ev[0] in ("rd", "wr"):
            plains.add(ev[1])
        if ev[0] in ("ld", "st", "rmw") and ev[2] not in ORDERS:
            return evs, check_plain, "unknown memory order in '%s'" % l
        evs.append((tid, ev[0], ev[1], ev[2], n, l))
    return evs, check_plain, None


def find_race(run):
    """declarative happens-before by explicit edges + transitive closure (bit sets); returns None or a description"""
    evs, check_plain, err = hb_events(run)
    if err:
        return err
    if not check_plain:
        return None
    n = len(evs)
    preds = [0] * n            # bit j set in preds[i]  <=>  event j happens-before event i
    last_of = {}               # tid -> index of its latest event
    forked_by = {}             # tid -> index of the fork event that created it (until its first event)
    rels = {}                  # mutex -> list of (index, mode) of releases so far
    heads = {}                 # atomic -> list of indices of releasing writes whose release sequence is still unbroken
    accesses = {}              # plain loc -> list of (index, is_write)
    for i, (tid, k, obj, x, _, _) in enumerate(evs):
        direct = []
        if tid in last_of:
            direct.append(last_of[tid])
        if tid in forked_by:
            direct.append(forked_by.pop(tid))
        if k == "acq":
            for j, md in rels.get(obj, []):
                if md == "X" or x == "X":
                    direct.append(j)
        elif k == "rel":
            pass
        elif k in ("ld", "rmw") and x in ACQ:
            direct += heads.get(obj, [])
        elif k == "join":
            if obj in last_of:
                direct.append(last_of[obj])
            if obj in forked_by:
                direct.append(forked_by[obj])
        p = 0
        for j in direct:
            p |= preds[j] | (1 << j)
        preds[i] = p
        # effects on the bookkeeping AFTER the event's own edges
        if k == "rel":
            rels.setdefault(obj, []).append((i, x))
        elif k == "st":
            heads[obj] = [i] if x in REL else []
        elif k == "rmw":
            if x in REL:
                heads.setdefault(obj, []).append(i)
        elif k == "fork":
            forked_by[obj] = i
        elif k in ("rd", "wr"):
            w = (k == "wr")
            for j, wj in accesses.get(obj, []):
                if (w or wj) and not (p >> j) & 1:
                    return "data race on %s: line %d '%s' is not ordered by happens-before after line %d '%s'" % (
                        obj, evs[i][4], evs[i][5], evs[j][4], evs[j][5])
            accesses.setdefault(obj, []).append((i, w))
        last_of[tid] = i
    return None


def oracle_hb(run):
    why = find_race(run)
    v = run.get("verdict")
    if v is not None:
        lean_race = v.startswith("REJECT") and " race on " in v
        if why and why.startswith("data race") and not lean_race:
            return "MACHINERY DISAGREEMENT: python oracle: %s -- but the Lean checker said: %s" % (why, v.split("||")[0])
        if lean_race and not why:
            return "MACHINERY DISAGREEMENT: Lean checker: %s -- but the python oracle finds no race" % v.split("||")[0]
    return why


# ---- machinery self-test (run before every check): fixed synthetic traces with known verdicts go through BOTH the Lean
# driver and the python oracle; a wrong verdict of either is reported as a broken obligation --------------------------------
SELFTEST = [
    # (name, expected: "accept" | "race" | "reject", trace lines)
    ("markers-and-lock", "accept", ["0 cfg t 1", "1 fork", "1 zzz hello 3", "1 mlk m0", "1 pwr D 1", "1 mul m0", "2 mlk m0",
                                    "2 prd D 1", "2 mul m0", "0 prd D 1"]),
    ("no-lock", "race", ["0 cfg t 1", "1 pwr D 1", "2 prd D 1"]),
    ("main-joins-before-its-next-event", "accept", ["0 cfg t 1", "0 pwr D 0", "1 prd D 0", "2 prd D 0", "0 pwr D 1", "1 pwr D 2"]),
    ("shared-shared-write", "race", ["0 cfg t 1", "1 slk m", "1 pwr D 1", "1 sul m", "2 slk m", "2 pwr D 2", "2 sul m"]),
    ("shared-then-exclusive", "accept", ["0 cfg t 1", "1 slk m", "1 prd D 0", "1 sul m", "2 mlk m", "2 pwr D 2", "2 mul m",
                                         "1 stl m 1", "1 prd D 2", "1 sul m"]),
    ("failed-try-no-edge", "race", ["0 cfg t 1", "1 mlk m", "1 pwr D 1", "2 mtl m 0", "2 prd D 1", "1 mul m"]),
    ("release-acquire", "accept", ["0 cfg t 1", "1 pwr D 1", "1 ast f rel 1", "2 ald f acq 1", "2 prd D 1"]),
    ("relaxed-store", "race", ["0 cfg t 1", "1 pwr D 1", "1 ast f rlx 1", "2 ald f acq 1", "2 prd D 1"]),
    ("relaxed-load", "race", ["0 cfg t 1", "1 pwr D 1", "1 ast f sc 1", "2 ald f rlx 1", "2 prd D 1"]),
    ("consume-load", "race", ["0 cfg t 1", "1 pwr D 1", "1 ast f rel 1", "2 ald f con 1", "2 prd D 1"]),
    ("rmw-chain", "accept", ["0 cfg t 1", "1 pwr D 1", "1 ast f rel 1", "3 rmw f rlx add 1 1", "2 ald f acq 2", "2 prd D 1"]),
    ("store-breaks-chain", "race", ["0 cfg t 1", "1 pwr D 1", "1 ast f rel 1", "3 ast f rlx 2", "2 ald f acq 2", "2 prd D 1"]),
    ("cas-ok-acquires", "accept", ["0 cfg t 1", "1 pwr D 1", "1 ast f rel 1", "2 cas f sc 1 5 1 1", "2 prd D 1"]),
    ("cas-fail-sc-acquires", "accept", ["0 cfg t 1", "1 pwr D 1", "1 ast f rel 1", "2 cas f sc 0 5 0 1", "2 prd D 1"]),
    ("cas-fail-rel-is-relaxed", "race", ["0 cfg t 1", "1 pwr D 1", "1 ast f rel 1", "2 cas f rel 0 5 0 1", "2 prd D 1"]),
    ("cv-wait", "accept", ["0 cfg t 1", "1 mlk m", "1 cwt cv m", "2 mlk m", "2 pwr D 1", "2 cna cv", "2 mul m",
                           "1 cwk cv m notified", "1 prd D 1", "1 mul m"]),
    ("notify-no-edge", "race", ["0 cfg t 1", "2 pwr D 1", "2 cna cv", "1 prd D 1"]),
    ("tap-fields", "race", ["0 cfg t 1", "1 mlk m", "1 pst count 8 1", "1 mul m", "2 pld count 8 1"]),
    ("lockfam-disabled-unchecked", "accept", ["0 cfg lockfam go m 0", "1 pwr P 1", "2 prd P 1"]),
    ("copy-window-reads-source", "race", ["0 cfg t 1", "1 pwr A 1", "2 cpb B A", "2 cpe B A 1"]),
    ("copy-window-writes-target", "race", ["0 cfg t 1", "1 prd B -", "2 cpb B ?", "2 cpe B ? 1"]),
    ("modify-window-begin-is-write", "race", ["0 cfg t 1", "1 prd A -", "2 pwb A"]),
    ("copy-from-temporaries", "accept", ["0 cfg t 1", "1 cpb B ?", "2 cpb C ?"]),
    ("unknown-with-order", "reject", ["0 cfg t 1", "1 afn a0 sc"]),
    ("unknown-on-known-mutex", "reject", ["0 cfg t 1", "1 mlk m0", "1 mul m0", "1 mxx m0"]),
    ("bad-order", "reject", ["0 cfg t 1", "1 ald a0 weird 0"]),
    ("bad-arity", "reject", ["0 cfg t 1", "1 mlk"]),
]


def selftest_hb(tier, seed):
    import os
    import subprocess
    driver = os.path.join(os.path.dirname(os.path.dirname(os.path.abspath(__file__))), "lean", ".lake", "build", "bin", "driver")
    text = ""
    for name, _, lines in SELFTEST:
        text += "RUN seed=0 strat=0 script=%s\n%s\nEND status=ok steps=0 decisions=\n" % (name, "\n".join(lines))
    p = subprocess.run([driver, "hb"], input=text, stdout=subprocess.PIPE, stderr=subprocess.STDOUT, text=True, timeout=120)
    verdicts = [l for l in p.stdout.split("\n") if l.startswith(("ACCEPT", "REJECT"))]
    bad = []
    if len(verdicts) != len(SELFTEST):
        bad.append("driver produced %d verdicts for %d self-test traces" % (len(verdicts), len(SELFTEST)))
    for (name, want, lines), v in zip(SELFTEST, verdicts):
        got = "accept" if v.startswith("ACCEPT") else ("race" if " race on " in v else "reject")
        if got != want:
            bad.append("Lean hb driver: self-test '%s' expected %s, got: %s" % (name, want, v.split("||")[0]))
        if want != "reject":
            why = find_race(dict(trace=lines))
            pgot = "race" if why else "accept"
            if pgot != want:
                bad.append("python oracle: self-test '%s' expected %s, got: %s" % (name, want, why))
    return dict(obligations=len(SELFTEST), discharged=len(SELFTEST) - len(bad),
                detail="hb machinery self-test: %d synthetic traces through the Lean driver and the python oracle" % len(SELFTEST),
                lean_problem=("hb machinery self-test failed:\n" + "\n".join(bad)) if bad else None)


def register(PROPS, COMPONENTS):
    names = []
    for cname, client, tap, nd, nq, nt in HB_CLIENTS:
        COMPONENTS[cname] = dict(client=client, driver="hb", tap=tap, directed_runs=nd, quick_runs=nq, thorough_runs=nt,
                                 oracle=oracle_hb)
        names.append(cname)
    PROPS["C07"] = dict(
        lean_files=["ConcVerif/Props/C07.lean", "ConcVerif/Props/C07_lr.lean", "ConcVerif/Props/C07_tripwire.lean",
                    "ConcVerif/Props/C07_deferred.lean", "ConcVerif/Props/C07_trigger.lean", "ConcVerif/Props/C07_rcu.lean",
                    "ConcVerif/Props/C07_cow.lean", "ConcVerif/Props/C07_soh.lean", "ConcVerif/Props/C07_deferred_obj.lean",
                    "ConcVerif/Props/C07_dobj.lean", "ConcVerif/Props/C07_dd.lean"],
        components=names, stage="B", pre=selftest_hb,
        level_text="Lean 4 theorems (kernel-checked; any number of threads, locations and events) over a generic event model of "
                   "mutex / shared-mutex / condition-variable / atomic (with the memory order written in the source) / plain / "
                   "thread events: (i) the executable vector-clock race checker that is run on every observed trace DECIDES the "
                   "declarative happens-before relation (C++20 release sequences, unlock->lock edges except "
                   "unlock_shared->lock_shared, spawn/join): it accepts iff every pair of conflicting plain accesses is ordered "
                   "(soundness and completeness; vector clocks reflect happens-before exactly); "
                   "(ii) lockset theorem: in every trace consistent with mutex semantics, if every access to a location is made "
                   "under one mutex (exclusive for writes) then each access happens-after every earlier conflicting access; "
                   "(iii) publication theorem: a plain write before a release/seq_cst store or RMW happens-before a plain read "
                   "after an acquire/seq_cst load or RMW that reads from it or from an RMW-continued release sequence of it; "
                   "(iv) relaxed accesses give no edge (general lemma + concrete racy trace rejected by the checker); (v) every "
                   "trace ACCEPTED by the lock-family / Barrier / Latch models, mapped to happens-before events, satisfies the "
                   "hypotheses of (ii)/(iii), so the conclusions hold for every accepted trace, not only the observed ones; "
                   "(vi) the lock-free protocols, again over EVERY trace the component model accepts: left-right (lr_guarded): "
                   "every write to a copy happens-after every earlier read and write of it and every read happens-after every "
                   "earlier write (edges: write mutex, store of m_readingLeft -> reader's load, reader's decrement -> writer's "
                   "counter load through the RMW-only release sequence), for every assignment of memory orders with those four "
                   "operations at least release/acquire, each of the four shown necessary by a concrete accepted trace that "
                   "races otherwise; TripWire: the trigger's release store synchronises with every acquire load that reads from "
                   "it, the model's know/msg publication ghost is sound for happens-before, every accepted client read / "
                   "overwriting write happens-after a write of the value read / overwritten; deferred_guarded: the closure of "
                   "a queued task reaches the drainer through the queue mutex alone, for ANY orders of the pending flag; "
                   "TriggerVariable: a load of triggered/activated that sees a non-initial value reads from a store of that value "
                   "which happens-before it, so what the triggering thread did before trigger() is ordered before what the "
                   "waiter does after the load that ended wait(); "
                   "rcu_list / rcu_guarded (over every trace the rcu model accepts up to the start of the list destructor, for every "
                   "assignment of memory orders with link / owner stores release, their loads acquire and the CAS on "
                   "m_zombie_head acq_rel): (a) every access to a list node - atomic or plain, by an iterator, a writer or a "
                   "reclaimer - happens-after the plain initialisation of the node (write mutex between writers, "
                   "m_head/next store -> load for readers); (b) every access to a log record happens-after its plain "
                   "initialisation and the CAS that pushed it (every successful CAS on m_zombie_head synchronises with every "
                   "later one: the location is only written by RMWs; the relaxed load of m_zombie_head and the relaxed store of "
                   "the new record's next carry no obligation); (c) the destruction and the deallocation of a node and of a log "
                   "record by a handle release happen-after EVERY earlier access to it by any thread (owner.store(nullptr) -> the "
                   "reclaimer's load of that owner: the happens-before content of the C05 grace period); (d) each of link store, "
                   "link load, owner store, owner load shown necessary by a concrete accepted trace that races when it is relaxed, "
                   "the CAS by a trace in which a scanner's atomic load of owner is no longer ordered after the record's construction; "
                   "cow_guarded (over every trace the cow model accepts; the model embeds the left-right model and delegates to it): "
                   "the accepted cow trace projects to an accepted left-right trace whose happens-before image embeds into the cow "
                   "trace's, so the left-right theorem orders every pair of conflicting accesses of m_data's two shared_ptr copies; "
                   "the payload of a version is written only by the thread holding the writer mutex, by one thread per version, "
                   "and every read of it (through a snapshot, or as the source of the next writer's copy) happens-after every "
                   "write to it (writes -> program order -> the store that installs the version on a side -> left-right theorem -> "
                   "the reader's load of that side -> program order -> the read; the release store / acquire load of "
                   "m_readingLeft shown necessary by a racing accepted trace); the destruction of a version happens-after every "
                   "read of it through a snapshot in happens-before EXTENDED by the shared_ptr control-block edges (assumption). "
                   "Tied to the source on every run: the unmodified headers run against substituted std primitives (and the "
                   "plain-access tap) under a deterministic scheduler; every raw trace of every client is mapped to "
                   "happens-before events using the memory orders WRITTEN IN THE SOURCE and must pass the Lean checker, so a "
                   "weakened order or an access outside the lock is a concrete race even on a sequentially consistent schedule.",
        level_note="Trusted: Lean kernel (+propext, Classical.choice, Quot.sound); the memory-model abstraction (operational, "
                   "SC-interleaved executions with declared-order clocks: every load reads the latest write, no load buffering / "
                   "out-of-thin-air, no SC fences; seq_cst = acquire+release at a single point; consume gives no edge); the tap's "
                   "visibility (only registered ranges); shim + scheduler + driver glue. Partial: not the axiomatic C++11 model; "
                   "stale (non-latest) reads of weak loads are not explored.",
        trusted_base=["Base/HB.lean is the memory-model abstraction: operational, SC-interleaved traces, happens-before edges from the "
                      "DECLARED memory orders (C++20 release sequences), every load/RMW reads the latest write; no load buffering, "
                      "no out-of-thin-air values, no fences; libstdc++ internals (shared_ptr control blocks, promise/future state, "
                      "containers) are trusted and invisible",
                      "Driver/HB.lean maps raw trace lines to happens-before events (cv wait = unlock + lock; failed try-lock, notify, "
                      "markers = no edge; failed CAS = load; thread 0 forks the other threads at run_threads and joins them after it)",
                      "the plain-access tap sees only registered ranges (the client's tap_add calls) and traced payload objects; "
                      "wide accesses are named by their first byte"],
        assumptions=["std::mutex / shared_mutex / condition_variable / atomic give exactly the synchronises-with edges of Base/HB.lean",
                     "clients touch wrapped objects only through the library's handles / operations; with locking disabled "
                     "(guarded_opt(false)) the user opted out and plain accesses are not checked",
                     "user functors / payload operations are race-free themselves",
                     "cow_guarded: std::shared_ptr's control block orders the release of every reference (destruction of a snapshot "
                     "handle) before the destruction of the managed object by the last owner (C07_cow_destroy_after_snapshot is "
                     "stated in happens-before extended by exactly these edges)"],
        partial=["the theorem is over the operational abstraction above (SC-interleaved, declared-order clocks), not the axiomatic "
                 "C++11 model: executions with stale reads of non-seq_cst loads, load buffering or hardware reorderings are not "
                 "covered; libstdc++ internals are trusted",
                 "model-level theorems (over every trace the component model accepts) exist for: the lock family (payload, "
                 "lockset), Barrier (plain fields, lockset), Latch (counter release sequence, fast path), lr_guarded (both copies: "
                 "full race freedom, C07_lr*), TripWire (release store -> acquire load edge, soundness of the publication ghost, "
                 "write->read and write->write order of client data; NOT read->write: the model does not track which thread has "
                 "read a datum), deferred_guarded (the queued closure through the queue mutex, C07_deferred_flag, AND the wrapped "
                 "object under the shared mutex m: writes exclusive, reads locked, every conflicting pair ordered, the whole "
                 "mapped trace race free for arbitrary flag orders, C07_deferred_obj_*), SearchableObjectHolder (both maps under "
                 "mapLock; the destructor's unlocked accesses after its final release are ordered after every earlier access "
                 "through its own last critical section, C07_soh_*), DelayedObjects (the four maps under promiseLock, the destructor's "
                 "late accesses ordered through its own acquisition, every set_value under the lock, C07_dobj_*; the publication "
                 "set_value -> future::get with promise/future trusted as a release/acquire pair is C07_dobj_publication_partial: the "
                 "model enables the consumer's `got` from the setter's lock acquisition, not from its set_value event), DelayedDestructor (the vector under destructionLock while the container is alive: lockset, every "
                 "conflicting pair ordered, user code runs with the lock free, C07_dd_*; the destructor takes no lock, exactly as "
                 "the code, so its accesses are race free only when the client orders the last users before it - joins or an own "
                 "locked call - C07_dd_joined_partial / C07_dd_vector_partial, and C07_dd_unordered_dtor_races shows the hypothesis "
                 "cannot be dropped; the harness joins before destroying), TriggerVariable (store -> load edge of both flags and "
                 "publication through trigger()/wait(), C07_trigger_*; the model has no client-data events, so the statement is "
                 "about the positions before the store / after the load)",
                 "covered through the checker on OBSERVED traces only (raceFree + its soundness, every run): "
                 "DelayedDestructorSingleThread (no lock by design), the read->write half of "
                 "the TripWire client data",
                 "cow_guarded: C07_cow_destroy_after_snapshot is relative to the control-block edges (the destruction of a "
                 "snapshot handle happens-before the destruction of the managed object by the last owner: libstdc++'s use-count "
                 "decrement is not traced, stated as the relation CBedge); not model-level: destruction vs. the reads made through "
                 "the left-right read handle inside lock() (the source of a copy), destruction vs. the writer's own accesses, "
                 "the reference the two sides hold (released inside the assignment windows at a moment the trace does not show)",
                 "rcu_list: the model-level theorems C07_rcu_* (publication of nodes and records, reclamation of nodes and records, "
                 "necessity of the orders) are over traces that have not entered ~rcu_list: the destructor is ordered after every "
                 "other use by the client (in the harness: the joins), as for any object, and its accesses are checked on the "
                 "observed traces only (hb-rcu); the pairs not covered by (a)-(c) - two accesses of `deleted` by writers under the "
                 "write mutex, an access after the destruction (excluded by C05/C13: ledger state) - are not restated as a single "
                 "no-race theorem for the mapped trace; the seq_cst of the scan loads / of the CAS is also what makes the "
                 "INTERLEAVING of C05 hold (a reader that registers after a scan has started is above the scanner's record), which "
                 "the operational abstraction takes as given",
                 "lr_guarded: the theorem needs only release on the store of m_readingLeft and on the counter decrement and "
                 "acquire on the load of m_readingLeft and on the counter load; the seq_cst of the increment and of "
                 "m_countingLeft is needed for the INTERLEAVING (store-buffering pattern store rl; load cnt || inc cnt; load rl), "
                 "which this operational abstraction (SC-interleaved traces) takes as given: a mutant that weakens them is "
                 "reported by the lr model as an order mismatch (C03), not as a race; deferred_guarded: the orders of the pending "
                 "flag matter for liveness (C06) only, not for data-race freedom"],
    )


# A data race on a copy of lr_guarded / on the version objects of cow_guarded IS a failure of "readers see only complete,
# current states" (C03) / "a shared handle is an immutable snapshot" (C04): the happens-before checker runs on the lr / cow
# traces as part of those properties' failing-input search too, so that a memory order weakened below what C07_lr / C07_cow
# need is reported with the racing pair of accesses and not only as an order mismatch of the model.
PARTS = {
    "C03": dict(components=["hb-lr"], lean_files=["ConcVerif/Props/C07_lr.lean"],
                level_text_add="The lr traces are also run through the happens-before race checker (C07_lr_*: the four orders the "
                               "protocol needs, each shown necessary)."),
    "C15": dict(components=["hb-ag2"], lean_files=["ConcVerif/Props/C07.lean"],
                level_text_add="Operations that involve TWO atomic_guarded wrappers (assignment from another atomic_guarded) have no "
                               "component model; their traces are checked by the happens-before layer (each payload under its own "
                               "mutex, C07_lockset_*, C07_raceFree_sound) and the payload's torn-read detector."),
    "C04": dict(components=["hb-cow"], lean_files=["ConcVerif/Props/C07_cow.lean"],
                level_text_add="The cow traces are also run through the happens-before race checker (C07_cow_*)."),
}
