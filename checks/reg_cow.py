"""cow_guarded (gmlc/libguarded/cow_guarded.hpp, built on lr_guarded<shared_ptr<const T>>): component entries, trace-level
oracle, property entry C04 and the cow parts of C14 / C20."""


def events(run):
    for l in run["trace"]:
        t = l.split()
        yield int(t[0]), t[1:]


def _v(s):
    return int(s[1:]) if s.startswith("v") and s[1:].isdigit() else None


def oracle_cow(run):
    """Property-level checks on the raw trace, independent of the Lean model's pcs (only call/ret markers, payload events
    and mutex events are used; the left-right internals are not looked at).
    C04 (a) immutability: a payload is written only by the thread whose live write handle owns it, while that thread holds
            the writer mutex, and never once it has been released, snapshotted or copied from by somebody else; every
            read returns the value last written (so a snapshot's value never changes); a copy starts with its source's value;
        (b) validity: no payload is destroyed while a snapshot of it is held, while it is the committed version or the
            private copy of a live handle; none is destroyed twice; at the end every payload has been destroyed once;
        (c) serial writers / latest: between lock() and release/cancel nobody else takes the writer mutex (mutex
            semantics) and the private copy is made from the version committed by the last release that unlocked;
        (d) chain / no lost update: the final committed version's parent chain down to v0 consists exactly of the
            released versions, in unlock order; both sides point to it; its value is the one last written to it;
        (e) publication: lock_shared returns v0 or a version whose release had started, at least as new as every
            version whose release had RETURNED before the lock_shared was called;
        (f) cancel: exactly one unlock of the writer mutex and one destruction of the private copy inside cancel(),
            nothing published; publication (the inner modify) happens inside the writer-mutex section of release.
    C14 no mutex / yield / condition event and at most 14 atomic operations inside a lock_shared form (a constant bound - the
        code needs 4 - that a loop waiting for a writer exceeds under some schedule).
    C20 lock() that throws: no payload constructed, writer mutex taken and released exactly once, nothing held after."""
    val = {}          # payload id -> value last written
    parent = {}
    dead = set()
    owner = {}        # private copy -> thread owning the live write handle
    handle = {}       # tid -> version of its live write handle
    frozen = set()    # payloads that must never be written again (published / snapshotted / copied from)
    snaps = {}        # tid -> list of versions held
    committed = [0]   # versions in unlock order of their release (v0 first)
    relstart = set()  # versions whose release has been called
    returned = 0      # index into `committed`: newest version whose release has returned
    wm = None
    call = {}         # tid -> current call name
    cnt = {}          # tid -> per-call counters
    lastmod = {}      # atomic cell -> (sequence number, tid) of its last modification
    lastseen = {}     # (tid, cell) -> sequence number of the thread's last operation on the cell
    seq = [0]
    lo = {}           # tid -> `returned` index at its call lockShared
    depth = {0: 0}
    fin_seen = False
    for tid, t in events(run):
        k = t[0]
        if k == "cfg":
            continue
        if k == "pct":
            v = _v(t[1])
            if v != 0 or tid != 0:
                return "unexpected constructed payload %s" % t[1]
            val[0] = int(t[2])
        elif k == "call":
            call[tid] = t[1]
            cnt[tid] = dict(mlk=0, mul=0, pdt=0, pcp=0, prim=0, lmlk=0, lmul=0)
            if t[1] == "lockShared":
                lo[tid] = returned
            elif t[1] == "release":
                if tid not in handle:
                    return "thread %d releases a handle it does not own" % tid
                relstart.add(handle[tid])
            elif t[1] == "drop":
                v = _v(t[2])
                if v not in snaps.get(tid, []):
                    return "thread %d drops a snapshot of %s it does not hold" % (tid, t[2])
                snaps[tid].remove(v)
        elif k in ("ret", "exc"):
            c = cnt.get(tid, {})
            name = t[1]
            if name == "lockShared":
                v = _v(t[3])
                if v is None:
                    return "lock_shared returned an unknown / destroyed object (%s)" % t[3]
                if v in dead:
                    return "lock_shared returned destroyed version v%d" % v
                if v != 0 and v not in relstart:
                    return "lock_shared returned v%d, which nobody has released" % v
                if v not in depth:
                    return "lock_shared returned v%d, which is not a copy in the chain from v0" % v
                need = committed[lo[tid]]
                if depth[v] < depth[need]:
                    return ("lock_shared returned v%d although the release of v%d had returned before it was called"
                            % (v, need))
                if c.get("prim", 0) > 14:
                    return "%d atomic operations inside a lock_shared form" % c["prim"]
                snaps.setdefault(tid, []).append(v)
                frozen.add(v)
            elif name == "lock" and k == "ret":
                v = _v(t[2])
                if v is None or owner.get(v) != tid:
                    return "lock() returned %s, not a copy made by this call" % t[2]
                if c.get("mlk") != 1 or c.get("mul") != 0 or wm != tid:
                    return "lock() returned without holding the writer mutex exactly once"
                handle[tid] = v
            elif name == "lock" and k == "exc":
                if "L!" not in run["script"]:
                    return "lock() threw without an injected fault"
                if c.get("pcp"):
                    return "lock() threw after constructing a payload"
                if c.get("mlk") != 1 or c.get("mul") != 1 or wm == tid:
                    return "lock() threw: %d mlk / %d mul of the writer mutex" % (c.get("mlk", 0), c.get("mul", 0))
            elif name == "release":
                v = handle.pop(tid, None)
                if c.get("mul") != 1 or c.get("mlk") != 0 or wm == tid:
                    return "release of v%s: %d mul of the writer mutex" % (v, c.get("mul", 0))
                if v not in committed:
                    return "release of v%s returned without publishing it" % v
                returned = max(returned, committed.index(v))
            elif name == "cancel":
                v = handle.pop(tid, None)
                if c.get("mul") != 1 or wm == tid:
                    return "cancel of v%s: %d mul of the writer mutex" % (v, c.get("mul", 0))
                if c.get("pdt") != 1 or v not in dead:
                    return "cancel of v%s did not destroy the private copy exactly once" % v
                if c.get("lmlk") or v in committed:
                    return "cancel of v%s published something" % v
            call[tid] = None
        elif k in ("mlk", "mul") and t[1] == "wm":
            c = cnt.setdefault(tid, dict(mlk=0, mul=0, pdt=0, pcp=0, prim=0, lmlk=0, lmul=0))
            if call.get(tid) == "lockShared":
                return "writer mutex operation inside a lock_shared form"
            if k == "mlk":
                if wm is not None:
                    return "writer mutex granted to %d while %d holds it" % (tid, wm)
                if call.get(tid) != "lock":
                    return "thread %d takes the writer mutex outside lock()" % tid
                wm = tid
                c["mlk"] += 1
            else:
                if wm != tid:
                    return "thread %d unlocks the writer mutex it does not hold" % tid
                wm = None
                c["mul"] += 1
                if call.get(tid) == "release":
                    v = handle.get(tid)
                    if c["lmlk"] != 1 or c["lmul"] != 1:
                        return "release of v%s unlocked the writer mutex without a completed publication inside it" % v
                    committed.append(v)
                    frozen.add(v)
                    if parent.get(v) != committed[-2]:
                        return "lost update: v%s was copied from v%s but v%d was committed before it" % (v, parent.get(v), committed[-2])
        elif k in ("mlk", "mul") and t[1] == "lwm":
            c = cnt.setdefault(tid, dict(mlk=0, mul=0, pdt=0, pcp=0, prim=0, lmlk=0, lmul=0))
            if call.get(tid) != "release" or wm != tid:
                return "thread %d publishes (inner modify) outside the writer-mutex section of a release" % tid
            c["lmlk" if k == "mlk" else "lmul"] += 1
        elif k in ("mtl", "mtf", "cwt", "cwk", "yld", "slp", "slk", "stl", "stf"):
            if call.get(tid) == "lockShared":
                return "blocking operation '%s' inside a lock_shared form" % " ".join(t)
        elif k in ("ald", "ast", "rmw", "axc", "cas"):
            # failed compare-exchanges caused by other READERS (or spurious) are retries, not waiting for a writer
            failed_cas = k == "cas" and len(t) > 5 and t[5] == "0"
            justified = failed_cas and ("spurious" in t or (lastmod.get(t[1], (-1, None))[0] > lastseen.get((tid, t[1]), -1)
                                                          and lastmod[t[1]][1] != wm))
            if k in ("ast", "rmw", "axc") or (k == "cas" and not failed_cas):
                lastmod[t[1]] = (seq[0], tid)
            lastseen[(tid, t[1])] = seq[0]
            seq[0] += 1
            if tid in cnt and call.get(tid) and not justified:
                cnt[tid]["prim"] += 1
        elif k == "pcp":
            new, src, c0 = _v(t[1]), _v(t[2]), int(t[3])
            if call.get(tid) != "lock" or wm != tid:
                return "payload copied outside lock() / without the writer mutex"
            if src is None or src in dead:
                return "copy made from a destroyed payload"
            if src != committed[-1]:
                return "stale copy: v%d made from v%d, latest committed is v%d" % (new, src, committed[-1])
            if c0 != val.get(src):
                return "copy v%d starts with %d, its source v%d holds %s" % (new, c0, src, val.get(src))
            val[new] = c0
            parent[new] = src
            depth[new] = depth[src] + 1
            owner[new] = tid
            frozen.add(src)
            cnt[tid]["pcp"] += 1
        elif k == "pwr":
            v = _v(t[1])
            if v is None or v in dead:
                return "write to a destroyed payload"
            if v in frozen:
                return "write to v%d, which is published / held as a snapshot" % v
            if handle.get(tid) != v or wm != tid:
                return "thread %d writes v%d without owning its write handle and the writer mutex" % (tid, v)
            val[v] = int(t[2])
        elif k == "prd":
            v = _v(t[1])
            if v is None or v in dead:
                return "read of a destroyed payload"
            if int(t[2]) != val.get(v):
                return "thread %d read %s from v%d, last written value %s" % (tid, t[2], v, val.get(v))
            if v not in snaps.get(tid, []) and handle.get(tid) != v:
                return "thread %d read v%d without holding a snapshot or the write handle" % (tid, v)
        elif k == "pdt":
            v = _v(t[1])
            if v is None:
                return "destruction of an unknown payload"
            if v in dead:
                return "v%d destroyed twice" % v
            for u, l in snaps.items():
                if v in l:
                    return "v%d destroyed while thread %d holds a snapshot of it" % (v, u)
            if fin_seen:
                if v != committed[-1] or tid != 0:
                    return "v%d destroyed after the end of the run" % v
            else:
                replacing = wm is not None and call.get(wm) == "release" and cnt[wm]["lmlk"] >= 1
                if v == committed[-1] and not replacing:
                    return "the committed version v%d destroyed" % v
                if replacing and v == handle.get(wm):
                    return "v%d destroyed while it is being published" % v
                for u, h in handle.items():
                    # a version whose release has already unlocked the writer mutex is committed, no longer a private copy
                    # (its releasing thread may still be on its way out of release())
                    if h == v and v not in committed and not (u == tid and call.get(tid) in ("cancel", "release")):
                        return "private copy v%d of a live write handle destroyed" % v
                if handle.get(tid) == v and call.get(tid) == "release":
                    return "release destroyed its own new version v%d" % v
            dead.add(v)
            if tid in cnt:
                cnt[tid]["pdt"] += 1
        elif k == "fin":
            fin_seen = True
            l, r, c0 = _v(t[1]), _v(t[2]), int(t[3])
            if l != committed[-1] or r != committed[-1]:
                return "final sides %s / %s, last released version v%d" % (t[1], t[2], committed[-1])
            if c0 != val.get(l):
                return "final value %d, last written to v%d: %s" % (c0, l, val.get(l))
            chain = [l]
            while chain[-1] != 0 and len(chain) < 10000:
                chain.append(parent.get(chain[-1], 0))
            if list(reversed(chain)) != committed:
                return "no-lost-update chain broken: parents of the final version %s, releases in unlock order %s" % (
                    list(reversed(chain)), committed)
    if fin_seen:
        left = [v for v in val if v not in dead]
        if left:
            return "payloads never destroyed: %s" % left
        if any(snaps.values()) or handle:
            return "run ended with handles alive"
    return None


COW_TRUST = ["Model/Cow.lean is a hand-written model of cow_guarded.hpp (lock(), the handle's deleter = release, cancel(), handle "
             "move, lock_shared and its three try forms) whose state EMBEDS the left-right model's state: every primitive "
             "operation on m_data (two flags, two counters, inner write mutex, the assignments to the two shared_ptr copies) is "
             "delegated to LR.step — the function the C03 theorems are about — so lr_guarded's guarantees are used as lemmas, "
             "not re-assumed; readers are modelled exactly (C14 counts their 7 steps), the publication inherits the LR writer's "
             "stage-B discipline, cancel() accepts unlock and destruction in either order",
             "shared_ptr reference counts live inside libstdc++ and are not traced: the model keeps a ghost reference ledger (one "
             "entry per snapshot handle + the two sides) and checks it against the only observable consequences — which payload "
             "object is destroyed, by whom and when (harness/vpayload_cow.hpp: traced multi-word payload with a version id, "
             "liveness registry, quarantined memory); the moment at which the side being assigned gives up its old reference "
             "lies between two traced plain stores, so inside that window either the writer or a concurrently dropping reader may "
             "be the destroyer (the model requires that exactly one of them is, before the window closes)",
             "plain-access tap on m_data.m_left / m_right (tap_opts: pointer values printed as version names, every tapped access "
             "a scheduling point); Driver/Cow.lean maps `pld/pst left|right` to pointer-word events and `+8` to control-word "
             "events, parses m_data's atomics through the LR driver (seq_cst only), ignores the constructor's `pct v0 0` and the "
             "destruction of the wrapper after `fin`"]
COW_ASSUME = ["seq_cst atomics and std::mutex are interleaved cells (the C++-memory-model half of the quantifier is C07's)",
              "client obligations: a thread does not call lock() while it owns a write handle (it would wait for itself); handles "
              "and snapshots stay in their thread; the wrapper is destroyed after all handles and snapshots",
              "std::shared_ptr's control block is correct (atomic counts, object destroyed by the thread that drops the last "
              "reference); T's destructor does not throw"]
COW_TIE = (" Tied to the source on every run: the unmodified header, instantiated with a traced multi-word payload, runs under a "
           "deterministic scheduler (readers parked inside lock_shared so that both wait loops of the publication iterate, stale "
           "readers, snapshots kept across commits and dropped inside the publication's assignment window, cancel and a throwing "
           "copy constructor under contention); every primitive-level trace must be accepted by the model's step function — "
           "including version ids, values and the thread that destroys each version — with all 95 model edges of today's code "
           "covered, and every line / member function of cow_guarded.hpp executed.")
TRY_LOCK_NOTE = ("cow_guarded::try_lock / try_lock_for / try_lock_until cannot be instantiated (compile error: `return handle();` "
                 "needs a default-constructible deleter, g++ 12 and clang 14) — they are dead code today; textually they are lock() "
                 "(they BLOCK on the writer mutex: `unique_lock<M> guard(m_writeMutex)` without try_to_lock) plus an unreachable "
                 "null check, so the model's lock() covers what they would do")


def register(PROPS, COMPONENTS):
    base = dict(client="cow", tap=True, directed_runs=12, quick_runs=1500, thorough_runs=40000, oracle=oracle_cow,
                cov_headers=["gmlc/libguarded/cow_guarded.hpp"],
                # cannot be instantiated at all (see TRY_LOCK_NOTE); handle's constructors are inherited from unique_ptr
                inst_allow=[r"cow_guarded::try_lock$", r"cow_guarded::try_lock_for$", r"cow_guarded::try_lock_until$"])
    COMPONENTS["cow"] = dict(base, driver="cow")
    COMPONENTS["cow_strict"] = dict(base, driver="cow_strict")
    PROPS["C04"] = dict(
        lean_files=["ConcVerif/Props/C04.lean"], components=["cow"], stage="B",
        level_text="Lean 4 theorems (kernel-checked; unbounded threads, handles, snapshots and interleavings, throwing copy "
                   "constructor included) over an executable model of cow_guarded.hpp that embeds the left-right model and "
                   "delegates every primitive operation on m_data to it: every payload write goes to a private version that is "
                   "on no side, in no snapshot and not committed, and no step changes the value of a published version; a "
                   "snapshot handle keeps naming the same live version with the same value from its creation to its drop, "
                   "whatever happens in between (trace form); a version is destroyed only when no snapshot handle, no attached "
                   "side, no copy in progress and no other write handle refers to it, never twice, and a thread that drops the "
                   "last reference cannot continue without destroying; the writer mutex is owned exactly from lock() to release / "
                   "cancel / unwinding, by one thread, and m_data.modify runs only inside it; lock() copies the latest committed "
                   "version and it still is the latest when the handle commits; each committed version's parent is the previous "
                   "one, committed = released (+ the one pending) in unlock order — no lost update; a copy made by a lock_shared "
                   "called after a release returned yields that version or a later one (from C03's real-time theorem); cancel "
                   "unlocks once, destroys the private copy once, touches nothing else." + COW_TIE,
        level_note="Trusted: Lean kernel (+propext, Classical.choice, Quot.sound), primitive semantics of seq_cst atomics / "
                   "std::mutex as interleaved cells, std::shared_ptr's control block, shim + scheduler + tap + payload + driver "
                   "glue. Sequentially consistent interleavings only. " + TRY_LOCK_NOTE + ".",
        trusted_base=COW_TRUST, assumptions=COW_ASSUME,
        partial=["try_lock / try_lock_for / try_lock_until: not exercised — they cannot be instantiated (see level_note)"],
    )


PARTS = {
    "C14": dict(
        lean_files=["ConcVerif/Props/C14_cow.lean"], components=["cow_strict"],
        trusted_base=COW_TRUST, assumptions=COW_ASSUME,
        partial=["cow_guarded: 'a writer completes once the readers inside an acquisition have left' is proved as safety facts "
                 "(lock() enabled iff the writer mutex is free; inner mutex never contended; the wait loops are the LR model's, "
                 "on a reachable LR state, so the C14_lr facts apply; only threads inside lock_shared / the read phase of lock() "
                 "are registered — a kept snapshot never delays a writer); the fair-scheduler termination step is not mechanised"]),
    "C20": dict(
        lean_files=["ConcVerif/Props/C20_cow.lean"], components=["cow"],
        trusted_base=COW_TRUST, assumptions=COW_ASSUME, partial=[]),
}
