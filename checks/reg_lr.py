"""lr_guarded (gmlc/libguarded/lr_guarded.hpp): component entry, trace-level oracle, property entry C03 and the
lr parts of C14 / C20."""
import re


def events(run):
    for l in run["trace"]:
        t = l.split()
        yield int(t[0]), t[1:]


def _lst(s):
    return [] if s == "-" else [int(x) for x in s.split(".")]


def _effective(script):
    """op id -> does the modification take effect?  (normal return, or the SECOND application throws: rolled forward)"""
    eff = {}
    for part in script.split(";")[1:]:
        for op in part.split(","):
            m = re.match(r"M(\d+)(?:!(\d)(\w))?$", op)
            if m:
                eff[int(m.group(1))] = (m.group(2) is None) or m.group(2) == "2"
    return eff


def oracle_lr(run):
    """Property-level checks on the raw trace, independent of the Lean model's pcs.
    C03 (a) all reads through one handle return the same value;
        (b) every value read is E[:n] where E = the effective modifications in write-mutex acquisition order
            (never a partial / reordered / foreign list), with n <= number of them whose modify had locked by then;
        (c) real time: n >= number of effective modifications whose modify had returned (or rethrown) before the
            handle's lock_shared was called;
        (d) the values one thread reads never get shorter;
        (e) access windows: no write window (functor / roll-back / roll-forward copy, or a copy left torn by a
            throwing functor) on a copy overlaps a handle pointing to that copy; write windows of different
            threads do not overlap at all; every write window lies inside its thread's write-mutex section;
        (f) at the end both copies equal E.
    C14 no mutex / yield / condition event and at most 12 (6) primitive operations inside lock_shared (handle destruction):
        a constant bound (the code needs 3 and 1) that a loop waiting for a writer exceeds under some schedule.
    C20 every modify — also one that throws — contains exactly one mlk and one mul of the write mutex, nothing is held
        at ret/exc; after a throw the values seen later obey (b)-(f) (first application: no effect, second: full effect)."""
    eff = _effective(run["script"])
    evs = list(events(run))
    # pass 1: write-mutex acquisition order
    cur_mod = {}
    order = []
    for tid, t in evs:
        if t[0] == "call" and t[1] == "modify":
            cur_mod[tid] = int(t[2])
        elif t[0] == "mlk" and t[1] == "wm":
            if tid not in cur_mod:
                return "thread %d took the write mutex outside modify" % tid
            order.append(cur_mod[tid])
    E = [k for k in order if eff.get(k, True)]
    # pass 2
    locked_eff = 0      # effective modifies that have locked so far
    done_eff = 0        # effective modifies that have returned / rethrown so far
    cur_mod = {}
    in_call = {}        # tid -> 'ls' | 'rel' | 'modify'
    prims = {}          # tid -> primitive ops inside the current read-side call
    lo = {}             # tid -> done_eff at its call ls
    side = {}           # tid -> copy its handle points to
    hvals = {}          # tid -> values read through the current handle
    last_len = {}       # tid -> length of the last value read
    writing = {}        # copy -> tid inside a write window (or that left it torn)
    holder = None
    locks = {}
    unlocks = {}
    waiting = None      # (writer tid, counter name, index of the load that found it non-zero): C14 writer progress
    call_idx = {}       # tid -> index of its current `call ls`
    lastmod = {}        # atomic cell -> (index, tid) of its last modification
    lastseen = {}       # (tid, cell) -> index of the thread's last operation on the cell
    for idx, (tid, t) in enumerate(evs):
        k = t[0]
        # ---- C14, writer side: "a writer is delayed only by read handles that are still held" ----------------------
        # While the writer spins on counter X, a reader whose lock_shared was CALLED after that wait began must not
        # register in X: it would delay the writer although it did not hold a handle when the wait started, and a
        # stream of such readers delays it for ever (livelock) — a finite witness of an unbounded delay.
        if k == "ald" and t[1] in ("lc", "rc") and tid == holder:
            if t[3] != "0":
                if waiting is None or waiting[1] != t[1]:
                    waiting = (tid, t[1], idx)
            elif waiting is not None and waiting[1] == t[1]:
                waiting = None
        elif (k == "ast" and t[1] == "cl") or (k == "mul" and t[1] == "wm"):
            waiting = None
        elif k == "rmw" and t[1] in ("lc", "rc") and t[4] == "1" and waiting is not None and waiting[1] == t[1]:
            if call_idx.get(tid, -1) > waiting[2]:
                return ("writer (thread %d) spinning on counter %s is delayed by thread %d, whose lock_shared was called after the "
                        "writer began to wait: later readers can delay the writer for ever (livelock)" % (waiting[0], t[1], tid))
        if k == "call":
            in_call[tid] = t[1]
            prims[tid] = 0
            if t[1] in ("rel", "ls"):
                side.pop(tid, None)     # the client stops reading through a handle when it calls its destruction
            if t[1] == "ls":
                call_idx[tid] = idx
                lo[tid] = done_eff
                hvals[tid] = []
            elif t[1] == "modify":
                cur_mod[tid] = int(t[2])
                locks[tid] = 0
                unlocks[tid] = 0
        elif k in ("ret", "exc"):
            if t[1] == "modify":
                if holder == tid:
                    return "thread %d left modify %s still holding the write mutex" % (tid, t[2])
                if locks.get(tid) != 1 or unlocks.get(tid) != 1:
                    return "modify %s: %d mlk, %d mul of the write mutex" % (t[2], locks.get(tid, 0), unlocks.get(tid, 0))
                e = eff.get(int(t[2]), True)
                if k == "exc" and t[2] and not re.search(r"M%s!" % t[2], run["script"]):
                    return "modify %s threw without an injected fault" % t[2]
                if e:
                    done_eff += 1
                for c, w in writing.items():
                    if w == tid:
                        return "thread %d left modify with copy %s still in a write window / torn" % (tid, c)
            elif t[1] in ("ls", "rel"):
                # wait-freedom as a bound that no spin can meet but a rewrite with a redundant load or a retry-free CAS can:
                # the code needs 3 (1); anything that WAITS for a writer exceeds any constant under some schedule
                lim = 12 if t[1] == "ls" else 6
                if prims.get(tid, 0) > lim:
                    return "%d primitive operations inside %s" % (prims[tid], "lock_shared" if t[1] == "ls" else "handle destruction")
            in_call[tid] = None
        elif k in ("mlk", "mtl", "mtf", "cwt", "yld", "slp", "slk") and in_call.get(tid) in ("ls", "rel"):
            return "blocking operation '%s' inside %s" % (" ".join(t), "lock_shared" if in_call[tid] == "ls" else "handle destruction")
        elif k == "mlk" and t[1] == "wm":
            if holder is not None:
                return "write mutex granted to %d while %d holds it" % (tid, holder)
            holder = tid
            locks[tid] = locks.get(tid, 0) + 1
            if eff.get(cur_mod.get(tid), True):
                locked_eff += 1
        elif k == "mul" and t[1] == "wm":
            if holder != tid:
                return "thread %d unlocked the write mutex it does not hold" % tid
            holder = None
            unlocks[tid] = unlocks.get(tid, 0) + 1
        elif k in ("ald", "ast", "rmw", "axc", "cas"):
            # a FAILED compare-exchange that is spurious, or that failed because another READER changed the cell since this
            # thread last looked at it, is a retry caused by readers, not waiting for a writer: it does not count
            failed_cas = k == "cas" and len(t) > 5 and t[5] == "0"
            justified = failed_cas and ("spurious" in t or (lastmod.get(t[1], (-1, None))[0] > lastseen.get((tid, t[1]), -1)
                                                          and lastmod[t[1]][1] != holder))
            if k in ("ast", "rmw", "axc") or (k == "cas" and not failed_cas):
                lastmod[t[1]] = (idx, tid)
            lastseen[(tid, t[1])] = idx
            if in_call.get(tid) in ("ls", "rel") and not justified:
                prims[tid] = prims.get(tid, 0) + 1
        elif k in ("pwb", "cpb"):
            c = t[1]
            if holder != tid:
                return "thread %d writes copy %s without holding the write mutex" % (tid, c)
            for w in writing.values():
                if w != tid:
                    return "write windows of threads %d and %d overlap" % (tid, w)
            for r, s in side.items():
                if s == c:
                    return "thread %d starts writing copy %s while thread %d holds a handle to it" % (tid, c, r)
            writing[c] = tid
        elif k in ("pwr", "cpe"):
            c = t[1]
            for r, s in side.items():
                if s == c:
                    return "thread %d writes copy %s while thread %d holds a handle to it" % (tid, c, r)
            if writing.get(c) != tid:
                return "end of a write window on %s that thread %d did not open" % (c, tid)
            del writing[c]
        elif k == "prd":
            c = t[1]
            # the copy a handle points to is learnt from the first read through it (stated on the reads and the write
            # windows only, not on how lock_shared / the deleter are coded)
            if tid in side and side[tid] != c:
                return "thread %d read copy %s, its handle pointed to %s before" % (tid, c, side.get(tid))
            side[tid] = c
            if c in writing:
                return "thread %d read copy %s through its handle while thread %d is writing it" % (tid, c, writing[c])
            v = _lst(t[2])
            n = len(v)
            if v != E[:n]:
                return "thread %d read %s which is not a prefix of the modifications in write-mutex order %s" % (tid, v, E)
            if n > locked_eff:
                return "thread %d read %s: contains a modification that had not started" % (tid, v)
            if n < lo.get(tid, 0):
                return "thread %d read %s but %d modifications had returned before its lock_shared was called" % (tid, v, lo[tid])
            if hvals.get(tid) and hvals[tid][-1] != v:
                return "thread %d: value changed under one handle: %s then %s" % (tid, hvals[tid][-1], v)
            hvals.setdefault(tid, []).append(v)
            if n < last_len.get(tid, 0):
                return "thread %d read a shorter value (%d) after a longer one (%d)" % (tid, n, last_len[tid])
            last_len[tid] = n
        elif k == "fin":
            if _lst(t[1]) != E or _lst(t[2]) != E:
                return "final copies %s / %s, modifications in write-mutex order %s" % (t[1], t[2], E)
            if writing:
                return "run ended with copy %s in a write window / torn" % list(writing)[0]
    return None


LR_TRUST = ["Model/LR.lean is a hand-written model of lr_guarded.hpp (lock_shared and its try forms, the handle deleter, modify "
            "with both catch blocks): readers exactly as coded; the writer as the weakest discipline the proofs need (stage B: "
            "mutex held; first application on the side the flag points away from, then the flip; any loads / counting-flag "
            "stores / yields while waiting; second application only after BOTH counters were observed at zero since the flip)",
            "harness/vpayload_lr.hpp: the traced multi-word payload (list of operation ids with a trailing check word) whose "
            "begin/end-of-write, copy and read events carry the values the model compares with its own",
            "Driver/LR.lean only parses seq_cst atomic operations: a weaker memory order on any lr_guarded atomic is rejected"]
LR_ASSUME = ["seq_cst atomics and std::mutex are interleaved cells (the C++-memory-model half of the quantifier is C07's)",
             "client obligations: a thread owns at most one shared_handle at a time and does not call modify while owning one "
             "(it would wait for itself); handles stay in their thread",
             "the functor makes the same modification in both applications (documented requirement); T's copy assignment does "
             "not throw inside the roll-back / roll-forward (documented as leaving the data indeterminate)"]
LR_TIE = (" Tied to the source on every run: the unmodified header, instantiated with a traced multi-word payload, runs under "
          "a deterministic scheduler (readers parked inside handles so that both wait loops iterate, both initial sides, functors "
          "throwing before / in the middle of / after either application); every primitive-level trace must be accepted by "
          "the model's step function — including the observed payload values — with all 56 model edges of today's code covered.")


def register(PROPS, COMPONENTS):
    base = dict(client="lr", directed_runs=12, quick_runs=1600, thorough_runs=60000, oracle=oracle_lr,
                cov_headers=["gmlc/libguarded/lr_guarded.hpp"])
    # same client, same model; "lr" checks the safety discipline only, "lr_strict" additionally the writer-progress
    # discipline (a wait iteration only on the counter new readers are not directed to), which C14 needs
    COMPONENTS["lr"] = dict(base, driver="lr")
    COMPONENTS["lr_strict"] = dict(base, driver="lr_strict")
    PROPS["C03"] = dict(
        lean_files=["ConcVerif/Props/C03.lean"], components=["lr"], stage="B",
        level_text="Lean 4 theorems (kernel-checked; unbounded threads, calls and interleavings, throwing functors included) over "
                   "an executable model of lr_guarded.hpp at the level of its two flags, two reader counters, write mutex and "
                   "whole-object accesses of the two copies, with payload values: while a handle points to a copy no step changes "
                   "that copy (state, step and trace forms); every value read is `committed` or `committed` minus the one operation "
                   "in progress, never partial; a lock_shared called after modify(op) returned yields a copy containing op and "
                   "everything committed before; each thread's reads — and every new handle relative to all earlier reads of all "
                   "threads — are prefix-ordered; `committed` is append-only, extended only by the mutex holder with its own "
                   "operation; both copies pass through the same states and are equal to `committed` whenever the mutex is free." + LR_TIE,
        level_note="Trusted: Lean kernel (+propext, Classical.choice, Quot.sound), primitive semantics of seq_cst atomics / "
                   "std::mutex as interleaved cells, shim + scheduler + payload + driver glue. Sequentially consistent "
                   "interleavings only (all atomics in the header are seq_cst; a weaker order is rejected by the driver).",
        trusted_base=LR_TRUST, assumptions=LR_ASSUME, partial=[],
    )


PARTS = {
    "C14": dict(
        lean_files=["ConcVerif/Props/C14_lr.lean"], components=["lr_strict"],
        trusted_base=LR_TRUST, assumptions=LR_ASSUME,
        partial=["lr_guarded: 'a writer completes once the handles are released' is proved as the safety facts (counter exactness; "
                 "a counter with nobody registered is observed at zero; second application enabled once both were; constructive "
                 "3-step completion when nobody is registered; in strict mode wait iterations only on the counter closed to new "
                 "arrivals, which gains members only from readers that had loaded the counting flag before; holder always "
                 "enabled; lock enabled when free) PLUS, without any fairness assumption (Proof/LRLive.lean, relational form of "
                 "Base/Live.lean): C14_lr_writer_terminates_partial / C14_lr_infinite_means_env_or_spin — every infinite execution "
                 "contains, after every point, a client decision (call, read through a handle) or an idle step of the holder of the "
                 "write mutex (wait iteration, yield, redundant load; the only steps that do not lower the rank, "
                 "C14_lr_idle_step_is_spin); C14_lr_spin_fails_only_registered — a wait iteration happens only while a reader is "
                 "registered in that counter; C14_lr_stuck_means_handles_held / C14_lr_stuck_no_handle_all_returned — when no thread "
                 "can make a progress step, every thread inside a call is a client keeping a read handle, a writer waiting for a "
                 "counter all of whose registered readers are such clients, or a modify waiting for the mutex of such a writer. A "
                 "fairness-free 'modify terminates' is false (C14_lr_spin_can_go_on_for_ever: with a handle kept, the wait iteration is "
                 "a self-loop of the state), so the name carries `_partial`. NOT proved: that the writer's wait ends when registered "
                 "readers are mid-acquisition / mid-release but never scheduled (needs a fair scheduler), and starvation of one "
                 "modify by infinitely many others under an unfair mutex"]),
    "C20": dict(
        lean_files=["ConcVerif/Props/C20_lr.lean"], components=["lr"],
        trusted_base=LR_TRUST, assumptions=LR_ASSUME,
        partial=["lr_guarded: a throw of T's copy assignment inside the roll-back / roll-forward (documented 'indeterminate') "
                 "is not modelled"]),
}
