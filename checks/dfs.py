"""dfs.py — systematic (exhaustive, preemption-bounded) exploration of the directed scripts (thorough tier).

Stateless depth-first search over decision prefixes.  The client's strategy 4 (harness/vrt.cpp) follows a prefix P exactly and
continues with a deterministic default policy; it reports the decisions D it took and, for every position i >= len(P), the
alternatives that were available there (other enabled threads incl. time-out / spurious wake-up, other values of
verif::choose / chance).  Every alternative a at i gives the new prefix D[:i] + [a].  An alternative has a cost:
  bit 0  preemption  (switches away from a thread that is still enabled and not spinning),
  bit 1  weak event  (time-out while other work is available, spurious wake-up, late wake-up, spurious CAS failure);
default decisions cost nothing, so cost(prefix) = sum of the costs of the alternatives taken.  Prefixes with more than
VERIF_DFS_PREEMPTIONS (2) preemptions or more than VERIF_DFS_WEAK (1) weak events are not explored.  Within these bounds the
enumeration of a script is COMPLETE (every decision sequence of the scheduler within the bounds is run exactly once) unless
the per-script run budget VERIF_DFS_RUNS (3000) or the time budget (VERIF_DFS_TIME, 120 s per component; VERIF_DFS_TOTAL,
300 s for all components of a property) cuts it short; work is
done in order of increasing cost, so a truncated script still has every schedule up to `complete_level` enumerated.
Every run goes through the same pipeline as the random runs: Lean driver, python oracle, C++ monitors.

The scheduler's own fairness rule applies to all strategies alike: a thread that has just yielded / slept is not chosen
while another enabled thread has not (otherwise spin loops make the tree infinite).
"""
import hashlib
import os
import subprocess
import time

PB = int(os.environ.get("VERIF_DFS_PREEMPTIONS", "2"))
WB = int(os.environ.get("VERIF_DFS_WEAK", "1"))
RUNS = int(os.environ.get("VERIF_DFS_RUNS", "3000"))
TIME = float(os.environ.get("VERIF_DFS_TIME", "120"))      # per component
TOTAL = float(os.environ.get("VERIF_DFS_TOTAL", "300"))    # all components of one property together (see check.explore)
ENABLED = os.environ.get("VERIF_DFS", "1") != "0"

_CTX = {}   # set before the worker pool is forked: exe, seed, driver, comp, oracle, parse_runs


def parse_alts(text):
    """'ALTS' payload -> (diverged_pos or -1, [(pos, dec, kind)])"""
    div = -1
    alts = []
    for part in text.strip().split(";"):
        if not part:
            continue
        if part.startswith("!"):
            div = int(part[1:])
            continue
        pos, lst = part.split(":", 1)
        for a in lst.split(","):
            if "/" in a:
                d, k = a.split("/")
                alts.append((int(pos), int(d), int(k)))
            else:
                alts.append((int(pos), int(a), 0))
    return div, alts


def _drive(text):
    p = subprocess.run([_CTX["driver"], _CTX["comp"]], input=text, stdout=subprocess.PIPE, stderr=subprocess.STDOUT, text=True,
                       timeout=1200)
    verdicts = []
    events = 0
    for l in p.stdout.split("\n"):
        if l.startswith(("ACCEPT", "REJECT")):
            verdicts.append(l)
        elif l.startswith("SUMMARY"):
            for kv in l.split()[1:]:
                if kv.startswith("events="):
                    events = int(kv[7:])
    return verdicts, events


def _work(jobs):
    """jobs: [(script, 'd,d,..' or '')] -> one result per job (same order)"""
    inp = "".join("%s %s\n" % (s, p or "-") for s, p in jobs)
    try:
        p = subprocess.run([_CTX["exe"], "--batch", "--seed", str(_CTX["seed"])], input=inp, stdout=subprocess.PIPE,
                           stderr=subprocess.DEVNULL, text=True, timeout=900)
        out = p.stdout
    except subprocess.TimeoutExpired as e:
        out = (e.stdout or b"").decode(errors="replace") if isinstance(e.stdout, bytes) else (e.stdout or "")
    segs = []
    for l in out.split("\n"):
        if l.startswith("START "):
            segs.append([l])
        elif segs:
            segs[-1].append(l)
    runs = []
    for k in range(len(jobs)):
        r = None
        if k < len(segs):
            rs = _CTX["parse_runs"]("\n".join(segs[k]) + "\n")
            if rs:
                r = rs[0]
                if r["status"] == "incomplete" and not r["crashlog"]:
                    r["crashlog"] = ["job ended without END and without a crash report"]
        runs.append(r)
    done = []
    text = []
    for k, r in enumerate(runs):
        if r is not None and r["status"] not in ("crash", "incomplete"):
            done.append(r)
            text += [l for l in segs[k] if l and not l.startswith(("START ", "ALTS ", "CRASH ", "CRASHLOG "))]
    text = "\n".join(text) + "\n"
    verdicts, events = _drive(text) if done else ([], 0)
    mismatch = len(verdicts) != len(done)
    if not mismatch:
        for r, v in zip(done, verdicts):
            r["verdict"] = v
    oracle = _CTX.get("oracle")
    res = []
    for (script, prefix), r in zip(jobs, runs):
        if r is None:
            res.append(dict(lost=True))
            continue
        bad = []
        if r["status"] in ("crash", "incomplete"):
            bad.append(("crash", "\n".join(r["crashlog"])[-2000:] or r["status"]))
        else:
            if r["status"].startswith("deadlock") or r["status"] == "steplimit":
                bad.append(("monitor", r["status"]))
            for f in r["fails"]:
                bad.append(("monitor", f))
            if oracle is not None:
                why = oracle(r)
                if why:
                    bad.append(("oracle", why))
            if r.get("verdict", "").startswith("REJECT"):
                bad.append(("reject", r["verdict"].split("||")[0].strip()))
        div, alts = parse_alts(r.get("alts", ""))
        res.append(dict(lost=False, status=r["status"], decisions=r["decisions"], alts=alts, diverged=div, bad=bad,
                        run=r if bad else None, th=hashlib.sha256("\n".join(r["trace"]).encode()).digest()[:8],
                        accepted=r.get("verdict", "").startswith("ACCEPT"), rejected=r.get("verdict", "").startswith("REJECT"),
                        mismatch=mismatch))
    if res:
        res[0]["events"] = events
    return res


class _Script:
    def __init__(self, text):
        self.text = text
        self.frontier = {0: [("", 0, 0)]}   # total cost -> stack of (prefix 'd,d,..', preemptions, weak events)
        self.runs = 0
        self.cut_level = None    # lowest cost level at which work was thrown away because of a budget (None: nothing was)
        self.incomplete = False  # a job was lost / diverged: the tree below it is not enumerated
        self.stopped = False     # a failing run was found: the rest of this script's tree is not needed
        self.bounded = 0         # alternatives not followed because they exceed the bounds
        self.seen = set()

    def pending(self):
        return sum(len(v) for v in self.frontier.values())

    def cut(self, level):
        self.cut_level = level if self.cut_level is None else min(self.cut_level, level)

    def pop(self, n):
        out = []
        while len(out) < n:
            lv = [c for c, v in self.frontier.items() if v]
            if not lv:
                break
            out.append(self.frontier[min(lv)].pop())
        return out

    def push(self, item, budget_left):
        """keep a new prefix unless the run budget cannot reach it (everything of lower or equal cost runs first)"""
        k = item[1] + item[2]
        if sum(len(v) for c, v in self.frontier.items() if c <= k) >= budget_left:
            self.cut(k)
            return
        h = hashlib.blake2b(item[0].encode(), digest_size=8).digest()
        if h in self.seen:
            return
        self.seen.add(h)
        self.frontier.setdefault(k, []).append(item)

    def exhausted(self):
        return self.cut_level is None and not self.incomplete and not self.stopped and not self.pending()

    def complete_level(self):
        """every schedule of total cost <= this level has been run"""
        if self.exhausted():
            return PB + WB
        lv = [c for c, v in self.frontier.items() if v] + ([self.cut_level] if self.cut_level is not None else [])
        return max(-1, (min(lv) - 1) if lv else -1)


def explore_component(cname, c, exe, seed, driver, parse_runs, ncpu=16, time_budget=None, scripts=None):
    """returns (stats dict, problems list of dict(kind, component, detail, run)) — problems in the format of check.explore"""
    from concurrent.futures import ProcessPoolExecutor
    import multiprocessing
    t0 = time.time()
    tb = TIME if time_budget is None else time_budget
    if scripts is None:
        out = subprocess.run([exe, "--list-directed"], stdout=subprocess.PIPE, text=True).stdout
        scripts = [l.strip() for l in out.split("\n") if l.strip()]
    S = [_Script(t) for t in dict.fromkeys(scripts)]
    _CTX.clear()
    _CTX.update(exe=exe, seed=seed, driver=driver, comp=c["driver"], oracle=c.get("oracle"), parse_runs=parse_runs)
    problems = []
    tot = dict(runs=0, events=0, accepted=0, rejected=0, deadlocks=0, steplimits=0, diverged=0, lost=0, mismatch=0)
    traces = set()
    timed_out = False
    round_size = ncpu * 40
    with ProcessPoolExecutor(max_workers=ncpu, mp_context=multiprocessing.get_context("fork")) as ex:
        while True:
            active = [s for s in S if s.pending() and not s.stopped]
            if not active:
                break
            if time.time() - t0 > tb:
                timed_out = True
                break
            quota = max(8, round_size // len(active))
            jobs = []
            for s in active:
                n = min(quota, RUNS - s.runs)
                items = s.pop(n) if n > 0 else []
                if s.runs + len(items) >= RUNS and s.pending():
                    # run budget used up: the rest of the frontier is dropped
                    s.cut(min(c_ for c_, v in s.frontier.items() if v))
                    s.frontier = {}
                for it in items:
                    jobs.append((s, it))
                s.runs += len(items)
            if not jobs:
                break
            nchunk = min(len(jobs), ncpu * 2)
            per = (len(jobs) + nchunk - 1) // nchunk
            chunks = [jobs[i:i + per] for i in range(0, len(jobs), per)]
            results = list(ex.map(_work, [[(s.text, it[0]) for s, it in ch] for ch in chunks]))
            for ch, rs in zip(chunks, results):
                for (s, (prefix, npre, nweak)), r in zip(ch, rs):
                    tot["runs"] += 1
                    tot["events"] += r.get("events", 0)
                    if r["lost"]:
                        tot["lost"] += 1
                        s.incomplete = True
                        continue
                    traces.add(r["th"])
                    tot["accepted"] += 1 if r["accepted"] else 0
                    tot["rejected"] += 1 if r["rejected"] else 0
                    tot["mismatch"] += 1 if r["mismatch"] else 0
                    tot["deadlocks"] += 1 if r["status"].startswith("deadlock") else 0
                    tot["steplimits"] += 1 if r["status"] == "steplimit" else 0
                    if r["diverged"] >= 0:
                        # cannot happen for a deterministic client; the subtree below this prefix is not enumerated
                        tot["diverged"] += 1
                        s.incomplete = True
                    for kind, detail in r["bad"]:
                        if (kind != "reject" and not s.stopped) or sum(1 for q in problems if q["kind"] == "reject") < 10:
                            run = dict(r["run"])
                            run["dfs"] = dict(prefix=prefix, preemptions=npre, weak=nweak, run_no=tot["runs"], script_run_no=s.runs)
                            problems.append(dict(kind=kind, component=cname, detail=detail, run=run))
                        if kind != "reject":
                            s.stopped = True
                    if s.stopped:
                        continue
                    dec = r["decisions"].split(",") if r["decisions"] else []
                    plen = len(prefix.split(",")) if prefix else 0
                    left = RUNS - s.runs
                    for pos, d, kind in r["alts"]:
                        if pos < plen:
                            continue
                        p2, w2 = npre + (kind & 1), nweak + ((kind >> 1) & 1)
                        if p2 > PB or w2 > WB:
                            s.bounded += 1
                            continue
                        if left <= 0:
                            s.cut(p2 + w2)
                            continue
                        s.push((",".join(dec[:pos] + [str(d)]), p2, w2), left)
    for s in S:
        if s.pending() and not s.stopped:
            s.cut(min(c_ for c_, v in s.frontier.items() if v))   # time budget
    exhausted = [s for s in S if s.exhausted()]
    stats = dict(scripts=len(S), runs=tot["runs"], exhausted_scripts=len(exhausted), truncated_scripts=len(S) - len(exhausted),
                 preemption_bound=PB, weak_event_bound=WB, run_budget_per_script=RUNS, time_budget_s=round(tb, 1),
                 time_budget_hit=timed_out, wall_s=round(time.time() - t0, 2), distinct_traces=len(traces),
                 events=tot["events"], accepted=tot["accepted"], rejected=tot["rejected"], deadlocks=tot["deadlocks"],
                 steplimits=tot["steplimits"], diverged=tot["diverged"], lost=tot["lost"], verdict_mismatch=tot["mismatch"],
                 min_complete_level=min([s.complete_level() for s in S] or [0]),
                 per_script=[dict(script=s.text, runs=s.runs, exhausted=s in exhausted,
                                  complete_level=s.complete_level(), bound_pruned=s.bounded,
                                  stopped_on_failure=s.stopped) for s in S])
    if tot["mismatch"]:
        problems.append(dict(kind="reject", component=cname, run=None,
                             detail="dfs: driver produced a different number of verdicts than runs in %d jobs" % tot["mismatch"]))
    return stats, problems
