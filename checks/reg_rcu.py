"""rcu_list + rcu_guarded: component entry, trace-level oracle, property entries C13 / C05 / C12 and the rcu part of C14."""
import re


def events(run):
    for l in run["trace"]:
        t = l.split()
        yield int(t[0]), t[1:]


_BLK = re.compile(r"^([NZ]\d+)(?:\.(\w+))?$")


def _block_of(name):
    m = _BLK.match(name)
    return (m.group(1), m.group(2) or "next") if m else (None, None)


class _RefList:
    """sequential reference semantics of rcu_list (single thread): nodes keep their `next` after erase"""

    def __init__(self):
        self.head = None
        self.tail = None
        self.nodes = []

    def push(self, front, v):
        n = dict(val=v, next=None, back=None, deleted=False)
        self.nodes.append(n)
        if front:
            if self.head is None:
                self.head = self.tail = n
            else:
                n["next"] = self.head
                self.head["back"] = n
                self.head = n
        else:
            if self.tail is None:
                self.head = self.tail = n
            else:
                n["back"] = self.tail
                self.tail["next"] = n
                self.tail = n

    def erase(self, n):
        nxt = n["next"]
        if not n["deleted"]:
            n["deleted"] = True
            p, x = n["back"], n["next"]
            if p is not None:
                p["next"] = x
            else:
                self.head = x
            if x is not None:
                x["back"] = p
            else:
                self.tail = p
        return nxt

    def contents(self):
        out, n = [], self.head
        while n is not None:
            out.append(n["val"])
            n = n["next"]
        return out


def _sequential_reference(run):
    """single-thread scripts: every value the API returns equals the sequential reference list's answer"""
    parts = run["script"].split(";")
    if len(parts) != 2:
        return None
    ref = _RefList()
    it = None          # None = no iterator, "end", or a node
    got = []           # values returned by `der` in trace order
    macs = []          # contents reported by `all`
    for _tid, t in events(run):
        if t[0] == "ret" and t[1] == "der":
            got.append(int(t[2]))
        elif t[0] == "mend" and t[1] == "all":
            macs.append([int(x) for x in t[2].split("/")] if len(t) > 2 else [])
    exp_got, exp_macs = [], []

    def beg():
        return ref.head if ref.head is not None else "end"

    has = False        # a handle is held
    writer = False     # ... a write handle
    reg = False        # ... and it has been used (registered) already
    for op in [o for o in parts[1].split(",") if o] + ["rel"]:
        # fault suffix: `!` element constructor throws, `!n` node allocation fails, `!z` record allocation fails
        op, bang, fault = op.partition("!")
        name, _, arg = op.partition("=")
        thr = bool(bang) and fault == ""

        def first_use():
            """the first use of a handle registers it; False if that allocation is the one that fails"""
            nonlocal reg, fault
            if not reg:
                if fault == "z":
                    fault = None
                    return False
                reg = True
            return True

        def erase_at(it):
            """erase through the iterator: (new iterator for `erc`, changed?)"""
            nonlocal fault
            if fault == "z" and not it["deleted"]:
                fault = None
                return None          # the zombie record cannot be allocated: nothing changes, the exception propagates
            return ref.erase(it) or "end"

        if name in ("lr", "lw"):
            has, writer, reg = True, name == "lw", False
        elif name == "rel":
            has, it = False, None
        elif not has:
            continue
        elif name == "beg":
            if first_use():
                it = beg()
        elif name == "nxt":
            if it not in (None, "end"):
                it = it["next"] if it["next"] is not None else "end"
        elif name == "der":
            if it not in (None, "end"):
                exp_got.append(it["val"])
        elif name in ("pf", "pb", "ef", "eb"):
            if first_use() and not thr and fault != "n":
                ref.push(name in ("pf", "ef"), int(arg))
        elif name in ("erc", "ers"):
            if it not in (None, "end") and writer:
                nx = erase_at(it)
                if nx is not None and name == "erc":
                    it = nx
        elif name == "all":
            if first_use():
                it = beg()
            seen = []
            while it not in (None, "end"):
                seen.append(it["val"])
                exp_got.append(it["val"])
                it = it["next"] if it["next"] is not None else "end"
            exp_macs.append(seen)
        elif name == "eri":
            reg = True                 # the macro's `beg` carries no fault: it registers the handle
            it = beg()
            for _ in range(int(arg)):
                if it not in (None, "end"):
                    it = it["next"] if it["next"] is not None else "end"
            if it not in (None, "end") and writer:
                nx = erase_at(it)
                if nx is not None:
                    it = nx
        elif name == "erv":
            reg = True                 # the macro's `beg` carries no fault: it registers the handle
            it = beg()
            while it not in (None, "end"):
                exp_got.append(it["val"])
                if it["val"] == int(arg):
                    if writer:
                        nx = erase_at(it)
                        if nx is not None:
                            it = nx
                    break
                it = it["next"] if it["next"] is not None else "end"
    if got != exp_got:
        return "sequential differential: element reads returned %s, reference list says %s" % (got, exp_got)
    if macs != exp_macs:
        return "sequential differential: traversals returned %s, reference list says %s" % (macs, exp_macs)
    return None


def oracle_rcu(run):
    """Properties on the raw trace, independent of the Lean model's pcs.
    C13: per block alo -> con -> des -> fre, each once and in this order (alo -> fre only after the element constructor
         threw); never des/fre of null or of something that is not a block; after the list destructor every block is freed;
         a node is freed before the destructor only if it was erased.
    C05: no event touches a block after its `des` (atomic operation, plain access, payload read).
    C12: every traversal returns values in list order (positions in the ghost insertion order strictly increase), hence
         without duplicates, and only inserted values; a complete traversal returns every value that was linked before it
         started and not erased before it ended; stores to the list structure happen only under the write mutex, whose
         critical sections do not overlap; single-thread scripts agree with a sequential reference list.
    C14: no mutex / condition-variable event inside a read-side operation (lock_read, begin, ++, *, release of a read handle)."""
    led = {}            # block -> 'alo' | 'con' | 'des' | 'fre'
    thrown = set()      # blocks whose element constructor threw
    val_of = {}         # node block -> value
    ordr = []           # ghost insertion order of values
    cur_op = {}         # tid -> current primitive op text
    holder = None
    erased = set()      # node blocks whose deleted flag was set
    erase_at = {}       # value -> index of the `deleted := true` store
    pub_at = {}         # value -> index of the `mul` that ended its push
    pending_pub = {}    # tid -> value being pushed
    in_dtor = False
    trav = {}           # tid -> dict(vals, advanced, t0, complete)
    done_travs = []     # (vals, t0, t1, complete)
    idx = 0
    hkind = {}          # tid -> "lr" | "lw": kind of the handle the thread holds
    in_op = {}          # tid -> primitive op the thread is inside (between `call` and `ret` / `exc`)
    for idx, (tid, t) in enumerate(events(run)):
        k = t[0]
        if k in ("call", "ret", "exc") and len(t) > 1:
            t = [k, t[1].split("!")[0]] + t[2:]      # the fault suffix of a script op is not part of the operation's name
        # C14 (rcu part) on the raw trace: a read-side operation - lock_read, begin, ++, *, and the release of a READ
        # handle - never takes (or waits for) a mutex / condition variable: it would wait for a writer that may be suspended
        if k in ("mlk", "mtl", "mtf", "slk", "stl", "stf", "cwt", "yld") and tid in in_op:
            o = in_op[tid].split("=")[0]
            if o in ("lr", "beg", "nxt", "der") or (o == "rel" and hkind.get(tid) == "lr"):
                what = {"lr": "lock_read", "beg": "begin", "nxt": "iterator advance", "der": "iterator dereference",
                        "rel": "release of a read handle"}[o]
                return ("read-side operation (%s, thread %d) took the write mutex (`%s`): it waits for a writer that may "
                        "be suspended" % (what, tid, " ".join(t)))
        if k == "call":
            in_op[tid] = t[1]
            if t[1] in ("lr", "lw"):
                hkind[tid] = t[1]
        elif k in ("ret", "exc"):
            in_op.pop(tid, None)
        if k == "call":
            cur_op[tid] = t[1]
            if t[1] == "dtor":
                in_dtor = True
        elif k == "mlk":
            if holder is not None:
                return "write mutex granted to %d while %d holds it" % (tid, holder)
            holder = tid
        elif k == "mul":
            if holder != tid:
                return "thread %d released the write mutex it does not hold" % tid
            holder = None
            if tid in pending_pub:
                pub_at[pending_pub.pop(tid)] = idx
        elif k == "uth":
            thrown.add(_block_of(t[1])[0])
        elif k in ("alo", "con", "des", "fre"):
            b = t[1]
            if not _BLK.match(b) or "." in b:
                return "%s of %s (not a block)" % (k, b)
            st = led.get(b)
            want = {"alo": (None,), "con": ("alo",), "des": ("con",), "fre": ("des",) + (("alo",) if b in thrown else ())}[k]
            if st not in want:
                return "%s %s while the block is in state %s" % (k, b, st)
            led[b] = k
            if k == "con" and b[0] == "N":
                v = int(t[2])
                val_of[b] = v
                op = cur_op.get(tid, "")
                if op[:2] in ("pf", "ef"):
                    ordr.insert(0, v)
                else:
                    ordr.append(v)
                pending_pub[tid] = v
            if k == "fre" and b[0] == "N" and not in_dtor and b not in thrown and b not in erased:
                return "node %s freed by a handle release although it was never erased" % b
        elif k in ("ald", "ast", "pld", "pst", "cas"):
            b, f = _block_of(t[1])
            if b is not None:
                st = led.get(b)
                if st in ("des", "fre") or st is None:
                    return "thread %d: %s %s after the block was %s" % (tid, k, t[1], {"des": "destroyed", "fre": "freed", None: "never allocated"}[st])
                if k == "pst" and f == "deleted" and t[3] == "1":
                    erased.add(b)
                    if b in val_of:
                        erase_at[val_of[b]] = idx
            if k in ("ast", "pst") and (t[1] in ("head", "tail") or (b is not None and b[0] == "N" and led.get(b) == "con")):
                if f not in ("data",) and holder != tid and not in_dtor:
                    return "thread %d stores to %s without holding the write mutex" % (tid, t[1])
            if k == "ald" and t[1] == "head" and cur_op.get(tid) == "beg":
                if "vals" in trav.get(tid, {}):
                    done_travs.append((trav[tid]["vals"], trav[tid]["t0"], idx, False))
                trav[tid] = dict(vals=[], advanced=True, t0=idx, complete=False, mac=trav.get(tid, {}).get("mac_pending", False))
        elif k == "mac" and t[1] == "all":
            trav[tid] = dict(mac_pending=True)
        elif k == "ret":
            tr = trav.get(tid)
            if t[1] == "der" and tr is not None and "vals" in tr:
                v = int(t[2])
                if tr["advanced"]:
                    tr["vals"].append(v)
                    tr["advanced"] = False
                elif tr["vals"] and tr["vals"][-1] != v:
                    return "two reads of the same element returned %d and %d" % (tr["vals"][-1], v)
            elif t[1] in ("nxt", "erc") and tr is not None and "vals" in tr:
                tr["advanced"] = True
            elif t[1] == "rel" and tr is not None:
                if "vals" in tr:
                    done_travs.append((tr["vals"], tr["t0"], idx, False))
                trav.pop(tid, None)
        elif k == "mend" and t[1] == "all":
            tr = trav.pop(tid, None)
            if tr is not None and "vals" in tr:
                done_travs.append((tr["vals"], tr["t0"], idx, True))
    for tr in trav.values():
        if "vals" in tr:
            done_travs.append((tr["vals"], tr["t0"], idx, False))
    pos = {v: i for i, v in enumerate(ordr)}
    for vals, t0, t1, complete in done_travs:
        last = -1
        for v in vals:
            if v not in pos:
                return "traversal returned %d which was never inserted" % v
            if pos[v] <= last:
                return "traversal returned %s: not in list order / duplicate (ghost order %s)" % (vals, ordr)
            last = pos[v]
        if complete:
            for v, p in pub_at.items():
                if p < t0 and erase_at.get(v, 1 << 60) > t1 and v not in vals:
                    return "complete traversal %s missed %d, which was linked during the whole traversal" % (vals, v)
    if any(t[0] == "ret" and t[1] == "dtor" for _, t in events(run)):
        for b, st in led.items():
            if st != "fre":
                return "block %s is in state %s after the list destructor" % (b, st)
    return _sequential_reference(run)


RCU_TRUST = ["Model/Rcu.lean is a hand-written model of rcu_list.hpp + rcu_guarded.hpp (stage A: the exact primitive program of "
             "push_front/push_back/emplace_front/emplace_back/erase/begin/operator++/operator*/rcu_guard lock+unlock/~rcu_list)",
             "harness/clients/rcu.cpp: the tracing, quarantining allocator (blocks named by kind and allocation order, never "
             "reused), the traced element type, the arena-wide plain-access tap",
             "insert / emplace(pos) / clear / reverse iteration are declared but not defined in the header and are outside the model"]
RCU_ASSUME = ["seq_cst atomics are interleaved cells; the plain fields deleted / zombie_node / data are sequentially consistent "
              "cells (C07 carries the memory-model half)",
              "client obligations: one handle and one iterator per thread at a time, iterators are not used after their handle "
              "is released, the list is destroyed only after every handle has been released"]


C05_ENTRY = dict(
    lean_files=["ConcVerif/Props/C05.lean"], components=["rcu"], stage="A",
    level_text="Lean 4 theorems (kernel-checked; unbounded readers / writers, client programs and interleavings) over the "
               "executable model of rcu_list.hpp + rcu_guarded.hpp, layered as DESIGN 7.4 / 8.C05. Log layer (R1-R5): every "
               "access to a log record hits a constructed record, a record is deallocated only once, at most one thread is in "
               "the reclaim phase, and a node is destroyed / freed by a release only while every record older than the "
               "reclaimer's own (still active) record is inactive (grace period). List layer (N2-N4): every node a registered "
               "handle can name (its iterator, the node erase works on / returns, the next of a protected unlinked node) is "
               "protected - linked, or being erased, or named by a zombie record above the handle's record on the log - and "
               "every access to the memory of a list node (next, back, deleted, data) by any thread hits a node whose ledger "
               "state is constructed-not-destroyed. The ledger is ghost state the model never consults. Tie: trace acceptance "
               "of the unmodified headers with the tracing, QUARANTINING allocator (freed blocks are never reused, so any "
               "touch of freed memory is visible by name), the plain-access tap over the whole arena and an executable copy "
               "of the invariants evaluated on every state of every trace.",
    level_note="Trusted: Lean kernel (+propext, Classical.choice, Quot.sound), seq_cst atomics / mutex / plain fields as "
               "interleaved cells (C07 carries the memory-model half), shim + tap + allocator + scheduler + driver glue. Client "
               "obligation: an iterator is not used after its handle was released (the model's `it` dies with the handle).",
    trusted_base=RCU_TRUST, assumptions=RCU_ASSUME, partial=[],
)

C12_ENTRY = dict(
    lean_files=["ConcVerif/Props/C12.lean"], components=["rcu"], stage="A",
    level_text="Lean 4 theorems (kernel-checked; unbounded readers / writers, client programs and interleavings) over the "
               "executable model of rcu_list.hpp + rcu_guarded.hpp extended, outside the model, by history variables (per "
               "thread: the linked nodes at `begin` and the nodes the iterator has pointed to; globally: the number of "
               "acquisitions of the write mutex and the log of list mutations). Traversal: the visited nodes are strictly "
               "increasing in the ghost list order (list order, no duplicates), are nodes that a push linked and carry the "
               "value that push was called with, `*it` returns it; a traversal starts at the first linked node; every node "
               "linked at `begin` and still linked (an unlinked node never comes back) is visited or still ahead of the "
               "iterator, and all are visited when the iterator reaches the end - also when the iterator stands on a node "
               "that is being erased. Writers: mlk / mul bracket critical sections with at most one thread inside; until the "
               "destructor the linked list changes only by a step of the mutex holder, by exactly one push_front / push_back "
               "/ erase of a sequential reference list; the list equals the logged mutations executed one after the other on "
               "an empty `List`, logged in acquisition order with at most one per critical section, and a push that reaches "
               "its unlock (an erase of a not yet erased node after its unlinking store) has logged exactly its own. Tie: trace acceptance of the unmodified headers (every edge covered, "
               "executable invariants on every state), a trace-level oracle for order / duplicates / completeness / mutual "
               "exclusion that does not use the model, and a sequential differential: single-thread op sequences "
               "(push_front/back, emplace_front/back incl. throwing constructors, erase by index / by value, full "
               "traversals) are replayed in the driver on a Lean `List` and compared with every traversal the real list "
               "returns and with the model's list at destruction; independently in Python at the level of the primitives.",
    level_note="Trusted: Lean kernel (+propext, Classical.choice, Quot.sound), seq_cst atomics / mutex / plain fields as "
               "interleaved cells (C07 carries the memory-model half), shim + tap + allocator + scheduler + driver glue. "
               "insert / emplace(pos) / clear / reverse iteration are declared but not defined in the header: outside.",
    trusted_base=RCU_TRUST, assumptions=RCU_ASSUME,
    partial=[],
)

PARTS = {
    "C14": dict(
        lean_files=["ConcVerif/Props/C14_rcu.lean"], components=["rcu"],
        trusted_base=RCU_TRUST,
        assumptions=["rcu: compare_exchange_weak does not fail spuriously forever (the registration loop is lock-free; wait-free "
                     "with every other thread suspended)"] + RCU_ASSUME,
        partial=["rcu: 'as long as the reader itself is scheduled it completes' is proved as: no mutex event is accepted at a "
                 "read-side pc, every read-side pc is enabled in every reachable state, begin/++/* take three own steps, the "
                 "registration loop has a potential (at most 7 after the allocation) that every own step except a spuriously "
                 "failing CAS decreases and that only another thread's successful push can raise; the fair-scheduler termination "
                 "step is not mechanised (Base/Live not used here)"]),
}


def register(PROPS, COMPONENTS):
    COMPONENTS["rcu"] = dict(client="rcu", driver="rcu", tap=True, directed_runs=4, quick_runs=1600, thorough_runs=12000,
                             oracle=oracle_rcu,
                             cov_headers=["gmlc/libguarded/rcu_list.hpp", "gmlc/libguarded/rcu_guarded.hpp"],
                             # detail::deallocator::operator() (the unique_ptr deleter of allocate_unique) runs only if the
                             # unique_ptr dies while it owns the node; push_*/emplace_* always release() it and nothing in
                             # between can throw: dead code.  The catch block of allocate_unique cannot run for T = int
                             # (it is exercised for the traced element type: model edge `pCons/throw`).
                             cov_allow=[r"void operator\(\)\(pointer p\)", r"allocator_traits::destroy\(alloc, p\);",
                                        r"allocator_traits::deallocate\(alloc, p, 1\);", r"^\s*catch \(\.\.\.\) \{", r"^\s*throw;",
                                        r"^\s*\}$"],
                             # declared but not defined in the header (using them does not link): clear, insert x4,
                             # emplace(pos), cbegin, cend; operator-- reads node::prev, which does not exist (does not compile)
                             inst_allow=[r"^rcu_list::clear$", r"^rcu_list::insert$", r"^rcu_list::emplace$", r"^rcu_list::cbegin$",
                                         r"^rcu_list::cend$", r"::operator--$"])
    PROPS["C05"] = C05_ENTRY
    PROPS["C12"] = C12_ENTRY
    PROPS["C13"] = dict(
        lean_files=["ConcVerif/Props/C13.lean"], components=["rcu"], stage="A",
        level_text="Lean 4 theorems (kernel-checked; unbounded threads, client programs, interleavings, spurious CAS failures and "
                   "throwing element constructors) over an executable model of rcu_list.hpp + rcu_guarded.hpp at the level of its "
                   "atomics, the write mutex, the plain fields deleted / zombie_node / data and the allocator calls: the allocation "
                   "ledger is ghost state the model never consults, and a 4-layer inductive invariant (control, log of records, list "
                   "structure, node ledger; ~5000 lines) shows that every allocate finds a new block, every construct an allocated "
                   "one, every destroy a constructed one (never a null / phantom / already destroyed one), every deallocate a "
                   "destroyed one (or a never-constructed one when the element constructor threw), each at most once and in this "
                   "order; after the list destructor every node and record ever allocated is freed; a handle release destroys a "
                   "node only if it was erased. Allocation failures are part of the model (the allocator may throw at the "
                   "registration of a handle, in push_* / emplace_*, and in erase, which allocates its zombie record BEFORE "
                   "it touches the list): every step on such an exception path changes only the thread's pc and the mutex "
                   "holder, and when the exception reaches the client the whole state - list, log, both ledgers, handles, "
                   "iterators - is exactly the state before the call (C13_erase_alloc_failure, C13_push_alloc_failure, "
                   "C13_register_alloc_failure), so nothing leaks; the client's tracing allocator injects these failures "
                   "(`!n` / `!z` script suffixes) and the ledger oracle requires every block to be freed at the end. The model is tied to the source on every run: the unmodified headers run with a "
                   "tracing, quarantining allocator (rcu_list's Alloc parameter), a traced non-trivially-destructible element type "
                   "and int, the plain-access tap over the whole allocation arena, under a deterministic scheduler; every "
                   "primitive-level trace must be accepted by the model's step function with all model edges covered, and an "
                   "executable copy of the invariant is evaluated on every state of every trace.",
        level_note="Trusted: Lean kernel (+propext, Classical.choice, Quot.sound), seq_cst atomics and mutex as interleaved cells, "
                   "shim + tap + tracing allocator + scheduler + driver glue. The defect D2 (destroy/deallocate of a null node, fixed "
                   "in /repo by b6a7771) is what the model rejects as `des null`.",
        trusted_base=RCU_TRUST, assumptions=RCU_ASSUME, partial=[],
    )
