"""Instantiation coverage: which member functions of the modelled headers does the harness client never even
instantiate / use?  gcov cannot tell (an uninstantiated template member has no code), so this reads the typed AST that
`clang++-14 -Xclang -ast-dump=json -Xclang -ast-dump-filter=gmlc` prints for the client translation unit.

A member function declared in one of the given headers counts as exercised when
  * (class templates) in at least one implicit specialization of its class it has a body (= was instantiated) — for a
    member function template: at least one instantiated specialization hangs under its FunctionTemplateDecl;
  * (ordinary classes) clang marks it `isUsed`.
Members are identified by (header, line of the in-class declaration), so two overloads of one name are told apart.
Implicit, deleted and defaulted members are ignored."""
import json
import os
import re
import subprocess

FUNC_KINDS = ("CXXMethodDecl", "CXXConstructorDecl", "CXXDestructorDecl", "CXXConversionDecl")
names = {}   # key -> member name as written in the first declaration seen (the template pattern)


class Cursor:
    """clang's JSON dump prints `file` and `line` of a location only when they differ from the previous location it
    printed; replaying the document in order recovers them"""

    def __init__(self):
        self.file = ""
        self.line = 0

    def see(self, loc):
        if not isinstance(loc, dict):
            return
        for k in ("spellingLoc", "expansionLoc"):
            if k in loc:
                self.see(loc[k])
        if "file" in loc:
            self.file = loc["file"]
        if "line" in loc:
            self.line = loc["line"]


def annotate(node, cur):
    """in document order: attach (file, line) of `loc` to every node"""
    if "loc" in node:
        cur.see(node["loc"])
        loc = node["loc"]
        if "expansionLoc" in loc:
            # a declaration produced by a macro: keep the expansion point
            c2 = Cursor()
            c2.file, c2.line = cur.file, cur.line
        node["_file"], node["_line"] = cur.file, cur.line
    if "range" in node:
        cur.see(node["range"].get("begin"))
        cur.see(node["range"].get("end"))
    for c in node.get("inner", []):
        if isinstance(c, dict):
            annotate(c, cur)


def has_body(n):
    return any(isinstance(c, dict) and c.get("kind") == "CompoundStmt" for c in n.get("inner", []))


def skip(n):
    return n.get("isImplicit") or n.get("explicitlyDeleted") or n.get("explicitlyDefaulted") or n.get("isDeleted")


def members(record, headers, out, exercised_pred):
    """collect the member functions of one CXXRecordDecl"""
    cls = record.get("name", "?")
    for m in record.get("inner", []):
        if not isinstance(m, dict) or skip(m):
            continue
        k = m.get("kind")
        f = m.get("_file", "")
        if not any(f.endswith(h) for h in headers):
            if k not in ("CXXRecordDecl", "ClassTemplateDecl"):
                continue
        key = (f, m.get("_line"), cls)
        names.setdefault(key, m.get("name"))
        if k in FUNC_KINDS:
            out.setdefault(key, False)
            if exercised_pred(m):
                out[key] = True
        elif k == "FunctionTemplateDecl":
            kids = [c for c in m.get("inner", []) if isinstance(c, dict) and c.get("kind") in FUNC_KINDS]
            if kids and skip(kids[0]):
                continue
            out.setdefault(key, False)
            # first child = the pattern; further children = instantiated specializations
            if any(exercised_pred(c) for c in kids[1:]) or (kids and kids[0].get("isUsed")):
                out[key] = True
        elif k == "CXXRecordDecl" and m.get("completeDefinition") and not m.get("isImplicit"):
            members(m, headers, out, exercised_pred)     # nested class (deleter, node, iterator ...)
        elif k == "ClassTemplateDecl":
            walk_template(m, headers, out)


def walk_template(ct, headers, out):
    inner = [c for c in ct.get("inner", []) if isinstance(c, dict)]
    pattern = [c for c in inner if c.get("kind") == "CXXRecordDecl"]
    specs = [c for c in inner if c.get("kind") == "ClassTemplateSpecializationDecl"]
    for p in pattern:
        members(p, headers, out, lambda m: False)           # declares the keys
    for s in specs:
        members(s, headers, out, lambda m: has_body(m) or bool(m.get("isUsed")))


def walk(node, headers, out):
    k = node.get("kind")
    if k == "ClassTemplateDecl":
        walk_template(node, headers, out)
        return
    if k == "CXXRecordDecl" and node.get("completeDefinition") and not node.get("isImplicit"):
        members(node, headers, out, lambda m: bool(m.get("isUsed")))
        return
    if k == "ClassTemplateSpecializationDecl":
        members(node, headers, out, lambda m: has_body(m) or bool(m.get("isUsed")))
        return
    for c in node.get("inner", []):
        if isinstance(c, dict):
            walk(c, headers, out)


def inst_coverage(src, headers, cxxflags, allow=()):
    """returns (n_members, list of 'header:line: Class::member never instantiated/used by the client')"""
    cmd = ["clang++-14", "-std=gnu++17", "-fsyntax-only", "-Wno-everything"] + list(cxxflags) + [
        "-Xclang", "-ast-dump=json", "-Xclang", "-ast-dump-filter=gmlc", src]
    p = subprocess.run(cmd, stdout=subprocess.PIPE, stderr=subprocess.PIPE, text=True, timeout=900)
    txt = p.stdout
    if p.returncode != 0 and not txt.strip():
        return 0, ["clang AST dump failed: " + p.stderr[-800:]]
    dec = json.JSONDecoder()
    i = 0
    out = {}
    names.clear()
    cur = Cursor()
    while True:
        i = txt.find("{", i)
        if i < 0:
            break
        try:
            obj, j = dec.raw_decode(txt, i)
        except ValueError:
            break
        i = j
        annotate(obj, cur)
        walk(obj, headers, out)
    allow_re = [re.compile(a) for a in allow]
    missing = []
    for (f, line, cls), ok in sorted(out.items(), key=lambda kv: (kv[0][0], kv[0][1] or 0)):
        if ok:
            continue
        label = "%s::%s" % (cls, names.get((f, line, cls)))
        if any(a.search(label) for a in allow_re):
            continue
        h = next((h for h in headers if f.endswith(h)), os.path.basename(f))
        missing.append("%s:%s: %s is never instantiated/used by the harness client" % (h, line, label))
    return len(out), missing


if __name__ == "__main__":
    import sys
    n, miss = inst_coverage(sys.argv[1], sys.argv[2].split(","), sys.argv[3:])
    print(n, "member functions;", len(miss), "never exercised")
    print("\n".join(miss))
