import Driver.Latch
import Driver.LockFam
import Driver.Barrier
import Driver.LR
import Driver.TripWire
open Driver

def comps : List Comp := [LatchD.comp, LockFamD.comp, BarrierD.comp, LRD.comp, LRD.compStrict, TripWireD.comp]

def main (args : List String) : IO UInt32 := do
  match args with
  | [name] =>
      match comps.find? (·.name == name) with
      | some c => runComp c
      | none => IO.eprintln s!"unknown component {name}"; return 2
  | _ => IO.eprintln "usage: driver <component> < traces"; return 2
