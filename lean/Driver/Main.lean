import Driver.Latch
import Driver.LockFam
import Driver.Barrier
import Driver.Rcu
import Driver.LR
import Driver.HB
import Driver.DD
import Driver.Deferred
import Driver.Trigger
import Driver.TripWire
import Driver.SOH
import Driver.DObj
import Driver.Cow
open Driver

def comps : List Comp := [LatchD.comp, LockFamD.comp, BarrierD.comp, RcuD.comp, DeferredD.comp, TripWireD.comp, SOHD.comp, SOHD.compNoTap, TriggerD.comp, DDD.comp, DObjD.comp, LRD.comp, LRD.compStrict, CowD.comp, CowD.compStrict]

def main (args : List String) : IO UInt32 := do
  match args with
  | ["hb"] => Driver.HBD.run
  | [name] =>
      match comps.find? (·.name == name) with
      | some c => runComp c
      | none => IO.eprintln s!"unknown component {name}"; return 2
  | _ => IO.eprintln "usage: driver <component> < traces"; return 2
