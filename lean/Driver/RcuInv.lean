import ConcVerif.Model.Rcu
/-! Executable version of the invariants of `Proof/Rcu*.lean`, evaluated by the driver on every state of every
trace (extra monitor, unverified glue; catches a wrong invariant — or a real protocol breach — early). -/
open ConcVerif ConcVerif.Rcu

namespace Driver.RcuInv

/-- `l = pre ++ a :: post` -/
def splitAt (a : Nat) : List Nat → Option (List Nat × List Nat)
  | [] => none
  | x :: xs => if x = a then some ([], xs) else (splitAt a xs).map (fun (p, q) => (x :: p, q))

def nodup : List Nat → Bool
  | [] => true
  | x :: xs => !xs.contains x && nodup xs

/-- the record a release works for -/
def myRec : Pc → Option Nat
  | .uOwner r _ _ | .uNext r _ _ | .rZn r _ | .rDesN r _ _ | .rFreN r _ _ | .rNext r _ | .rDesZ r _ _ | .rFreZ r _ _
  | .uTrunc r | .uClear r => some r
  | _ => none

/-- reclaim phase: the record's `next` may dangle -/
def reaper : Pc → Option Nat
  | .rZn r _ | .rDesN r _ _ | .rFreN r _ _ | .rNext r _ | .rDesZ r _ _ | .rFreZ r _ _ | .uTrunc r => some r
  | _ => none

/-- record held privately (not on the log) and its expected ledger states -/
def priv : Pc → Option (Nat × List Led)
  | .regAlloc _ r => some (r, [.alloc]) | .regCons _ r => some (r, [.cons])
  | .pushStore _ r _ | .pushCas _ r _ => some (r, [.cons])
  | .eCons _ _ z => some (z, [.alloc]) | .eZh _ z => some (z, [.cons])
  | .eMark _ _ z | .eBack _ _ z | .eNext _ _ _ z | .eUnl _ _ _ _ z | .eFix _ _ _ _ z => some (z, [.cons])
  | .rZn _ m | .rDesN _ m _ | .rFreN _ m _ | .rNext _ m | .rDesZ _ m _ => some (m, [.cons])
  | .rFreZ _ m _ => some (m, [.dest])
  | .dOwner m | .dRNext m | .dZn m _ | .dDesZN m _ _ | .dFreZN m _ _ | .dDesZ m _ => some (m, [.cons])
  | .dFreZ m _ => some (m, [.dest])
  | _ => none

/-- node held privately by a pusher (allocated / constructed, not yet linked) -/
def privNode : Pc → Option (Nat × Led)
  | .pCons _ n => some (n, .alloc)
  | .pLoad _ n | .pE1 _ n | .pF1 _ n _ | .pF2 _ n _ | .pF3 _ n | .pB1 _ n _ | .pB2 _ n _ => some (n, .cons)
  | _ => none

def holdsW : Pc → Bool
  | .pAlloc _ | .pCons .. | .pThrown _ | .pLoad .. | .pE1 .. | .pE2 .. | .pF1 .. | .pF2 .. | .pF3 .. | .pB1 .. | .pB2 ..
  | .pB3 .. | .pUnlock _ | .eOrig .. | .eDel .. | .eMark .. | .eBack .. | .eNext .. | .eUnl .. | .eFix .. | .eAlloc ..
  | .eCons .. | .eZh .. | .eUnlock _ => true
  | .pushStore (.erase _) .. | .pushCas (.erase _) .. => true
  | _ => false

def inDtor : Pc → Bool
  | .called .dtor | .dNext _ | .dDesN .. | .dFreN .. | .dZhead | .dOwner _ | .dRNext _ | .dZn .. | .dDesZN .. | .dFreZN ..
  | .dDesZ .. | .dFreZ .. | .retp .dtor => true
  | _ => false

/-- what the handle must be at this pc: 0 = none, 1 = fresh, 2 = registered, 3 = any non-none, 4 = anything -/
def hndClass (p : Pc) : Nat :=
  match p with
  | .idle => 4
  | .called (.lock _) => 0
  | .called .dtor => 0
  | .called .rel => 3 | .called .beg => 3 | .called (.push ..) => 3
  | .called _ => 2
  | .retp .rel => 0
  | .retp (.lock _) => 4
  | .retp .dtor => 0
  | .retp _ => 2
  | .regAlloc .. | .regCons .. | .pushStore (.reg _) .. | .pushCas (.reg _) .. => 1
  | .pExc _ => 2
  | .rExc _ => 1
  | p => if inDtor p then 0 else 2

def first? (l : List (Option String)) : Option String := l.findSome? id

def chk (b : Bool) (msg : String) : Option String := if b then none else some msg

def allInactive (s : St) (l : List Nat) : Bool := l.all (fun x => (s.recs x).owner == none)

def check (s : St) (tids : List Tid) : Option String :=
  let pcs := tids.map (fun t => (t, s.pc t))
  let recsAll := List.range s.nR
  let nodesAll := List.range s.nN
  let holder := s.wmtx
  let hpc : Option Pc := holder.map s.pc
  first? [
    -- layer A: control
    chk (nodup s.live) "live not nodup",
    first? (tids.map fun t => chk ((s.live.contains t) == (s.hnd t != .none)) s!"live/hnd mismatch t={t}"),
    first? (pcs.map fun (t, p) =>
      let c := hndClass p
      chk (match c, s.hnd t with
           | 0, .none => true | 1, .fresh _ => true | 2, .reg _ _ => true
           | 3, .fresh _ => true | 3, .reg _ _ => true | 4, _ => true | _, _ => false) s!"hnd class t={t}"),
    first? (pcs.map fun (t, p) => chk (holdsW p == (s.wmtx == some t)) s!"wmtx/pc mismatch t={t}"),
    first? (pcs.map fun (t, p) => chk (!holdsW p || (s.hnd t).isW) s!"writer without write handle t={t}"),
    first? (pcs.map fun (t, p) => chk (!inDtor p || s.dt) s!"dtor pc without dt t={t}"),
    chk (!s.dt || s.live == []) "dt with live handles",
    first? (pcs.map fun (t, p) => match myRec p with
      | some r => chk (match s.hnd t with | .reg _ r' => r' == r | _ => false) s!"release of foreign record t={t}"
      | none => none),
    first? (pcs.map fun (t, p) => chk (match s.it t with | some _ => (match s.hnd t with | .reg _ _ => true | _ => false) | none => true)
      s!"iterator without registered handle t={t} {repr p}"),
    -- layer B: log
    chk (nodup s.log) "log not nodup",
    first? (s.log.map fun r => chk (s.rled r == .cons && r < s.nR) s!"log record Z{r} not constructed"),
    first? ((List.range 40).map fun k => chk ((s.rled (s.nR + k) == .none) && (s.nled (s.nN + k) == .none)) "ledger beyond counter"),
    first? (recsAll.map fun r => chk (s.rled r != .none) s!"allocated record Z{r} has no ledger"),
    first? (nodesAll.map fun n => chk (s.nled n != .none) s!"allocated node N{n} has no ledger"),
    chk (s.dt || s.zhead == s.log.head?) "zhead is not the newest log record",
    first? (s.log.map fun a => match splitAt a s.log with
      | some (_, post) =>
          chk ((s.recs a).next == post.head? || pcs.any (fun (_, p) => reaper p == some a)) s!"chain broken at Z{a}"
      | none => some "splitAt"),
    -- owner <-> registered handle
    first? (tids.map fun t => match s.hnd t with
      | .reg _ r => chk (s.log.contains r && (s.recs r).owner == some t) s!"registered handle of t={t}: Z{r} not active on the log"
      | _ => none),
    first? (s.log.map fun r => match (s.recs r).owner with
      | some t => chk (match s.hnd t with | .reg _ r' => r' == r | _ => false) s!"log record Z{r} active without handle"
      | none => none),
    first? (s.log.map fun r => chk ((s.recs r).owner == none || (s.recs r).znode == none) s!"Z{r} has owner and node"),
    -- private records
    first? (pcs.map fun (t, p) => match priv p with
      | some (r, ls) => chk (!s.log.contains r && ls.contains (s.rled r) && r < s.nR) s!"private record Z{r} of t={t} on the log / wrong ledger"
      | none => none),
    first? (pcs.map fun (t, p) => match priv p with
      | some (r, _) => chk (pcs.all fun (u, q) => u == t || (priv q).map (·.1) != some r) s!"record Z{r} private to two threads"
      | none => none),
    first? (recsAll.map fun r => chk (s.rled r == .freed || s.log.contains r || pcs.any (fun (_, p) => (priv p).map (·.1) == some r))
      s!"record Z{r} neither freed nor on the log nor private"),
    -- scan
    first? (pcs.map fun (t, p) =>
      let go (a : Nat) (cached : Option Nat) (m : Nat) (checked : Bool) : Option String :=
        match splitAt a s.log with
        | some (_, post) =>
          match splitAt m post with
          | some (mid, _) =>
              chk (allInactive s mid && cached == post.head? && (!checked || (s.recs m).owner == none)) s!"scan invariant t={t}"
          | none => some s!"scan cursor Z{m} not below Z{a} t={t}"
        | none => some s!"scanning thread's record Z{a} not on the log t={t}"
      match p with
      | .uOwner a c m => go a c m false
      | .uNext a c m => go a c m true
      | _ => none),
    -- reap
    first? (pcs.map fun (t, p) =>
      let go (a m : Nat) (nx : Option (Option Nat)) : Option String :=
        match splitAt a s.log with
        | some (_, post) =>
            chk (allInactive s post && (s.recs m).owner == none &&
                 (match nx with | none => (s.recs m).next == post.head? | some v => v == post.head?)) s!"reap invariant t={t} {repr p}"
        | none => some s!"reaper's record Z{a} not on the log t={t}"
      match p with
      | .rZn a m => go a m none
      | .rDesN a m d => first? [go a m none, chk ((s.recs m).znode == some d && s.nled d == .cons) s!"rDesN node state t={t}"]
      | .rFreN a m d => first? [go a m none, chk ((s.recs m).znode == some d && s.nled d == .dest) s!"rFreN node state t={t}"]
      | .rNext a m => go a m none
      | .rDesZ a m nx => go a m (some nx)
      | .rFreZ a m nx => go a m (some nx)
      | .uTrunc a => match splitAt a s.log with
        | some (_, post) => chk (post == []) s!"uTrunc with records below t={t}"
        | none => some s!"uTrunc: Z{a} not on the log"
      | _ => none),
    -- dtor over the log
    first? (pcs.map fun (t, p) =>
      let go (nx : Option (Option Nat)) (m : Nat) : Option String :=
        chk (allInactive s s.log && (s.recs m).owner == none &&
             (match nx with | none => (s.recs m).next == s.log.head? | some v => v == s.log.head?)) s!"dtor record invariant t={t} {repr p}"
      match p with
      | .dOwner m => go none m | .dRNext m => go none m
      | .dZn m nx => go (some nx) m | .dDesZN m nx _ => go (some nx) m | .dFreZN m nx _ => go (some nx) m
      | .dDesZ m nx => go (some nx) m | .dFreZ m nx => go (some nx) m
      | .dZhead => chk (s.zhead == s.log.head? && allInactive s s.log) "dZhead"
      | .retp .dtor => chk (s.log == [] && s.lst == []) "after dtor: log/lst not empty"
      | _ => none),
    -- layer C: list structure
    chk (nodup s.lst && nodup s.order) "lst/order not nodup",
    first? (s.lst.map fun n => chk (s.order.contains n) s!"N{n} linked but not in order"),
    chk ((s.order.filter (fun n => s.lst.contains n)) == s.lst) "lst is not order restricted to linked nodes",
    first? (s.order.map fun n => chk (n < s.nN) s!"order node N{n} not allocated"),
    chk (s.dt || s.head == s.lst.head?) "head is not the first linked node",
    first? (s.lst.map fun a => match splitAt a s.lst with
      | some (_, post) => chk ((s.nodes a).next == post.head?) s!"next of N{a} is not its successor"
      | none => some "splitAt"),
    first? (s.lst.map fun b => match splitAt b s.lst with
      | some (pre, _) =>
          chk (s.dt || (s.nodes b).back == pre.getLast? ||
               (match hpc with
                | some (.pF3 _ n) => pre == [] && (s.nodes b).back == some n
                | some (.eFix c _ p (some x) _) => x == b && (s.nodes b).back == some c && p == pre.getLast?
                | _ => false)) s!"back of N{b} is not its predecessor"
      | none => some "splitAt"),
    chk (s.dt || s.tail == s.lst.getLast? ||
         (match hpc with
          | some (.pE2 _ n) => s.lst == [n] && s.tail == none
          | some (.pB3 _ n) => s.lst.getLast? == some n && s.tail == s.lst.dropLast.getLast?
          | some (.eFix c _ p none _) => s.tail == some c && p == s.lst.getLast?
          | _ => false)) "tail is not the last linked node",
    -- deleted flag <-> linked
    first? (s.order.map fun c =>
      chk (s.dt || (s.lst.contains c == !(s.nodes c).deleted) ||
           (match hpc with
            | some (.eBack c' _ _) | some (.eNext c' _ _ _) | some (.eUnl c' _ _ _ _) => c' == c && s.lst.contains c && (s.nodes c).deleted
            | _ => false)) s!"deleted flag of N{c} disagrees with linkage"),
    first? (s.lst.map fun n => chk (s.nled n == .cons || (match tids.filterMap (fun t => match s.pc t with | .dFreN m _ => some m | _ => none) with
                                                         | [m] => m == n && s.nled n == .dest | _ => false)) s!"linked node N{n} not constructed"),
    -- values: everything reachable is in order
    first? (s.order.map fun n => chk ((s.nodes n).next.all s.order.contains) s!"next of N{n} leaves order"),
    first? (tids.map fun t => match s.it t with
      | some (some c) => chk (s.order.contains c) s!"iterator of t={t} at N{c} outside order"
      | _ => none),
    -- writer pcs
    (match holder, hpc with
     | some t, some p =>
       let fresh (n : Nat) : Bool := s.nled n == .cons && !s.order.contains n && (s.nodes n).deleted == false
       match p with
       | .pLoad _ n => chk (fresh n && (s.nodes n).next == none && (s.nodes n).back == none) s!"pLoad t={t}"
       | .pE1 _ n => chk (fresh n && s.lst == [] && (s.nodes n).next == none && (s.nodes n).back == none) s!"pE1 t={t}"
       | .pF1 _ n h => chk (fresh n && s.lst.head? == some h && (s.nodes n).next == none && (s.nodes n).back == none) s!"pF1 t={t}"
       | .pF2 _ n h => chk (fresh n && s.lst.head? == some h && (s.nodes n).next == some h && (s.nodes n).back == none) s!"pF2 t={t}"
       | .pF3 _ n => chk (fresh n && (s.nodes n).next == s.lst.head? && s.lst != [] && (s.nodes n).back == none) s!"pF3 t={t}"
       | .pB1 _ n h => chk (fresh n && s.lst.getLast? == some h && (s.nodes n).next == none && (s.nodes n).back == none) s!"pB1 t={t}"
       | .pB2 _ n h => chk (fresh n && s.lst.getLast? == some h && (s.nodes n).next == none && (s.nodes n).back == some h) s!"pB2 t={t}"
       | .eOrig c _ => chk (s.order.contains c) s!"eOrig t={t}"
       | .eDel c _ => chk (s.order.contains c) s!"eDel t={t}"
       | .eAlloc c _ => chk (s.lst.contains c && !(s.nodes c).deleted) s!"eAlloc t={t}"
       | .eCons c _ _ => chk (s.lst.contains c && !(s.nodes c).deleted) s!"eCons t={t}"
       | .eMark c _ _ => chk (s.lst.contains c) s!"eMark t={t}"
       | .eBack c _ _ => chk (s.lst.contains c) s!"eBack t={t}"
       | .eNext c _ p _ => match splitAt c s.lst with
         | some (pre, _) => chk (p == pre.getLast?) s!"eNext t={t}"
         | none => some s!"eNext: N{c} not linked"
       | .eUnl c _ p x _ => match splitAt c s.lst with
         | some (pre, post) => chk (p == pre.getLast? && x == post.head?) s!"eUnl t={t}"
         | none => some s!"eUnl: N{c} not linked"
       | .eFix c _ _ _ z => chk (!s.lst.contains c && s.order.contains c && s.nled c == .cons && (s.nodes c).deleted &&
           (s.recs z).znode == some c) s!"eFix t={t}"
       | _ => none
     | _, _ => none),
    -- erase in progress: before its own record is constructed no constructed record names the node; afterwards only its own
    first? (pcs.map fun (t, p) => match p with
      | .eAlloc c _ | .eCons c _ _ =>
          chk (recsAll.all fun x => !(s.rled x == .cons && (s.recs x).znode == some c)) s!"record for N{c} exists before its erase t={t}"
      | .eMark c _ z | .eBack c _ z | .eNext c _ _ z | .eUnl c _ _ _ z =>
          chk ((s.recs z).znode == some c && s.nled c == .cons) s!"erase of N{c}: own record Z{z} does not name it t={t}"
      | _ => none),
    -- layer D: zombies
    first? (recsAll.map fun x => match (s.recs x).znode with
      | some d => chk (s.rled x != .cons || ((s.nodes d).deleted && s.order.contains d && !s.lst.contains d) ||
            pcs.any (fun (_, p) => match p with
              | .eMark c _ z | .eBack c _ z | .eNext c _ _ z | .eUnl c _ _ _ z => c == d && z == x
              | _ => false))
          s!"zombie record Z{x}: node N{d} not erased"
      | none => none),
    first? (recsAll.map fun x => match (s.recs x).znode with
      | some d => chk (s.rled x != .cons || recsAll.all (fun y => y == x || !(s.rled y == .cons && (s.recs y).znode == some d)))
          s!"two constructed records name N{d}"
      | none => none),
    first? (s.log.map fun x => match (s.recs x).znode with
      | some d => chk (s.nled d == .cons) s!"log record Z{x}: node N{d} not constructed"
      | none => none),
    first? (pcs.map fun (t, p) => match p with
      | .eZh _ z | .pushStore (.erase _) z _ | .pushCas (.erase _) z _ =>
          (match (s.recs z).znode with
           | some d => chk (s.nled d == .cons && (s.recs z).owner == none) s!"pre-push zombie t={t}"
           | none => some s!"pre-push zombie without node t={t}")
      | .rZn _ m | .dZn m _ => (match (s.recs m).znode with
           | some d => chk (s.nled d == .cons) s!"reaper-held zombie node state t={t}"
           | none => none)
      | .dDesZN m _ d => chk ((s.recs m).znode == some d && s.nled d == .cons) s!"dDesZN t={t}"
      | .dFreZN m _ d => chk ((s.recs m).znode == some d && s.nled d == .dest) s!"dFreZN t={t}"
      | _ => none),
    -- classification of nodes: freed, linked, private, or named by exactly one constructed record, or mid-destruction
    first? (nodesAll.map fun n =>
      chk (s.nled n == .freed || s.lst.contains n || pcs.any (fun (_, p) => (privNode p).map (·.1) == some n) ||
           recsAll.any (fun x => s.rled x == .cons && (s.recs x).znode == some n) ||
           pcs.any (fun (_, p) => match p with
             | .rFreN _ _ d | .dFreZN _ _ d => d == n
             | .dFreN m _ => m == n
             | _ => false)) s!"node N{n} is neither freed, linked, private nor owned by a record"),
    first? (pcs.map fun (t, p) => match privNode p with
      | some (n, l) => chk (s.nled n == l && n < s.nN && !s.order.contains n) s!"private node N{n} t={t}"
      | none => none),
    -- layer E: reachability.  `safe r c`: c linked, or its erase in progress, or its zombie record above r on the log
    (let pend : List Nat := pcs.filterMap fun (_, p) => match p with
        | .eFix _ _ _ _ z => (s.recs z).znode
        | .eZh _ z | .pushStore (.erase _) z _ | .pushCas (.erase _) z _ => (s.recs z).znode
        | _ => none
     let safe (r c : Nat) : Bool :=
       s.lst.contains c || pend.contains c ||
         s.log.any (fun z => (s.recs z).znode == some c && (match splitAt z s.log with | some (_, post) => post.contains r | none => false))
     first? (tids.map fun t => match s.hnd t with
       | .reg _ r =>
         first? [
           (match s.it t with
            | some (some c) => chk (safe r c && s.nled c == .cons) s!"iterator of t={t} at N{c}: node not protected / not live"
            | _ => none),
           first? (s.order.map fun c =>
             chk (s.lst.contains c || !(safe r c) || (match (s.nodes c).next with | some x => safe r x | none => true))
               s!"next of protected unlinked node N{c} not protected for t={t}")]
       | _ => none))
  ]

end Driver.RcuInv
