import ConcVerif.Base.TS
/-! Trace-acceptance driver, common part.  Unverified glue (listed in the trusted base): reads the
harness output, parses each event line into the component's `Ev`, runs the component's `step` —
the very function the theorems are about — and reports the first event the model does not allow. -/
open ConcVerif

namespace Driver

structure Comp where
  name : String
  St : Type
  Ev : Type
  /-- initial state from the tokens of the `cfg` line (after the component name) -/
  init : List String → Option St
  /-- driver-side auxiliary state threaded through the parser (e.g. a shadow copy of plain fields
  rebuilt from `pst` events so that their values can be attached to the next release event) -/
  Aux : Type
  aux0 : Aux
  /-- `none` = not an event of this component (reject); `some none` = stutter (skipped) -/
  parse : Aux → Tid → List String → Aux × Option (Option Ev)
  step : St → Tid → Ev → Option St
  /-- coverage key of an accepted step -/
  edge : St → Tid → Ev → String
  /-- all coverage keys the check wants to see -/
  edges : List String
  /-- human-readable local state for reject messages -/
  descr : St → Tid → String

def toks (line : String) : List String :=
  (line.trimAscii.toString.splitOn " ").filter (· ≠ "")

structure RunState (c : Comp) where
  st : Option c.St := none
  aux : c.Aux := c.aux0
  nev : Nat := 0
  rejected : Option String := none

structure Totals where
  runs : Nat := 0
  accepted : Nat := 0
  rejected : Nat := 0
  events : Nat := 0
  covered : List String := []

def addCov (cov : List String) (k : String) : List String := if cov.contains k then cov else k :: cov

partial def loop (c : Comp) (h : IO.FS.Stream) (hdr : String) (rs : RunState c) (tot : Totals) : IO Totals := do
  let line ← h.getLine
  if line.isEmpty then return tot
  let ts := toks line
  match ts with
  | [] => loop c h hdr rs tot
  | "RUN" :: _ => loop c h line.trimAscii.toString {} tot
  | "FAIL" :: _ => loop c h hdr rs tot
  | "END" :: rest =>
      let status := rest.headD "status=?"
      match rs.rejected with
      | some why =>
          IO.println s!"REJECT {why} || {status} || {hdr}"
          loop c h hdr {} { tot with runs := tot.runs + 1, rejected := tot.rejected + 1, events := tot.events + rs.nev }
      | none =>
          IO.println s!"ACCEPT events={rs.nev} || {status} || {hdr}"
          loop c h hdr {} { tot with runs := tot.runs + 1, accepted := tot.accepted + 1, events := tot.events + rs.nev }
  | tidS :: rest =>
      if rs.rejected.isSome then loop c h hdr rs tot else
      match tidS.toNat? with
      | none => loop c h hdr { rs with rejected := some s!"line={rs.nev} unparseable-tid '{line.trimAscii}'" } tot
      | some tid =>
        match rest with
        | "cfg" :: _ :: args =>
            match c.init args with
            | some s0 => loop c h hdr { rs with st := some s0 } tot
            | none => loop c h hdr { rs with rejected := some s!"bad-cfg '{line.trimAscii}'" } tot
        | _ =>
          match rs.st with
          | none => loop c h hdr { rs with rejected := some "event-before-cfg" } tot
          | some s =>
            let (aux', pe) := c.parse rs.aux tid rest
            match pe with
            | none =>
                loop c h hdr { rs with rejected := some s!"line={rs.nev} unknown-event '{line.trimAscii}' at {c.descr s tid}" } tot
            | some none => loop c h hdr { rs with nev := rs.nev + 1, aux := aux' } tot
            | some (some e) =>
              match c.step s tid e with
              | none =>
                  loop c h hdr { rs with rejected := some s!"line={rs.nev} not-allowed '{line.trimAscii}' at {c.descr s tid}" } tot
              | some s' =>
                  let k := c.edge s tid e
                  loop c h hdr { rs with st := some s', nev := rs.nev + 1, aux := aux' } { tot with covered := addCov tot.covered k }

def runComp (c : Comp) : IO UInt32 := do
  let stdin ← IO.getStdin
  let tot ← loop c stdin "" {} {}
  let missing := c.edges.filter (fun k => !tot.covered.contains k)
  let extra := tot.covered.filter (fun k => !c.edges.contains k)
  IO.println s!"SUMMARY comp={c.name} runs={tot.runs} accepted={tot.accepted} rejected={tot.rejected} events={tot.events} edges_total={c.edges.length} edges_covered={c.edges.length - missing.length}"
  IO.println s!"MISSING {" ".intercalate missing}"
  IO.println s!"EXTRA {" ".intercalate extra}"
  return (if tot.rejected == 0 then 0 else 1)

end Driver
