import Driver.Common
import ConcVerif.Base.HB
/-! Driver component `hb`: the happens-before / data-race layer of C07, generic over every client.

Reads the RAW trace lines of any harness client (shared vocabulary of `vshim.hpp`, the payload and
the tap), maps them to `ConcVerif.HB.Ev` and feeds `ConcVerif.HB.step` — the function
`raceFree` folds and `C07_raceFree_sound` is about — incrementally; the run is REJECTed at the first
plain access that is not ordered after an earlier conflicting one, and the two accesses are printed.

* object names are opaque strings, interned to numbers;
* thread 0 is the main thread: it runs construction before `run_threads` and destruction after it,
  so a `fork` edge is inserted before the first event of every other thread and `join` edges before
  the next event of thread 0;
* a condition-variable wait is a release of the mutex (`cwt`) and a re-acquisition (`cwk`);
  `notify`, failed try-locks, `yld`/`slp` and client markers are `nop`s;
* a failed CAS is a load (with the failure order derived from the single order the shim prints);
* unknown event kinds are tolerated only when they are pure markers: a kind of the shim vocabulary
  that does not parse, or an unknown kind that mentions a memory order or a known
  mutex / atomic / condition variable, is rejected;
* the window events of the multi-word payload: `pwb x` (modification of `x` starts) is a write of `x` like
  its end `pwr x l`; `cpb dst src` is a read of `src`, `cpe dst src l` a write of `dst` (as `LR.toHB`);
* `cfg lockfam _ _ 0` (locking disabled by the user, `guarded_opt(false)`): plain accesses are not
  checked (the user opted out of protection; nothing is claimed).

Coverage keys = kinds of happens-before edges that actually ordered something in the run set; the
required set depends on the client (named on the `cfg` line).  Unverified glue (trusted base). -/
open ConcVerif ConcVerif.HB

namespace Driver.HBD

def ordOf : String → Option Ord
  | "rlx" => some .rlx | "con" => some .con | "acq" => some .acq | "rel" => some .rel
  | "ar" => some .ar | "sc" => some .sc | _ => none

/-- order of the load a failed compare-exchange performs ([atomics.types.operations]) -/
def failOrd : Ord → Ord
  | .rel => .rlx | .ar => .acq | o => o

/-- kinds printed by the shim / payload / tap: they must parse -/
def vocabulary : List String :=
  ["ald", "ast", "axc", "rmw", "cas", "mlk", "mtl", "mtf", "mul", "slk", "stl", "stf", "sul",
   "cwt", "cwk", "cna", "cn1", "yld", "slp", "prd", "pwr", "pld", "pst", "pwb", "cpb", "cpe"]

/-- client markers known to be pure (no synchronisation content) -/
def markers : List String :=
  ["call", "ret", "exc", "got", "acq", "hd", "hu", "hmc", "hma", "he", "uth", "ucb", "uce", "final",
   "req", "alo", "fre", "con", "des", "pct", "pcp", "pdt", "obj", "comp", "note", "hfree", "prv", "rrv"]

structure AccRec where
  tid : Tid
  loc : Loc
  isW : Bool
  time : Nat
  line : Nat
  text : String

structure DSt where
  st : HB.St := {}
  names : List String := []       -- plain / atomic / mutex names, index = Loc
  syncNames : List String := []   -- names seen as mutex / atomic / condition variable
  started : List Tid := []        -- threads that ran since the last event of thread 0
  chain : List Loc := []          -- atomics whose current release sequence was continued by an RMW
  hist : List AccRec := []
  check : Bool := true
  client : String := "?"

def intern (names : List String) (s : String) : List String × Nat :=
  match names.idxOf? s with
  | some i => (names, i)
  | none => (names ++ [s], names.length)

inductive Cls
  | ev (e : Ev) (tag : String)    -- tag: how the event arose (for coverage keys)
  | bad (why : String)

/-- result of classification: new name tables + class -/
structure Parsed where
  names : List String
  syncNames : List String
  cls : Cls

def addSync (l : List String) (s : String) : List String := if l.contains s then l else s :: l

def parseLine (d : DSt) (ts : List String) : Parsed :=
  let mk (obj : String) (f : Loc → Ev) (tag : String) (sync : Bool) : Parsed :=
    let (ns, i) := intern d.names obj
    { names := ns, syncNames := if sync then addSync d.syncNames obj else d.syncNames, cls := .ev (f i) tag }
  let nop (tag : String) : Parsed := { names := d.names, syncNames := d.syncNames, cls := .ev .nop tag }
  let bad (why : String) : Parsed := { names := d.names, syncNames := d.syncNames, cls := .bad why }
  match ts with
  | ["ald", o, ord, _] => match ordOf ord with
      | some od => mk o (fun a => .ld a od) "ald" true
      | none => bad "unknown-memory-order"
  | ["ast", o, ord, _] => match ordOf ord with
      | some od => mk o (fun a => .st a od) "ast" true
      | none => bad "unknown-memory-order"
  | ["axc", o, ord, _, _] => match ordOf ord with
      | some od => mk o (fun a => .rmw a od) "rmw" true
      | none => bad "unknown-memory-order"
  | ["rmw", o, ord, _, _, _] => match ordOf ord with
      | some od => mk o (fun a => .rmw a od) "rmw" true
      | none => bad "unknown-memory-order"
  | "cas" :: o :: ord :: _ :: _ :: ok :: _ :: rest =>
      if rest ≠ [] ∧ rest ≠ ["spurious"] then bad "malformed-cas" else
      match ordOf ord, ok with
      | some od, "1" => mk o (fun a => .rmw a od) "cas-ok" true
      | some od, "0" => mk o (fun a => .ld a (failOrd od)) "cas-fail" true
      | _, _ => bad "malformed-cas"
  -- whole-object windows of the multi-word payload (vpayload_lr.hpp): both ends of an in-place modification are
  -- writes; a copy assignment reads its source at the begin and writes its target at the end ("?" = a temporary)
  | ["pwb", x] => mk x (fun x => .wr x) "payload" false
  -- destruction / deallocation of a traced heap block (rcu_list nodes `N<k>` and log records `Z<k>`): a plain write of the
  -- block's plain payload field (`data` / `zombie_node`) if that field has been accessed before - every earlier access to
  -- the block must happen-before its reclamation (the happens-before content of the grace period, Props/C07_rcu.lean)
  | ["des", x] =>
      if d.names.contains (x ++ ".data") then mk (x ++ ".data") (fun x => .wr x) "block-end" false
      else if d.names.contains (x ++ ".zombie_node") then mk (x ++ ".zombie_node") (fun x => .wr x) "block-end" false
      else nop "marker"
  | ["fre", x] =>
      if d.names.contains (x ++ ".data") then mk (x ++ ".data") (fun x => .wr x) "block-end" false
      else if d.names.contains (x ++ ".zombie_node") then mk (x ++ ".zombie_node") (fun x => .wr x) "block-end" false
      else nop "marker"
  | ["cpb", _, y] => if y = "?" then nop "marker" else mk y (fun y => .rd y) "payload" false
  | ["cpe", x, _, _] => if x = "?" then nop "marker" else mk x (fun x => .wr x) "payload" false
  | ["mlk", m] => mk m (fun m => .acq m .X) "lock" true
  | ["mul", m] => mk m (fun m => .rel m .X) "unlock" true
  | ["slk", m] => mk m (fun m => .acq m .S) "lock" true
  | ["sul", m] => mk m (fun m => .rel m .S) "unlock" true
  | [k, m, ok] =>
      if k = "mtl" ∨ k = "mtf" ∨ k = "stl" ∨ k = "stf" then
        let md : Mode := if k = "mtl" ∨ k = "mtf" then .X else .S
        match ok with
        | "1" => mk m (fun m => .acq m md) "try-ok" true
        | "0" => { (nop "try-fail") with syncNames := addSync d.syncNames m }
        | _ => bad "malformed-try"
      else if k = "cwt" then
        -- `cwt cv m`
        { (mk ok (fun m => .rel m .X) "cv-wait" true) with syncNames := addSync (addSync d.syncNames m) ok }
      else if k = "cn1" then { (nop "notify") with syncNames := addSync d.syncNames m }
      else if k = "prd" then mk m (fun x => .rd x) "payload" false
      else if k = "pwr" then mk m (fun x => .wr x) "payload" false
      else if (k = "pld" ∨ k = "pst") ∧ d.syncNames.contains m then nop "shim-internal"
      else if k = "pld" then mk m (fun x => .rd x) "tap" false      -- wide access: no value printed
      else if k = "pst" then mk m (fun x => .wr x) "tap" false
      else if vocabulary.contains k then bad "malformed-event"
      else if markers.contains k then nop "marker"
      else if (ordOf m).isSome ∨ (ordOf ok).isSome ∨ d.syncNames.contains m ∨ d.syncNames.contains ok then
        bad "unknown-sync-looking-event" else nop "marker"
  | ["cwk", cv, m, r] =>
      if r = "notified" ∨ r = "spurious" ∨ r = "timeout" ∨ r = "late" then
        { (mk m (fun m => .acq m .X) "cv-wake" true) with syncNames := addSync (addSync d.syncNames m) cv }
      else bad "malformed-cwk"
  | ["cna", cv] => { (nop "notify") with syncNames := addSync d.syncNames cv }
  | ["yld"] => nop "yield"
  | ["slp"] => nop "yield"
  -- an atomic that lives inside a tapped heap block (rcu_list nodes / records): the tap also sees the shim's own access
  -- to the atomic's storage, next to the `ald`/`ast`/`cas` line.  Once a location has been used atomically its storage
  -- is only ever touched by atomic operations, so those echoes are dropped; the plain INITIALISING writes of the
  -- constructor (before the first atomic use) stay and are race-checked like any plain write.
  | ["pld", x, _, _] => if d.syncNames.contains x then nop "shim-internal" else mk x (fun x => .rd x) "tap" false
  | ["pst", x, _, _] => if d.syncNames.contains x then nop "shim-internal" else mk x (fun x => .wr x) "tap" false
  | [] => bad "empty"
  | k :: args =>
      if vocabulary.contains k then bad "malformed-event"
      else if markers.contains k then nop "marker"
      else if args.any (fun a => (ordOf a).isSome ∨ d.syncNames.contains a) then bad "unknown-sync-looking-event"
      else nop "marker"

/-- does the clock `v` carry something `c` does not know yet -/
def news (v c : VC) : Bool := !vle v c

/-- coverage keys of one event, computed on the state BEFORE the step -/
def keysOf (d : DSt) (t : Tid) (e : Ev) (tag : String) : List String :=
  let k := d.st.clk
  let c := tick k t
  match e with
  | .acq m .X =>
      (if news (k.lx m) c then [if tag = "cv-wake" then "cv/unlock->wake" else "mutex/X->X"] else []) ++
      (if news (k.ls m) c then ["mutex/S->X"] else []) ++ (if tag = "try-ok" then ["mutex/try-ok"] else [])
  | .acq m .S => (if news (k.lx m) c then ["mutex/X->S"] else []) ++
      (if !news (k.lx m) c ∧ (k.ls m) ≠ [] ∧ news (k.ls m) c then ["mutex/S-S-no-edge"] else [])
  | .rel _ _ => if tag = "cv-wait" then ["cv/wait-releases"] else []
  | .ld a o =>
      (if tag = "cas-fail" then ["atomic/cas-fail-is-load"] else []) ++
      (if o.isAcq then
        (if news (k.r a) c then [if d.chain.contains a then "atomic/rmw-chain->acq" else "atomic/rel->acq"] else [])
       else if news (k.r a) c then ["atomic/weak-load-no-edge"] else [])
  | .st _ o => if o.isRel then [] else ["atomic/weak-store-no-edge"]
  | .rmw a o =>
      (if o.isAcq ∧ news (k.r a) c then ["atomic/rel->rmw"] else []) ++
      (if !o.isAcq ∧ news (k.r a) c then ["atomic/weak-rmw-no-edge"] else [])
  | .fork _ => ["thread/spawn"]
  | .join _ => ["thread/join"]
  | .rd x =>
      match (d.st.a x).w with
      | some (u, _) => if u ≠ t then ["plain/read-after-write"] else []
      | none => []
  | .wr x =>
      (match (d.st.a x).w with
       | some (u, _) => if u ≠ t then ["plain/write-after-write"] else []
       | none => []) ++
      (if (d.hist.any (fun a => a.loc = x ∧ !a.isW ∧ a.tid ≠ t)) then ["plain/write-after-read"] else [])
  | .nop => if tag = "try-fail" then ["mutex/try-fail-no-edge"] else if tag = "notify" then ["cv/notify-no-edge"] else []

/-- required coverage per client (named on the `cfg` line); unknown clients: thread edges only -/
def required (client : String) : List String :=
  let base := ["thread/spawn"]
  match client with
  | "latch" => base ++ ["mutex/X->X", "cv/unlock->wake", "cv/wait-releases", "cv/notify-no-edge", "atomic/rel->acq",
      "atomic/rmw-chain->acq"]
  | "barrier" => base ++ ["mutex/X->X", "cv/unlock->wake", "cv/wait-releases", "cv/notify-no-edge",
      "plain/read-after-write", "plain/write-after-write", "plain/write-after-read"]
  | "lockfam" => base ++ ["thread/join", "mutex/X->X", "mutex/X->S", "mutex/S->X", "mutex/S-S-no-edge", "mutex/try-ok",
      "mutex/try-fail-no-edge", "plain/read-after-write", "plain/write-after-write", "plain/write-after-read",
      "unprotected/skipped"]
  | "hbpub" => base ++ ["thread/join", "mutex/X->X", "cv/unlock->wake", "cv/wait-releases", "cv/notify-no-edge",
      "atomic/rel->acq", "atomic/rmw-chain->acq", "plain/read-after-write", "plain/write-after-write",
      "plain/write-after-read"]
  | "tripwire" => base ++ ["thread/join", "atomic/rel->acq", "plain/read-after-write"]
  | "deferred" => base ++ ["thread/join", "mutex/X->X", "mutex/X->S", "mutex/S->X", "mutex/try-ok", "mutex/try-fail-no-edge",
      "atomic/rel->acq", "plain/read-after-write", "plain/write-after-write", "plain/write-after-read"]
  | _ => base

/-- feed one HB event; `Except` carries the race report -/
def feed (d : DSt) (t : Tid) (e : Ev) (line : Nat) (text : String) : Except String DSt :=
  let plainOff : Bool := !d.check && (match e with | .rd _ | .wr _ => true | _ => false)
  let e' := if plainOff then Ev.nop else e
  match HB.step d.st t e' with
  | some s' =>
      let c := s'.clk.c t
      let hist := match e' with
        | .rd x => { tid := t, loc := x, isW := false, time := vget c t, line := line, text := text } :: d.hist
        | .wr x => { tid := t, loc := x, isW := true, time := vget c t, line := line, text := text } :: d.hist
        | _ => d.hist
      let chain := match e' with
        | .st a _ => d.chain.erase a
        | .rmw a _ => if (d.st.clk.r a) ≠ [] ∧ !d.chain.contains a then a :: d.chain else d.chain
        | _ => d.chain
      .ok { d with st := s', hist := hist, chain := chain }
  | none =>
      -- a race: name the earlier access(es) this one is not ordered after
      let c := (vstep d.st.clk t e').c t
      let (x, w) := match e' with
        | .wr x => (x, true)
        | .rd x => (x, false)
        | _ => (0, false)
      let culprits := d.hist.filter (fun a => a.loc = x ∧ (w ∨ a.isW) ∧ a.tid ≠ t ∧ a.time > vget c a.tid)
      let nm := (d.names[x]?).getD "?"
      let first := match culprits with
        | a :: _ => s!"line={a.line} '{a.text}'"
        | [] => "(earlier access not found)"
      .error s!"race on {nm}: line={line} '{text}' by thread {t} is not ordered by happens-before after {first}; unordered earlier accesses: {culprits.length}"

structure RunState where
  d : DSt := {}
  nev : Nat := 0
  rejected : Option String := none
  cfgSeen : Bool := false

structure Totals where
  runs : Nat := 0
  accepted : Nat := 0
  rejected : Nat := 0
  events : Nat := 0
  covered : List String := []
  clients : List String := []

def addCovs (cov : List String) (ks : List String) : List String := ks.foldl Driver.addCov cov

/-- one trace line of thread `tid` -/
def doLine (rs : RunState) (tot : Totals) (tid : Tid) (rest : List String) (text : String) : RunState × Totals :=
  let d := rs.d
  let p := parseLine d rest
  match p.cls with
  | .bad why => ({ rs with rejected := some s!"line={rs.nev} {why} '{text}'" }, tot)
  | .ev e tag =>
    let d := { d with names := p.names, syncNames := p.syncNames }
    -- thread edges of the harness: thread 0 spawns the others at `run_threads` and joins them after it
    let pre : List (Tid × Ev) :=
      if tid = 0 then d.started.reverse.map (fun u => (0, Ev.join u))
      else if d.started.contains tid then [] else [(0, Ev.fork tid)]
    let d := if tid = 0 then { d with started := [] }
             else if d.started.contains tid then d else { d with started := tid :: d.started }
    let r : Except String (DSt × List String) :=
      (pre ++ [(tid, e)]).foldl (fun acc (q : Tid × Ev) =>
        match acc with
        | .error m => .error m
        | .ok (d, ks) =>
          let ks' := keysOf d q.1 q.2 (if q.1 = tid ∧ q.2 = e then tag else "")
          match feed d q.1 q.2 rs.nev text with
          | .ok d' => .ok (d', ks ++ ks')
          | .error m => .error m) (.ok (d, []))
    match r with
    | .error m => ({ rs with rejected := some s!"line={rs.nev} {m}" }, tot)
    | .ok (d', ks) => ({ rs with d := d', nev := rs.nev + 1 }, { tot with covered := addCovs tot.covered ks })

partial def loop (h : IO.FS.Stream) (hdr : String) (rs : RunState) (tot : Totals) : IO Totals := do
  let line ← h.getLine
  if line.isEmpty then return tot
  let text := line.trimAscii.toString
  let ts := toks line
  match ts with
  | [] => loop h hdr rs tot
  | "RUN" :: _ => loop h text {} tot
  | "FAIL" :: _ => loop h hdr rs tot
  | "START" :: _ => loop h hdr rs tot
  | "CRASH" :: _ => loop h hdr rs tot
  | "CRASHLOG" :: _ => loop h hdr rs tot
  | "END" :: rest =>
      let status := rest.headD "status=?"
      match rs.rejected with
      | some why =>
          IO.println s!"REJECT {why} || {status} || {hdr}"
          loop h hdr {} { tot with runs := tot.runs + 1, rejected := tot.rejected + 1, events := tot.events + rs.nev }
      | none =>
          IO.println s!"ACCEPT events={rs.nev} || {status} || {hdr}"
          loop h hdr {} { tot with runs := tot.runs + 1, accepted := tot.accepted + 1, events := tot.events + rs.nev }
  | tidS :: rest =>
      if rs.rejected.isSome then loop h hdr rs tot else
      match tidS.toNat? with
      | none => loop h hdr { rs with rejected := some s!"line={rs.nev} unparseable-tid '{text}'" } tot
      | some tid =>
        match rest with
        | "cfg" :: client :: args =>
            let off := client = "lockfam" ∧ args.getLast? = some "0"
            let tot := { tot with clients := Driver.addCov tot.clients client,
                                  covered := if off then Driver.addCov tot.covered "unprotected/skipped" else tot.covered }
            loop h hdr { rs with d := { rs.d with check := !off, client := client }, cfgSeen := true } tot
        | _ =>
          let (rs', tot') := doLine rs tot tid rest text
          loop h hdr rs' tot'

def run : IO UInt32 := do
  let stdin ← IO.getStdin
  let tot ← loop stdin "" {} {}
  let edges := (tot.clients.foldl (fun acc c => addCovs acc (required c)) []).reverse
  let missing := edges.filter (fun k => !tot.covered.contains k)
  let extra := tot.covered.filter (fun k => !edges.contains k)
  IO.println s!"SUMMARY comp=hb runs={tot.runs} accepted={tot.accepted} rejected={tot.rejected} events={tot.events} edges_total={edges.length} edges_covered={edges.length - missing.length}"
  IO.println s!"MISSING {" ".intercalate missing}"
  IO.println s!"EXTRA {" ".intercalate extra}"
  return (if tot.rejected == 0 then 0 else 1)

end Driver.HBD
