import Driver.Common
import ConcVerif.Model.DD
open ConcVerif ConcVerif.DD

namespace Driver.DDD

def res : String → Option (Option Nat)
  | "-1" => some none
  | s => s.toNat?.map some

def parse : List String → Option (Option Ev)
  | ["new", k] => k.toNat?.map (fun k => some (.new k))
  | ["dup", k] => k.toNat?.map (fun k => some (.dup k))
  | ["drop", k] => k.toNat?.map (fun k => some (.drop k))
  | ["call", "add", k] => k.toNat?.map (fun k => some (.callAdd k false))
  | ["call", "addm", k] => k.toNat?.map (fun k => some (.callAdd k true))
  | ["call", "size"] => some (some .callSize)
  | ["call", "destroy"] => some (some .callDestroy)
  | ["call", "destroyd", ms] => ms.toNat?.map (fun ms => some (.callDestroyD ms))
  | ["call", "dtor"] => some (some .callDtor)
  | ["ret", "add"] => some (some (.retAdd false))
  | ["ret", "addm"] => some (some (.retAdd true))
  | ["ret", "size", n] => n.toNat?.map (fun n => some (.retSize n))
  | ["ret", "destroy", r] => (res r).map (fun r => some (.retDestroy r))
  | ["ret", "destroyd", r] => (res r).map (fun r => some (.retDestroyD r))
  | ["ret", "dtor"] => some (some .retDtor)
  | ["mlk", "dlock"] => some (some .mlk)
  | ["mul", "dlock"] => some (some .mul)
  | ["mtf", "dlock", "1"] => some (some (.mtf true []))
  | ["mtf", "dlock", "0"] => some (some (.mtf false []))
  | ["ucb", k] => k.toNat?.map (fun k => some (.ucb k))
  | ["uce", k] => k.toNat?.map (fun k => some (.uce k))
  | ["uth", k] => k.toNat?.map (fun k => some (.uth k))
  | ["pdt", k] => k.toNat?.map (fun k => some (.pdt k))
  | ["pde", k] => k.toNat?.map (fun k => some (.pde k))
  | ["yld"] => some (some .yld)
  | ["slp"] => some (some .slp)
  | ["end"] => some none
  | _ => none

def frameName : Frame → String
  | .addCalled _ mv => if mv then "addCalledM" else "addCalledC"
  | .addLocked _ => "addLocked" | .addRet _ => "addRet"
  | .sizeCalled => "sizeCalled" | .sizeLocked => "sizeLocked" | .sizeRet _ => "sizeRet"
  | .dCalled => "dCalled"
  | .dUnlock0 => "dUnlock0" | .dUnlock1 _ _ => "dUnlock1" | .dCb _ _ _ _ => "dCb" | .dInCb _ _ _ _ _ => "dInCb"
  | .dClear _ _ _ th => if th then "dClearT" else "dClear"
  | .dRelock _ => "dRelock" | .dUnlock2 => "dUnlock2"
  | .dRet r => if r.isSome then "dRet" else "dRetTmo"
  | .dying _ => "dying" | .inDt _ => "inDt"
  | .gCalled _ => "gCalled" | .gUnlockS _ _ _ => "gUnlockS" | .gSleep _ _ _ => "gSleep" | .gRelockS _ _ _ => "gRelockS"
  | .gUnlockD _ _ _ => "gUnlockD" | .gInner _ _ _ => "gInner" | .gRelockD _ _ _ => "gRelockD" | .gUnlockE => "gUnlockE"
  | .gRet r => if r.isSome then "gRet" else "gRetTmo"
  | .xInner _ => "xInner" | .xYield _ => "xYield" | .xSleep _ => "xSleep" | .xInnerLast => "xInnerLast" | .xVec => "xVec"
  | .xRet => "xRet"

def topName (fs : List Frame) : String :=
  match fs with
  | [] => "idle"
  | .dCalled :: .gInner _ _ _ :: _ => "dCalledG"
  | .dCalled :: .xInner _ :: _ => "dCalledX"
  | .dCalled :: .xInnerLast :: _ => "dCalledXL"
  | f :: _ => frameName f

def evName : Ev → String
  | .new _ => "new" | .dup _ => "dup" | .drop _ => "drop" | .callAdd _ mv => if mv then "callAddM" else "callAddC"
  | .callSize => "callSize" | .callDestroy => "callDestroy" | .callDestroyD _ => "callDestroyD" | .callDtor => "callDtor"
  | .retAdd _ => "retAdd" | .retSize _ => "retSize" | .retDestroy _ => "retDestroy" | .retDestroyD _ => "retDestroyD"
  | .retDtor => "retDtor" | .mlk => "mlk" | .mul => "mul" | .mtf ok _ => if ok then "mtf1" else "mtf0"
  | .ucb _ => "ucb" | .uce _ => "uce" | .uth _ => "uth" | .pdt _ => "pdt" | .pde _ => "pde" | .yld => "yld" | .slp => "slp"

/-- coverage key: frame on top before / event / frame on top after (the outcome of the branch taken) -/
def edge (s : St) (t : Tid) (e : Ev) : String :=
  let after := match step s t e with
    | some s' => topName (s'.stk t)
    | none => "?"
  s!"{topName (s.stk t)}/{evName e}/{after}"

def descr (s : St) (t : Tid) : String :=
  s!"stack={(s.stk t).map frameName} lock={s.lock} vec={s.vec} ecs={s.ecs} dead={s.dead} act={s.act} pend={s.pend}"

def edges : List String := []

def comp : Comp :=
  { name := "dd", St := St, Ev := Ev,
    init := fun args => match args with
      | ["1", cb, ns, nt] => match ns.toNat?, nt.toNat? with
          | some ns, some nt => some (init (cb == "1") ns nt)
          | _, _ => none
      | _ => none,
    Aux := Unit, aux0 := (), parse := fun a _ ts => (a, parse ts), step := step, edge := edge, edges := edges,
    descr := descr }

end Driver.DDD
