import Driver.Common
import ConcVerif.Model.DD
open ConcVerif ConcVerif.DD

namespace Driver.DDD

def res : String → Option (Option Nat)
  | "-1" => some none
  | s => s.toNat?.map some

def parse : List String → Option (Option Ev)
  | ["new", k] => k.toNat?.map (fun k => some (.new k))
  | ["dup", k] => k.toNat?.map (fun k => some (.dup k))
  | ["drop", k] => k.toNat?.map (fun k => some (.drop k))
  | ["call", "add", k] => k.toNat?.map (fun k => some (.callAdd k false))
  | ["call", "addm", k] => k.toNat?.map (fun k => some (.callAdd k true))
  | ["call", "size"] => some (some .callSize)
  | ["call", "destroy"] => some (some .callDestroy)
  | ["call", "destroyd", ms] => ms.toNat?.map (fun ms => some (.callDestroyD ms))
  | ["call", "dtor"] => some (some .callDtor)
  | ["ret", "add"] => some (some (.retAdd false))
  | ["ret", "addm"] => some (some (.retAdd true))
  | ["ret", "size", n] => n.toNat?.map (fun n => some (.retSize n))
  | ["ret", "destroy", r] => (res r).map (fun r => some (.retDestroy r))
  | ["ret", "destroyd", r] => (res r).map (fun r => some (.retDestroyD r))
  | ["ret", "dtor"] => some (some .retDtor)
  | ["mlk", "dlock"] => some (some .mlk)
  | ["mul", "dlock"] => some (some .mul)
  | ["mtf", "dlock", "1"] => some (some (.mtf true []))
  | ["mtf", "dlock", "0"] => some (some (.mtf false []))
  | ["ucb", k] => k.toNat?.map (fun k => some (.ucb k))
  | ["uce", k] => k.toNat?.map (fun k => some (.uce k))
  | ["uth", k] => k.toNat?.map (fun k => some (.uth k))
  | ["pdt", k] => k.toNat?.map (fun k => some (.pdt k))
  | ["pde", k] => k.toNat?.map (fun k => some (.pde k))
  | ["yld"] => some (some .yld)
  | ["slp"] => some (some .slp)
  | ["end"] => some none
  | _ => none

def frameName : Frame → String
  | .addCalled _ mv => if mv then "addCalledM" else "addCalledC"
  | .addLocked _ => "addLocked" | .addRet _ => "addRet"
  | .sizeCalled => "sizeCalled" | .sizeLocked => "sizeLocked" | .sizeRet _ => "sizeRet"
  | .dCalled => "dCalled"
  | .dUnlock0 => "dUnlock0" | .dUnlock1 _ _ => "dUnlock1" | .dCb _ _ _ _ => "dCb" | .dInCb _ _ _ _ _ => "dInCb"
  | .dClear _ _ _ th => if th then "dClearT" else "dClear"
  | .dRelock _ => "dRelock" | .dUnlock2 => "dUnlock2"
  | .dRet r => if r.isSome then "dRet" else "dRetTmo"
  | .dying _ => "dying" | .inDt _ => "inDt"
  | .gCalled _ => "gCalled" | .gUnlockS _ _ _ => "gUnlockS" | .gSleep _ _ _ => "gSleep" | .gRelockS _ _ _ => "gRelockS"
  | .gUnlockD _ _ _ => "gUnlockD" | .gInner _ _ _ => "gInner" | .gRelockD _ _ _ => "gRelockD" | .gUnlockE => "gUnlockE"
  | .gRet r => if r.isSome then "gRet" else "gRetTmo"
  | .xInner _ => "xInner" | .xYield _ => "xYield" | .xSleep _ => "xSleep" | .xInnerLast => "xInnerLast" | .xVec => "xVec"
  | .xRet => "xRet"

def topName (fs : List Frame) : String :=
  match fs with
  | [] => "idle"
  | .dCalled :: .gInner _ _ _ :: _ => "dCalledG"
  | .dCalled :: .xInner _ :: _ => "dCalledX"
  | .dCalled :: .xInnerLast :: _ => "dCalledXL"
  | f :: _ => frameName f

def evName : Ev → String
  | .new _ => "new" | .dup _ => "dup" | .drop _ => "drop" | .callAdd _ mv => if mv then "callAddM" else "callAddC"
  | .callSize => "callSize" | .callDestroy => "callDestroy" | .callDestroyD _ => "callDestroyD" | .callDtor => "callDtor"
  | .retAdd _ => "retAdd" | .retSize _ => "retSize" | .retDestroy _ => "retDestroy" | .retDestroyD _ => "retDestroyD"
  | .retDtor => "retDtor" | .mlk => "mlk" | .mul => "mul" | .mtf ok _ => if ok then "mtf1" else "mtf0"
  | .ucb _ => "ucb" | .uce _ => "uce" | .uth _ => "uth" | .pdt _ => "pdt" | .pde _ => "pde" | .yld => "yld" | .slp => "slp"

/-- coverage key: frame on top before / event / frame on top after (the outcome of the branch taken) -/
def edge (s : St) (t : Tid) (e : Ev) : String :=
  let after := match step s t e with
    | some s' => topName (s'.stk t)
    | none => "?"
  s!"{topName (s.stk t)}/{evName e}/{after}"

def descr (s : St) (t : Tid) : String :=
  s!"stack={(s.stk t).map frameName} lock={s.lock} vec={s.vec} ecs={s.ecs} dead={s.dead} act={s.act} pend={s.pend}"

/-- the coverage keys every quick run must exercise (every arm of `step`, every outcome of the silent loops that the
harness can reach; keys with the prefix `S:` come from runs of the single-thread class) -/
def edges : List String :=
  ["S:addRet/retAdd/dInCb", "S:addRet/retAdd/idle", "S:addRet/retAdd/inDt", "S:dCb/ucb/dInCb",
   "S:dInCb/callAddC/addCalledC", "S:dInCb/callAddM/addCalledM", "S:dInCb/callDestroy/dCalled",
   "S:dInCb/callSize/sizeCalled", "S:dInCb/new/dInCb", "S:dInCb/uce/dCb", "S:dInCb/uce/dying", "S:dInCb/uth/dying",
   "S:dRet/retDestroy/dInCb", "S:dRet/retDestroy/idle", "S:dRet/retDestroy/inDt", "S:dying/pdt/inDt",
   "S:gRet/retDestroyD/idle", "S:gSleep/slp/gRelockS", "S:idle/callAddC/addCalledC", "S:idle/callAddM/addCalledM",
   "S:idle/callDestroy/dCalled", "S:idle/callDestroyD/gCalled", "S:idle/callDtor/dCalledX", "S:idle/callDtor/xRet",
   "S:idle/callSize/sizeCalled", "S:idle/drop/dying", "S:idle/drop/idle", "S:idle/dup/idle", "S:idle/new/idle",
   "S:inDt/callAddM/addCalledM", "S:inDt/callDestroy/dCalled", "S:inDt/callSize/sizeCalled", "S:inDt/new/inDt",
   "S:inDt/pde/dRelock", "S:inDt/pde/dRet", "S:inDt/pde/dying", "S:inDt/pde/idle", "S:inDt/pde/xRet",
   "S:sizeRet/retSize/dInCb", "S:sizeRet/retSize/idle", "S:sizeRet/retSize/inDt", "S:xRet/retDtor/idle",
   "S:xSleep/slp/dCalledX", "S:xYield/yld/dCalledX", "addCalledC/mlk/addLocked", "addCalledM/mlk/addLocked",
   "addLocked/mul/addRet", "addRet/retAdd/dInCb", "addRet/retAdd/idle", "addRet/retAdd/inDt", "dCalled/mtf0/dRetTmo",
   "dCalled/mtf1/dUnlock0", "dCalled/mtf1/dUnlock1", "dCalledG/mtf0/gRelockD", "dCalledG/mtf1/dUnlock0",
   "dCalledG/mtf1/dUnlock1", "dCalledX/mtf1/dUnlock0", "dCalledX/mtf1/dUnlock1", "dCalledXL/mtf1/dUnlock0",
   "dCb/ucb/dInCb", "dInCb/callAddC/addCalledC", "dInCb/callAddM/addCalledM", "dInCb/callDestroy/dCalled",
   "dInCb/callSize/sizeCalled", "dInCb/new/dInCb", "dInCb/uce/dCb", "dInCb/uce/dRelock", "dInCb/uce/dying",
   "dInCb/uth/dying", "dRelock/mtf0/dRet", "dRelock/mtf0/gRelockD", "dRelock/mtf1/dUnlock2", "dRet/retDestroy/dInCb",
   "dRet/retDestroy/idle", "dRet/retDestroy/inDt", "dRetTmo/retDestroy/idle", "dRetTmo/retDestroy/inDt",
   "dUnlock0/mul/dCalledXL", "dUnlock0/mul/dRet", "dUnlock0/mul/dying", "dUnlock0/mul/gRelockD", "dUnlock0/mul/xRet",
   "dUnlock0/mul/xSleep", "dUnlock0/mul/xYield", "dUnlock1/mul/dCb", "dUnlock1/mul/dying", "dUnlock2/mul/dRet",
   "dUnlock2/mul/gRelockD", "dUnlock2/mul/xRet", "dUnlock2/mul/xYield", "dying/pdt/inDt", "gCalled/mtf0/gRetTmo",
   "gCalled/mtf1/gUnlockD", "gCalled/mtf1/gUnlockE", "gRelockD/mtf0/gRet", "gRelockD/mtf1/gUnlockE",
   "gRelockD/mtf1/gUnlockS", "gRelockS/mtf0/gRet", "gRelockS/mtf1/gUnlockD", "gRelockS/mtf1/gUnlockE",
   "gRet/retDestroyD/idle", "gRetTmo/retDestroyD/idle", "gSleep/slp/gRelockS", "gUnlockD/mul/dCalledG",
   "gUnlockE/mul/gRet", "gUnlockS/mul/gSleep", "idle/callAddC/addCalledC", "idle/callAddM/addCalledM",
   "idle/callDestroy/dCalled", "idle/callDestroyD/gCalled", "idle/callDtor/dCalledX", "idle/callDtor/xRet",
   "idle/callSize/sizeCalled", "idle/drop/dying", "idle/drop/idle", "idle/dup/idle", "idle/new/idle",
   "inDt/callAddM/addCalledM", "inDt/callDestroy/dCalled", "inDt/callSize/sizeCalled", "inDt/new/inDt",
   "inDt/pde/dRelock", "inDt/pde/dRet", "inDt/pde/dying", "inDt/pde/gRelockD", "inDt/pde/idle", "inDt/pde/xRet",
   "inDt/pde/xYield", "sizeCalled/mlk/sizeLocked", "sizeLocked/mul/sizeRet", "sizeRet/retSize/dInCb",
   "sizeRet/retSize/idle", "sizeRet/retSize/inDt", "xRet/retDtor/idle", "xSleep/slp/dCalledX", "xYield/yld/dCalledX"]

/-- `DelayedDestructorSingleThread` is the same code without the lock operations.  For its traces the driver inserts
the (always successful, uncontended) lock events the class omits, right after the event that leads to them, and runs
them through the same `step`: the single-thread class must behave as the locked class does without contention.
These inserted steps do not count for edge coverage. -/
def lockEv (s : St) (t : Tid) : Option Ev :=
  match s.stk t with
  | .addCalled _ _ :: _ => some .mlk
  | .sizeCalled :: _ => some .mlk
  | .dCalled :: _ => some (.mtf true [])
  | .dRelock _ :: _ => some (.mtf true [])
  | .gCalled _ :: _ => some (.mtf true [])
  | .gRelockS _ _ _ :: _ => some (.mtf true [])
  | .gRelockD _ _ _ :: _ => some (.mtf true [])
  | .addLocked _ :: _ => some .mul
  | .sizeLocked :: _ => some .mul
  | .dUnlock0 :: _ => some .mul
  | .dUnlock1 _ _ :: _ => some .mul
  | .dUnlock2 :: _ => some .mul
  | .gUnlockS _ _ _ :: _ => some .mul
  | .gUnlockD _ _ _ :: _ => some .mul
  | .gUnlockE :: _ => some .mul
  | _ => none

def autoLock : Nat → St → Tid → Option St
  | 0, s, _ => some s
  | n + 1, s, t =>
      match lockEv s t with
      | none => some s
      | some e => (step s t e).bind (fun s' => autoLock n s' t)

structure DSt where
  single : Bool
  st : St

def dstep (d : DSt) (t : Tid) (e : Ev) : Option DSt :=
  match step d.st t e with
  | none => none
  | some s' => if d.single then (autoLock 16 s' t).map (fun s'' => { d with st := s'' }) else some { d with st := s' }

def comp : Comp :=
  { name := "dd", St := DSt, Ev := Ev,
    init := fun args => match args with
      | [lk, cb, ns, nt] => match ns.toNat?, nt.toNat? with
          | some ns, some nt => some { single := lk != "1", st := init (cb == "1") ns nt }
          | _, _ => none
      | _ => none,
    Aux := Unit, aux0 := (), parse := fun a _ ts => (a, parse ts), step := dstep,
    edge := fun d t e => (if d.single then "S:" else "") ++ edge d.st t e, edges := edges,
    descr := fun d t => descr d.st t }

end Driver.DDD
