import Driver.Common
import ConcVerif.Model.TripWire
open ConcVerif ConcVerif.TripWire

namespace Driver.TripWireD

def numAfter (pre s : String) : Option Nat :=
  if s.startsWith pre then (s.drop pre.length).toNat? else none

/-- canonical line names of the client: `decl`, `ix<k>`, `e<k>` -/
def lineOf (s : String) : Option LineId :=
  if s = "decl" then some .decl
  else match numAfter "ix" s with
    | some k => some (.idx k)
    | none => (numAfter "e" s).map .expl

/-- constructor argument: an indexed line is given by its INDEX (the table lookup is the model's) -/
def srcOf (s : String) : Option Src :=
  if s = "decl" then some .decl
  else match numAfter "ix" s with
    | some k => some (.idx k)
    | none => (numAfter "e" s).map (fun k => .line (.expl k))

/-- binding reported by the client after an operation: a line name or `null` -/
def bindOf (s : String) : Option (Option LineId) :=
  if s = "null" then some none else (lineOf s).map some

/-- result of a constructor: `exc` (std::out_of_range) or the line the new object holds -/
def resOf (s : String) : Option (Option LineId) :=
  if s = "exc" then some none else (lineOf s).map some

def ordOf : String → Option Ord
  | "rlx" => some .rlx | "con" => some .con | "acq" => some .acq | "rel" => some .rel
  | "ar" => some .ar | "sc" => some .sc | _ => none

def boolOf : String → Option Bool
  | "0" => some false | "1" => some true | _ => none

def parse : List String → Option (Option Ev)
  | ["fork"] => some (some .fork)
  | ["yld"] => some none
  | ["call", "mkT", i, src] => do let i ← i.toNat?; let s ← srcOf src; pure (some (.callMkT i s))
  | ["ret", "mkT", i, r] => do let i ← i.toNat?; let r ← resOf r; pure (some (.retMkT i r))
  | ["call", "mkD", i, src] => do let i ← i.toNat?; let s ← srcOf src; pure (some (.callMkD i s))
  | ["ret", "mkD", i, r] => do let i ← i.toNat?; let r ← resOf r; pure (some (.retMkD i r))
  | ["call", "mv", i, j] => do let i ← i.toNat?; let j ← j.toNat?; pure (some (.callMv i j))
  | ["ret", "mv", i, j, a, b] => do
      let i ← i.toNat?; let j ← j.toNat?; let a ← bindOf a; let b ← bindOf b; pure (some (.retMv i j a b))
  | ["call", "as", i, j] => do let i ← i.toNat?; let j ← j.toNat?; pure (some (.callAs i j))
  | ["ret", "as", i, j, a, b] => do
      let i ← i.toNat?; let j ← j.toNat?; let a ← bindOf a; let b ← bindOf b; pure (some (.retAs i j a b))
  | ["call", "cp", i, j] => do let i ← i.toNat?; let j ← j.toNat?; pure (some (.callCp i j))
  | ["ret", "cp", i, j, a, b] => do
      let i ← i.toNat?; let j ← j.toNat?; let a ← bindOf a; let b ← bindOf b; pure (some (.retCp i j a b))
  | ["call", "rm", i] => do let i ← i.toNat?; pure (some (.callRm i))
  | ["ret", "rm", i] => do let i ← i.toNat?; pure (some (.retRm i))
  | ["call", "rd", i] => do let i ← i.toNat?; pure (some (.callRd i))
  | ["ret", "rd", i] => do let i ← i.toNat?; pure (some (.retRd i))
  | ["call", "ck", i] => do let i ← i.toNat?; pure (some (.callCk i))
  | ["ret", "ck", i, v] => do let i ← i.toNat?; let v ← boolOf v; pure (some (.retCk i v))
  | ["ald", l, o, v] => do let l ← lineOf l; let o ← ordOf o; let v ← boolOf v; pure (some (.ld l o v))
  | ["ast", l, o, v] => do let l ← lineOf l; let o ← ordOf o; let v ← boolOf v; pure (some (.st l o v))
  | ["axc", l, o, n, old] => do
      let l ← lineOf l; let o ← ordOf o; let n ← boolOf n; let old ← boolOf old; pure (some (.xchg l o n old))
  | ["pwr", d, v] => do let d ← numAfter "d" d; let v ← v.toNat?; pure (some (.pwr d v))
  | ["prd", d, v] => do let d ← numAfter "d" d; let v ← v.toNat?; pure (some (.prd d v))
  | _ => none

def lineName : LineId → String
  | .decl => "decl" | .idx k => s!"ix{k}" | .expl k => s!"e{k}"

def optLine : Option LineId → String
  | none => "null" | some l => lineName l

def pcName : Pc → String
  | .idle => "idle" | .mkT _ _ => "mkT" | .mkD _ _ => "mkD" | .mv _ _ => "mv" | .as _ _ => "as" | .cp _ _ => "cp"
  | .rm _ _ _ => "rm" | .rd _ => "rd" | .ck _ _ _ => "ck"

def srcKind : Src → String
  | .decl => "decl" | .idx _ => "idx" | .line _ => "line"

def edge (s : St) (t : Tid) (e : Ev) : String :=
  let p := pcName (s.pc t)
  match s.pc t, e with
  | .idle, .fork => "idle/fork"
  | .idle, .callMkT _ src =>
      "idle/mkT-" ++ srcKind src ++ (if (lookup s.nIdx src).isNone then "-bad" else "")
  | .idle, .callMkD _ src =>
      "idle/mkD-" ++ srcKind src ++ (if (lookup s.nIdx src).isNone then "-bad" else "")
  | .mkT _ r, .retMkT _ _ => if r.isNone then "mkT/ret-exc" else "mkT/ret-ok"
  | .mkD _ r, .retMkD _ _ => if r.isNone then "mkD/ret-exc" else "mkD/ret-ok"
  | .idle, .callMv _ old => if s.trig old = some none then "idle/mv-from-empty" else "idle/mv"
  | .idle, .callAs dst src =>
      if dst = src then "idle/as-self"
      else "idle/as" ++ (if s.trig dst = some none then "-onto-empty" else "-onto-bound")
             ++ (if s.trig src = some none then "-from-empty" else "-from-bound")
  | .idle, .callCp _ _ => "idle/cp"
  | .idle, .callRm id => if s.trig id = some none then "idle/rm-empty" else "idle/rm-bound"
  | .rm _ (some l) false, .st _ _ _ => if s.line l then "rm/trip-again" else "rm/trip-first"
  | .rm _ (some l) false, .xchg _ _ _ _ => if s.line l then "rm/trip-again" else "rm/trip-first"
  | .rm _ held _, .retRm _ => if held.isNone then "rm/ret-empty" else "rm/ret-tripped"
  | .idle, .callRd _ => "idle/rd"
  | .idle, .callCk _ => "idle/ck"
  | .ck _ _ seen, .ld _ _ v =>
      (if seen.isNone then "ck/ld-" else "ck/reload-") ++ (if v then "tripped" else "clear")
  | .ck _ _ _, .retCk _ v => if v then "ck/ret-tripped" else "ck/ret-clear"
  | .idle, .pwr _ _ => "idle/pwr"
  | .idle, .prd _ v => if v = 0 then "idle/prd-unwritten" else "idle/prd"
  | _, _ => p

/-- edges every quick run must exercise (`rm/trip-*` = the tripping write, a store today; an exchange
of `true` is accepted under the same key).  Accepted but not required (today's code never produces them):
`ck/reload-*` (a second load inside one `isTripped`),
`idle/prd-unwritten` (the generator only reads data that was written). -/
def edges : List String :=
  ["idle/fork",
   "idle/mkT-decl", "idle/mkT-idx", "idle/mkT-idx-bad", "idle/mkT-line",
   "idle/mkD-decl", "idle/mkD-idx", "idle/mkD-idx-bad", "idle/mkD-line",
   "mkT/ret-exc", "mkT/ret-ok", "mkD/ret-exc", "mkD/ret-ok",
   "idle/mv", "idle/mv-from-empty", "mv",
   "idle/as-self", "idle/as-onto-bound-from-bound", "idle/as-onto-bound-from-empty",
   "idle/as-onto-empty-from-bound", "idle/as-onto-empty-from-empty", "as",
   "idle/cp", "cp",
   "idle/rm-empty", "idle/rm-bound", "rm/trip-first", "rm/trip-again", "rm/ret-empty", "rm/ret-tripped",
   "idle/rd", "rd", "idle/ck", "ck/ld-tripped", "ck/ld-clear", "ck/ret-tripped", "ck/ret-clear",
   "idle/pwr", "idle/prd"]

def showTrig (s : St) (id : Nat) : String :=
  match s.trig id with
  | none => "-" | some b => optLine b

def comp : Comp :=
  { name := "tripwire", St := St, Ev := Ev,
    init := fun args => match args with
      | [n, _] => n.toNat?.map init
      | _ => none,
    Aux := Unit, aux0 := (), parse := fun a _ ts => (a, parse ts), step := step, edge := edge, edges := edges,
    descr := fun s t =>
      let p := s.pc t
      let extra := match p with
        | .rm id held done => s!" id={id} held={optLine held} done={done}"
        | .ck d l seen => s!" det={d} line={lineName l} line-value={s.line l} seen={seen}"
        | .mkT id r | .mkD id r => s!" id={id} lookup={optLine r}"
        | .mv a b | .as a b => s!" {a}:{showTrig s a} {b}:{showTrig s b}"
        | _ => ""
      s!"pc={pcName p}{extra} nIdx={s.nIdx} know={s.know t}" }

end Driver.TripWireD
