import Driver.Common
import ConcVerif.Model.LR
open ConcVerif ConcVerif.LR

namespace Driver.LRD

/-- `m_readingLeft` / `m_countingLeft` are bools: true = left -/
def sideOfBool : String → Option Side | "1" => some .L | "0" => some .R | _ => none
def sideOfCnt : String → Option Side | "lc" => some .L | "rc" => some .R | _ => none
def sideOfObj : String → Option Side | "left" => some .L | "right" => some .R | _ => none

def listOf (s : String) : Option (List OpId) :=
  if s = "-" then some [] else (s.splitOn ".").mapM (·.toNat?)

def callOf : List String → Option Call
  | ["ls", k] => k.toNat?.map .ls
  | ["rel"] => some .rel
  | ["modify", k] => k.toNat?.map .modify
  | _ => none

/-- every atomic operation of lr_guarded is seq_cst and the proofs rely on it: any weaker order is not parsed -/
def parse : List String → Option (Option Ev)
  | "call" :: r => (callOf r).map (fun k => some (.call k))
  | "ret" :: r => (callOf r).map (fun k => some (.ret k))
  | "exc" :: r => (callOf r).map (fun k => some (.exc k))
  | ["ald", "cl", "sc", v] => (sideOfBool v).map (fun v => some (.ldCL v))
  | ["ald", "rl", "sc", v] => (sideOfBool v).map (fun v => some (.ldRL v))
  | ["ast", "cl", "sc", v] => (sideOfBool v).map (fun v => some (.stCL v))
  | ["ast", "rl", "sc", v] => (sideOfBool v).map (fun v => some (.stRL v))
  | ["rmw", c, "sc", "add", "1", old] => match sideOfCnt c, old.toNat? with
      | some c, some old => some (some (.inc c old))
      | _, _ => none
  | ["rmw", c, "sc", "add", "-1", old] => match sideOfCnt c, old.toNat? with
      | some c, some old => some (some (.dec c old))
      | _, _ => none
  | ["ald", c, "sc", v] => match sideOfCnt c, v.toNat? with
      | some c, some v => some (some (.ldCnt c v))
      | _, _ => none
  | ["mlk", "wm"] => some (some .lock)
  | ["mul", "wm"] => some (some .unlock)
  | ["yld"] => some (some .yld)
  | ["pwb", x] => (sideOfObj x).map (fun x => some (.fBegin x))
  | ["pwr", x, l] => match sideOfObj x, listOf l with
      | some x, some l => some (some (.fEnd x l))
      | _, _ => none
  | ["uth"] => some (some .uth)
  | ["cpb", x, y] => match sideOfObj x, sideOfObj y with
      | some x, some y => if y = x.flip then some (some (.cpBegin x)) else none
      | _, _ => none
  | ["cpe", x, y, l] => match sideOfObj x, sideOfObj y, listOf l with
      | some x, some y, some l => if y = x.flip then some (some (.cpEnd x l)) else none
      | _, _, _ => none
  | ["prd", x, l] => match sideOfObj x, listOf l with
      | some x, some l => some (some (.rd x l))
      | _, _ => none
  | ["fin", l, r] => match listOf l, listOf r with
      | some l, some r => some (some (.fin l r))
      | _, _ => none
  | _ => none

def sd : Side → String | .L => "L" | .R => "R"

def pcName : Pc → String
  | .idle => "idle" | .rdCalled => "rdCalled" | .rdCL _ => "rdCL" | .rdInc _ => "rdInc" | .rdGot _ _ => "rdGot"
  | .rdHold _ _ => "rdHold" | .rdRel _ _ => "rdRel" | .rdRelD => "rdRelD"
  | .wCalled _ => "wCalled" | .wA _ _ => "wA" | .wF1 _ _ => "wF1" | .wF1d _ _ => "wF1d"
  | .wRb _ _ => "wRb" | .wRbC _ _ => "wRbC" | .wRbD _ _ => "wRbD" | .wWait _ _ _ _ => "wWait"
  | .wF2 _ _ => "wF2" | .wF2d _ _ => "wF2d"
  | .wRf _ _ => "wRf" | .wRfC _ _ => "wRfC" | .wRfD _ _ => "wRfD" | .wRet _ => "wRet" | .wExc _ _ => "wExc"

def pcDescr : Pc → String
  | .rdCL c => s!"rdCL({sd c})" | .rdInc c => s!"rdInc({sd c})" | .rdGot c x => s!"rdGot(cnt={sd c},side={sd x})"
  | .rdHold c x => s!"rdHold(cnt={sd c},side={sd x})" | .rdRel c x => s!"rdRel(cnt={sd c},side={sd x})"
  | .wA op l => s!"wA(op={op},rl={sd l})" | .wF1 op l => s!"wF1(op={op},rl={sd l})" | .wF1d op l => s!"wF1d(op={op},rl={sd l})"
  | .wRb op l => s!"wRb(op={op},rl={sd l})" | .wRbC op l => s!"wRbC(op={op},rl={sd l})"
  | .wWait op l zL zR => s!"wWait(op={op},rl-at-lock={sd l},zeroSeenL={zL},zeroSeenR={zR})"
  | .wF2 op l => s!"wF2(op={op},rl={sd l})"
  | .wRf op l => s!"wRf(op={op},rl={sd l})" | .wRfC op l => s!"wRfC(op={op},rl={sd l})"
  | p => pcName p

def edge (s : St) (t : Tid) (e : Ev) : String :=
  let p := pcName (s.pc t)
  match s.pc t, e with
  | .idle, .call (.ls k) => s!"idle/call-ls{k}"
  | .idle, .call (.modify _) => "idle/call-modify"
  | .idle, .fin _ _ => "idle/fin"
  | .rdCalled, .ldCL v => s!"rdCalled/ldCL-{sd v}"
  | .rdCL _, .inc c _ => s!"rdCL/inc-{sd c}"
  | .rdInc c, .ldRL v => s!"rdInc/ldRL-cnt{sd c}-side{sd v}"
  | .rdHold _ _, .rd x _ => s!"rdHold/rd-{sd x}"
  | .rdHold _ _, .call .rel => "rdHold/call-rel"
  | .rdRel _ _, .dec c _ => s!"rdRel/dec-{sd c}"
  | .wCalled _, .lock => s!"wCalled/lock-rl{sd s.rl}"
  | .wA _ _, .fBegin _ => "wA/fBegin"
  | .wA _ _, .uth => "wA/uth"
  | .wF1 _ _, .fEnd _ _ => "wF1/fEnd"
  | .wF1 _ _, .uth => "wF1/uth"
  | .wF1d _ _, .uth => "wF1d/uth"
  | .wF1d _ _, .stRL _ => "wF1d/stRL"
  | .wWait _ _ zL zR, .ldCnt c v =>
      if v = 0 then s!"wWait/ldCnt-zero-{sd c}-{if zOf c.flip zL zR then "second" else "first"}"
      else s!"wWait/ldCnt-nonzero-{if zL || zR then "second" else "first"}"
  | .wWait _ _ zL zR, .yld => s!"wWait/yld-{if zL || zR then "second" else "first"}"
  | .wWait _ _ _ _, .stCL _ => "wWait/stCL"
  | .wWait _ _ _ _, .fBegin _ => "wWait/fBegin"
  | .wWait _ _ _ _, .uth => "wWait/uth"
  | .wF2 _ _, .fEnd _ _ => "wF2/fEnd"
  | .wF2 _ _, .uth => "wF2/uth"
  | .wF2d _ _, .uth => "wF2d/uth"
  | .wF2d _ _, .unlock => "wF2d/unlock"
  | .wExc _ fwd, .exc _ => if fwd then "wExc/exc-second" else "wExc/exc-first"
  | pc, ev =>
      -- flag loads by the mutex holder are not tied to a position (the discipline does not need them)
      if pc.post && (stutter s ev).isSome then
        match ev with
        | .ldRL _ => "w/ldRL"
        | .ldCL v => s!"w/ldCL-{sd v}"
        | _ => s!"{p}/extra-load"
      else p

/-- the coverage keys of today's code: every model edge it exercises must be seen in the quick tier -/
def edges : List String :=
  ["idle/call-ls0", "idle/call-ls1", "idle/call-ls2", "idle/call-ls3", "idle/call-modify", "idle/fin",
   "rdCalled/ldCL-L", "rdCalled/ldCL-R", "rdCL/inc-L", "rdCL/inc-R",
   "rdInc/ldRL-cntL-sideL", "rdInc/ldRL-cntL-sideR", "rdInc/ldRL-cntR-sideL", "rdInc/ldRL-cntR-sideR",
   "rdGot", "rdHold/rd-L", "rdHold/rd-R", "rdHold/call-rel", "rdRel/dec-L", "rdRel/dec-R", "rdRelD",
   "wCalled/lock-rlL", "wCalled/lock-rlR", "w/ldRL", "wA/fBegin", "wA/uth", "wF1/fEnd", "wF1/uth", "wF1d/uth", "wF1d/stRL",
   "wRb", "wRbC", "wRbD", "w/ldCL-L", "w/ldCL-R",
   "wWait/ldCnt-zero-L-first", "wWait/ldCnt-zero-R-first", "wWait/ldCnt-zero-L-second", "wWait/ldCnt-zero-R-second",
   "wWait/ldCnt-nonzero-first", "wWait/ldCnt-nonzero-second", "wWait/yld-first", "wWait/yld-second", "wWait/stCL",
   "wWait/fBegin", "wWait/uth", "wF2/fEnd", "wF2/uth", "wF2d/uth",
   "wF2d/unlock", "wRf", "wRfC", "wRfD", "wRet", "wExc/exc-first", "wExc/exc-second"]

def showList (l : List Nat) : String := if l.isEmpty then "-" else ".".intercalate (l.map toString)

def mkComp (name : String) (strict : Bool) : Comp :=
  { name := name, St := St, Ev := Ev,
    init := fun _ => some (init strict),
    Aux := Unit, aux0 := (), parse := fun a _ ts => (a, parse ts), step := step, edge := edge, edges := edges,
    descr := fun s t =>
      s!"pc={pcDescr (s.pc t)} rl={sd s.rl} cl={sd s.cl} lc={s.regL.length} rc={s.regR.length} mtx={s.mtx} left={showList s.valL} right={showList s.valR} committed={showList s.committed}" }

/-- safety discipline (C03, C20) -/
def comp : Comp := mkComp "lr" false
/-- safety + writer-progress discipline (C14) -/
def compStrict : Comp := mkComp "lr_strict" true

end Driver.LRD
