import Driver.Common
import Driver.LR
import ConcVerif.Model.Cow
open ConcVerif ConcVerif.Cow
open ConcVerif.LR (Side)

namespace Driver.CowD

/-- `v<n>` -/
def verOf (s : String) : Option Ver :=
  if s.startsWith "v" then (s.drop 1).toString.toNat? else none

/-- the two `shared_ptr` copies inside `m_data`: pointer word at +0, control-block word at +8 -/
def ptrOf : String → Option Side | "left" => some .L | "right" => some .R | _ => none
def ctlOf : String → Option Side | "left+8" => some .L | "right+8" => some .R | _ => none

def callOf : List String → Option Call
  | ["lockShared", k] => k.toNat?.map .lockShared
  | ["lock"] => some .lock
  | ["release"] => some .release
  | ["cancel"] => some .cancel
  | ["cancelNull"] => some .cancelNull
  | ["move"] => some .move
  | ["drop", v] => (verOf v).map .drop
  | _ => none

/-- Aux = "the `fin` line has been seen" (afterwards thread 0 destroys the wrapper: outside the model).
Atomics of `m_data` go through the LR driver's parser (seq_cst only); `wm` is cow_guarded's writer mutex, `lwm` the
write mutex inside `m_data`. -/
def parse (fin : Bool) (tid : Tid) (ts : List String) : Bool × Option (Option Ev) :=
  match ts with
  | ["pct", "v0", "0"] => (fin, if tid = 0 then some none else none)      -- the constructor's object: version 0, value 0
  | ["ret", "lockShared", k, v] => (fin, match k.toNat?, verOf v with
      | some k, some v => some (some (.retGot (.lockShared k) v))
      | _, _ => none)
  | ["ret", "lock", v] => (fin, (verOf v).map (fun v => some (.retGot .lock v)))
  | "call" :: r => (fin, (callOf r).map (fun c => some (.call c)))
  | "ret" :: r => (fin, (callOf r).map (fun c => some (.ret c)))
  | "exc" :: r => (fin, (callOf r).map (fun c => some (.exc c)))
  | ["mlk", "wm"] => (fin, some (some .olock))
  | ["mul", "wm"] => (fin, some (some .ounlock))
  | ["mlk", "lwm"] => (fin, some (some (.lr .lock)))
  | ["mul", "lwm"] => (fin, some (some (.lr .unlock)))
  | ["pld", x, "8", v] => (fin, match ptrOf x, ctlOf x, verOf v with
      | some x, _, some v => some (some (.ldPtr x v))
      | _, some x, _ => some (some (.ldCtl x))
      | _, _, _ => none)
  | ["pst", x, "8", v] => (fin, match ptrOf x, ctlOf x, verOf v with
      | some x, _, some v => some (some (.stPtr x v))
      | _, some x, _ => some (some (.stCtl x))
      | _, _, _ => none)
  | ["pcp", n, src, c] => (fin, match verOf n, verOf src, c.toNat? with
      | some n, some src, some c => some (some (.pcp n src c))
      | _, _, _ => none)
  | ["uth", _] => (fin, some (some .uth))
  | ["pwr", v, c] => (fin, match verOf v, c.toNat? with
      | some v, some c => some (some (.pwr v c))
      | _, _ => none)
  | ["prd", v, c] => (fin, match verOf v, c.toNat? with
      | some v, some c => some (some (.prd v c))
      | _, _ => none)
  | ["pdt", v] =>
      if fin && tid = 0 then (fin, some none)
      else (fin, (verOf v).map (fun v => some (.pdt v)))
  | ["fin", l, r, c] => (true, match verOf l, verOf r, c.toNat? with
      | some l, some r, some c => some (some (.fin l r c))
      | _, _, _ => none)
  | "ald" :: _ | "ast" :: _ | "rmw" :: _ | ["yld"] =>
      (fin, match LRD.parse ts with
        | some (some e) => some (some (.lr e))
        | _ => none)
  | _ => (fin, none)

def pcName : Pc → String
  | .idle => "idle" | .rdA _ => "rdA" | .rdH _ none => "rdH" | .rdH _ (some _) => "rdH+" | .rdP _ _ => "rdP" | .rdD _ _ => "rdD"
  | .lkCalled => "lkCalled" | .lkA => "lkA" | .lkH none => "lkH" | .lkH (some _) => "lkH+" | .lkC _ => "lkC"
  | .lkD _ => "lkD" | .lkT => "lkT" | .lkTD => "lkTD" | .lkExc => "lkExc" | .wHold _ => "wHold"
  | .relA _ => "relA" | .relB _ false => "relB0" | .relB _ true => "relB"
  | .relC _ => "relC" | .relU _ => "relU"
  | .cn _ u d => s!"cn{if u then "u" else ""}{if d then "d" else ""}"
  | .dr _ .no => "dr" | .dr _ .maybe => "dr?" | .dr _ .must => "dr!"

def sd : Side → String | .L => "L" | .R => "R"

def callName : Call → String
  | .lockShared k => s!"lockShared{k}" | .lock => "lock" | .release => "release" | .cancel => "cancel"
  | .cancelNull => "cancelNull" | .move => "move" | .drop _ => "drop"

def edge (s : St) (t : Tid) (e : Ev) : String :=
  let p := pcName (s.pc t)
  match e with
  | .call (.drop v) =>
      let s1 : St := { s with snaps := s.snaps.erase (t, v) }
      s!"{p}/call-drop{match s1.needOf v with | .no => "" | .maybe => "-maybe" | .must => "-last"}"
  | .call c => s!"{p}/call-{callName c}"
  | .ret c => s!"{p}/ret-{callName c}"
  | .retGot c _ => s!"{p}/ret-{callName c}"
  | .exc c => s!"{p}/exc-{callName c}"
  | .lr (.dec c _) => s!"{p}/dec-{sd c}"
  | .lr le => s!"{p}:{LRD.edge s.lr t le}"
  | .olock => s!"{p}/olock"
  | .ounlock => s!"{p}/ounlock"
  | .ldPtr x _ => s!"{p}/ldPtr-{sd x}"
  | .ldCtl x => s!"{p}/ldCtl-{sd x}"
  | .stPtr x _ => s!"{p}/stPtr-{sd x}"
  | .stCtl x => s!"{p}/stCtl-{sd x}{if s.sv x ∈ s.dead then "-dead" else ""}"
  | .pcp _ _ _ => s!"{p}/pcp"
  | .uth => s!"{p}/uth"
  | .pwr _ _ => s!"{p}/pwr"
  | .prd v _ => s!"{p}/prd{if (match s.pc t with | .wHold w => v == w | _ => false) then "-own" else "-snap"}"
  | .pdt _ => s!"{p}/pdt"
  | .fin _ _ _ => s!"{p}/fin"

/-- the coverage keys of today's code: every model edge it exercises must be seen in the quick tier -/
def edges : List String :=
  ["cn/ounlock", "cnu/pdt", "cnud/ret-cancel", "dr!/pdt", "dr/ret-drop", "dr?/pdt", "dr?/ret-drop",
   "idle/call-cancelNull", "idle/call-drop", "idle/call-drop-last", "idle/call-drop-maybe", "idle/call-lock",
   "idle/call-lockShared0", "idle/call-lockShared1", "idle/call-lockShared2", "idle/call-lockShared3", "idle/fin",
   "idle/prd-snap", "idle/ret-cancelNull", "lkA:rdCL/inc-L", "lkA:rdCL/inc-R", "lkA:rdCalled/ldCL-L",
   "lkA:rdCalled/ldCL-R", "lkA:rdInc/ldRL-cntL-sideL", "lkA:rdInc/ldRL-cntR-sideR", "lkC/dec-L", "lkC/dec-R",
   "lkCalled/olock", "lkD/ret-lock", "lkExc/exc-lock", "lkH+/pcp", "lkH+/uth", "lkH/ldPtr-L", "lkH/ldPtr-R",
   "lkT/dec-L", "lkT/dec-R", "lkTD/ounlock", "rdA:rdCL/inc-L", "rdA:rdCL/inc-R", "rdA:rdCalled/ldCL-L",
   "rdA:rdCalled/ldCL-R", "rdA:rdInc/ldRL-cntL-sideL", "rdA:rdInc/ldRL-cntL-sideR", "rdA:rdInc/ldRL-cntR-sideL",
   "rdA:rdInc/ldRL-cntR-sideR", "rdD/ret-lockShared0", "rdD/ret-lockShared1", "rdD/ret-lockShared2",
   "rdD/ret-lockShared3", "rdP/dec-L", "rdP/dec-R", "rdH+/ldCtl-L", "rdH+/ldCtl-R", "rdH/ldPtr-L", "rdH/ldPtr-R",
   "relA/ldCtl-L", "relA/ldCtl-R", "relA/stCtl-L", "relA/stCtl-R", "relA/stPtr-L", "relA/stPtr-R", "relA:w/ldRL",
   "relA:wCalled/lock-rlL", "relA:wCalled/lock-rlR", "relB/ldCtl-L", "relB/ldCtl-R", "relB/pdt", "relB/stCtl-L",
   "relB/stCtl-L-dead", "relB/stCtl-R", "relB/stCtl-R-dead", "relB/stPtr-L", "relB/stPtr-R", "relB0:wF1d/stRL",
   "relB:w/ldCL-L", "relB:w/ldCL-R", "relB:wF2d/unlock", "relB:wWait/ldCnt-nonzero-first",
   "relB:wWait/ldCnt-nonzero-second", "relB:wWait/ldCnt-zero-L-first", "relB:wWait/ldCnt-zero-L-second",
   "relB:wWait/ldCnt-zero-R-first", "relB:wWait/ldCnt-zero-R-second", "relB:wWait/stCL", "relB:wWait/yld-first",
   "relB:wWait/yld-second", "relC/ounlock", "relU/ret-release", "wHold/call-cancel", "wHold/call-move",
   "wHold/call-release", "wHold/prd-own", "wHold/prd-snap", "wHold/pwr", "wHold/ret-move"]

def descr (s : St) (t : Tid) : String :=
  s!"pc={pcName (s.pc t)} lr[{(LRD.mkComp "lr" false).descr s.lr t}] wm={s.wm} det={s.det.map sd} snaps={s.snaps} dead={s.dead} alloc={s.alloc}"

def mkComp (name : String) (strict : Bool) : Comp :=
  { name := name, St := St, Ev := Ev,
    init := fun _ => some (init strict),
    Aux := Bool, aux0 := false, parse := parse, step := step, edge := edge, edges := edges, descr := descr }

/-- safety discipline (C04, C20) -/
def comp : Comp := mkComp "cow" false
/-- + the writer-progress discipline of the embedded left-right model (C14) -/
def compStrict : Comp := mkComp "cow_strict" true

end Driver.CowD
