import Driver.Common
import ConcVerif.Model.Deferred
open ConcVerif ConcVerif.Deferred

namespace Driver.DeferredD

def boolOf : String → Option Bool | "1" => some true | "0" => some false | _ => none

/-- mutexes of the per-task `guarded<packaged_task>` objects: auto-named `m<seq>` by the shim -/
def isInner (name : String) : Bool :=
  match name.toList with
  | 'm' :: d :: ds => (d :: ds).all Char.isDigit
  | _ => false

def howOf : String → Option How
  | "ls" => some .block | "lt" => some .try_ | "lf" => some .for_ | "lu" => some .until_ | _ => none

def isMod : String → Option Bool
  | "md" => some false | "ma" => some true | "mv" => some true | _ => none

/-- Aux = threads that currently hold the mutex of a task wrapper (`void_runner::task` /
`type_runner::task`).  Those mutexes are private to one task, never contended, and play no role in
the proofs; the driver only checks that their lock/unlock events are well bracketed per thread and
that no bracket is open when the thread releases `m` or returns to the client. -/
abbrev Aux := List Tid

def parse (a : Aux) (t : Tid) (ts : List String) : Aux × Option (Option Ev) :=
  let closed : Option (Option Ev) → Option (Option Ev) := fun r => if a.contains t then none else r
  match ts with
  | ["yld"] => (a, some none)
  | ["final", x, y] => (a, if x = y then some none else none)
  | ["mlk", "qm"] => (a, some (some .qlk))
  | ["mul", "qm"] => (a, some (some .qul))
  | ["mtl", "m", ok] => (a, (boolOf ok).map (fun b => some (.mtl b)))
  | ["mul", "m"] => (a, closed (some (some .mul)))
  | ["slk", "m"] => (a, some (some .slk))
  | ["stl", "m", ok] => (a, (boolOf ok).map (fun b => some (.stl b)))
  | ["stf", "m", ok] => (a, (boolOf ok).map (fun b => some (.stf b)))
  | ["sul", "m"] => (a, some (some .sul))
  | ["mlk", n] => if isInner n && !a.contains t then (t :: a, some none) else (a, none)
  | ["mul", n] => if isInner n && a.contains t then (a.erase t, some none) else (a, none)
  | ["ald", "flag", "sc", v] => (a, (boolOf v).map (fun b => some (.fld b)))
  | ["ast", "flag", "sc", v] => (a, (boolOf v).map (fun b => some (.fst b)))
  | ["call", op, k, _] => (a, match isMod op, k.toNat? with
      | some am, some k => some (some (.callMod k am))
      | _, _ => none)
  | ["call", "ld"] => (a, some (some .callLoad))
  | ["call", op] => (a, (howOf op).map (fun h => some (.callSh h)))
  | ["ret", _, _] => (a, closed (some (some .ret)))
  | ["exc", _, _] => (a, closed (some (some .exc)))
  | ["exc", "ld"] => (a, closed (some (some .exc)))
  | ["ucb", k] => (a, k.toNat?.map (fun k => some (.ucb k)))
  | ["uce", k, r] => (a, match k.toNat?, r.toInt? with
      | some k, some r => some (some (.uce k r))
      | _, _ => none)
  | ["uth", k] => (a, k.toNat?.map (fun k => some (.uth k)))
  | ["prd", "P", v] => (a, v.toInt?.map (fun v => some (.prd v)))
  | ["pwr", "P", v] => (a, v.toInt?.map (fun v => some (.pwr v)))
  | ["got", b] => (a, closed ((boolOf b).map (fun b => some (.got b))))
  | ["fpoll", k, b] => (a, match k.toNat?, boolOf b with
      | some k, some b => some (some (.fpoll k b))
      | _, _ => none)
  | ["fget", k, "exc"] => (a, k.toNat?.map (fun k => some (.fget k .exc)))
  | ["fget", k, v] => (a, match k.toNat?, v.toInt? with
      | some k, some v => some (some (.fget k (.val v)))
      | _, _ => none)
  | _ => (a, none)

def pcName : Pc → String
  | .idle _ => "idle" | .mTry _ _ => "mTry" | .qLock _ _ => "qLock" | .qPush _ _ => "qPush" | .qFlag _ _ => "qFlag"
  | .mRet _ _ _ => "mRet" | .sFlag _ => "sFlag" | .sTry _ => "sTry" | .dLoad _ => "dLoad" | .dClear _ => "dClear"
  | .dQLock _ => "dQLock" | .dSwap _ => "dSwap" | .dRun _ => "dRun" | .dIn _ _ => "dIn" | .aIn _ _ => "aIn"
  | .mUnl _ _ _ => "mUnl" | .sAcq _ => "sAcq" | .sGot _ => "sGot" | .ldHold _ => "ldHold" | .ldRet _ => "ldRet"

def ctxName : Ctx → String
  | .mod _ false => "detach" | .mod _ true => "async" | .sh (.acq _) => "handle" | .sh .load => "load"

def b01 (b : Bool) : String := if b then "1" else "0"

def edge (s : St) (t : Tid) (e : Ev) : String :=
  let p := pcName (s.pc t)
  match s.pc t, e with
  | .idle _, .callMod _ a => if a then "idle/call-async" else "idle/call-detach"
  | .idle _, .callSh .block => "idle/call-ls"
  | .idle _, .callSh .try_ => "idle/call-lt"
  | .idle _, .callSh .for_ => "idle/call-lf"
  | .idle _, .callSh .until_ => "idle/call-lu"
  | .idle _, .callLoad => "idle/call-ld"
  | .idle _, .prd _ => "idle/prd"
  | .idle _, .sul => "idle/sul"
  | .idle _, .fpoll _ r => s!"idle/fpoll-{b01 r}"
  | .idle _, .fget _ (.val _) => "idle/fget-val"
  | .idle _, .fget _ .exc => "idle/fget-exc"
  | .mTry _ _, .mtl ok => s!"mTry/mtl-{b01 ok}"
  | .mRet _ _ _, .ret => "mRet/ret"
  | .mRet _ _ _, .exc => "mRet/exc"
  | .sFlag _, .fld v => s!"sFlag/fld-{b01 v}"
  | .sTry _, .mtl ok => s!"sTry/mtl-{b01 ok}"
  | .dLoad (.mod _ _), .fld v => s!"dLoad-mod/fld-{b01 v}"
  | .dLoad (.sh _), .fld v => s!"dLoad-sh/fld-{b01 v}"
  | .dRun c, .ucb _ => if s.batch = [] then s!"dRun/ucb-own-{ctxName c}" else "dRun/ucb-batch"
  | .dRun _, .mul => "dRun/mul"
  | .dIn _ _, .prd _ => "dIn/prd"
  | .dIn _ _, .pwr _ => "dIn/pwr"
  | .dIn _ _, .uce _ _ => "dIn/uce"
  | .dIn _ _, .uth _ => "dIn/uth"
  | .aIn _ _, .prd _ => "aIn/prd"
  | .aIn _ _, .pwr _ => "aIn/pwr"
  | .aIn _ _, .uce _ _ => "aIn/uce"
  | .aIn _ a, .uth _ => if a then "aIn/uth-async" else "aIn/uth-detach"
  | .mUnl _ _ thrown, .mul => if thrown then "mUnl/mul-thrown" else "mUnl/mul"
  | .sAcq c, .slk => s!"sAcq/slk-{ctxName (.sh c)}"
  | .sAcq _, .stl ok => s!"sAcq/stl-{b01 ok}"
  | .sAcq _, .stf ok => s!"sAcq/stf-{b01 ok}"
  | .sGot _, .got b => s!"sGot/got-{b01 b}"
  | .ldHold _, .prd _ => "ldHold/prd"
  | .ldHold _, .uth _ => "ldHold/uth"
  | .ldHold thrown, .sul => if thrown then "ldHold/sul-thrown" else "ldHold/sul"
  | .ldRet _, .ret => "ldRet/ret"
  | .ldRet _, .exc => "ldRet/exc"
  | _, _ => p

def edges : List String :=
  ["idle/call-async", "idle/call-detach", "idle/call-ls", "idle/call-lt", "idle/call-lf", "idle/call-lu", "idle/call-ld",
   "idle/prd", "idle/sul", "idle/fpoll-0", "idle/fpoll-1", "idle/fget-val", "idle/fget-exc",
   "mTry/mtl-1", "mTry/mtl-0", "qLock", "qPush", "qFlag", "mRet/ret", "mRet/exc",
   "sFlag/fld-0", "sFlag/fld-1", "sTry/mtl-1", "sTry/mtl-0",
   "dLoad-mod/fld-0", "dLoad-mod/fld-1", "dLoad-sh/fld-0", "dLoad-sh/fld-1", "dClear", "dQLock", "dSwap",
   "dRun/ucb-batch", "dRun/ucb-own-detach", "dRun/ucb-own-async", "dRun/mul",
   "dIn/prd", "dIn/pwr", "dIn/uce", "dIn/uth", "aIn/prd", "aIn/pwr", "aIn/uce", "aIn/uth-async", "aIn/uth-detach",
   "mUnl/mul", "mUnl/mul-thrown",
   "sAcq/slk-handle", "sAcq/slk-load", "sAcq/stl-1", "sAcq/stl-0", "sAcq/stf-1", "sAcq/stf-0", "sGot/got-1", "sGot/got-0",
   "ldHold/prd", "ldHold/uth", "ldHold/sul", "ldHold/sul-thrown", "ldRet/ret", "ldRet/exc"]

def descr (s : St) (t : Tid) : String :=
  s!"pc={pcName (s.pc t)} mx={s.mx} sh={s.sh} flag={s.flag} qm={s.qm} queue={s.queue} batch={s.batch} applied={s.applied} val={s.val}"

def comp : Comp :=
  { name := "deferred", St := St, Ev := Ev,
    init := fun args => match args with
      | [mk] => if mk == "stm" || mk == "sm" then some (init false) else none
      | _ => none,
    Aux := Aux, aux0 := [], parse := parse, step := step, edge := edge, edges := edges, descr := descr }

end Driver.DeferredD
