import Driver.Common
import ConcVerif.Model.Rcu
import Driver.RcuInv
open ConcVerif ConcVerif.Rcu

namespace Driver.RcuD

/-- `N12` with letter 'N' -> 12 -/
def blk (c : Char) (s : String) : Option Nat :=
  match s.toList with
  | c' :: ds => if c' = c ∧ ds ≠ [] then (String.ofList ds).toNat? else none
  | [] => none

/-- pointer value of the given kind: `null` or a block name -/
def ptr (c : Char) (s : String) : Option (Option Nat) :=
  if s = "null" then some none else (blk c s).map some

def ordOf : String → Option Ord
  | "rlx" => some .rlx | "con" => some .con | "acq" => some .acq | "rel" => some .rel | "ar" => some .ar | "sc" => some .sc
  | _ => none

/-- object name -> field and the kind letter of the values it holds -/
def fldOf (s : String) : Option (Fld × Char) :=
  match s with
  | "head" => some (.head, 'N') | "tail" => some (.tail, 'N') | "zhead" => some (.zhead, 'Z')
  | _ =>
    match s.splitOn "." with
    | [b] =>
        match blk 'N' b, blk 'Z' b with
        | some n, _ => some (.nnext n, 'N')
        | _, some r => some (.rnext r, 'Z')
        | _, _ => none
    | [b, "back"] => (blk 'N' b).map (fun n => (.nback n, 'N'))
    | [b, "owner"] => (blk 'Z' b).map (fun r => (.rowner r, 'G'))
    | _ => none

/-- script op without its fault suffix (`!`, `!n`, `!z`) -/
def bare (s : String) : String := (s.splitOn "!").headD s

def opOf (s0 : String) : Option Op :=
  let s := bare s0
  match s with
  | "lr" => some (.lock false) | "lw" => some (.lock true) | "rel" => some .rel | "beg" => some .beg
  | "nxt" => some .nxt | "der" => some .der | "erc" => some (.erase true) | "ers" => some (.erase false) | "dtor" => some .dtor
  | _ =>
    match s.splitOn "=" with
    | [k, a] =>
        match k, a.toInt? with
        | "pf", some v => some (.push true false v)
        | "pb", some v => some (.push false false v)
        | "ef", some v => some (.push true true v)
        | "eb", some v => some (.push false true v)
        | _, _ => none
    | _ => none

def boolOf : String → Option Bool
  | "0" => some false | "1" => some true | _ => none

/-- plain access on a field that is an atomic's storage (shim-internal access seen by the arena-wide tap) -/
def isAtomicStorage (name : String) : Bool := (fldOf name).isSome

/-- driver events: a model event, or the bracket of a client macro (`all`, `eri=i`, `erv=v`) with the values a complete
traversal returned -/
inductive DEv
  | m (e : Ev)
  | macB (name : String) (arg : Int)
  | macE (name : String) (vals : List Int)

def macOf (op : String) : String × Int :=
  match (bare op).splitOn "=" with
  | [k, a] => (k, a.toInt?.getD 0)
  | _ => (bare op, 0)

def parseM (_a : Unit) (t : Tid) (ts : List String) : Unit × Option (Option Ev) :=
  ((), match ts with
  | ["call", k] => (opOf k).map (fun k => some (.call k))
  | "ret" :: k :: _ => (opOf (if bare k = "ers" then "erc" else k)).map (fun k => some (.ret k))
  | ["exc", k] => (opOf (if bare k = "ers" then "erc" else k)).map (fun k => some (.exc k))
  | ["afl", "Z"] => some (some (.afl true))
  | ["afl", "N"] => some (some (.afl false))
  | "pct" :: _ => some none
  | "pdt" :: _ => some none
  | "uth" :: _ => some none
  | ["mlk", "wmtx"] => some (some .mlk)
  | ["mul", "wmtx"] => some (some .mul)
  | ["alo", b, _] =>
      match blk 'N' b, blk 'Z' b with
      | some n, _ => some (some (.alo false n))
      | _, some r => some (some (.alo true r))
      | _, _ => none
  | ["con", b, v] =>
      match blk 'N' b, v.toInt? with
      | some n, some v => some (some (.conN n v))
      | _, _ => none
  | ["con", b, o, z] =>
      match blk 'Z' b, ptr 'G' o, ptr 'N' z with
      | some r, some o, some z => some (some (.conR r o z))
      | _, _, _ => none
  | ["des", b] =>
      match blk 'N' b, blk 'Z' b with
      | some n, _ => some (some (.des false n))
      | _, some r => some (some (.des true r))
      | _, _ => none
  | ["fre", b] =>
      match blk 'N' b, blk 'Z' b with
      | some n, _ => some (some (.fre false n))
      | _, some r => some (some (.fre true r))
      | _, _ => none
  | ["ald", f, o, v] =>
      match fldOf f, ordOf o with
      | some (f, c), some o => (ptr c v).map (fun v => some (.ald f o v))
      | _, _ => none
  | ["ast", f, o, v] =>
      -- the default constructor's two stores happen before the client can name the members
      if t = 0 ∧ (f = "a0" ∨ f = "a1") ∧ v = "null" then some none else
      match fldOf f, ordOf o with
      | some (f, c), some o => (ptr c v).map (fun v => some (.ast f o v))
      | _, _ => none
  | "cas" :: "zhead" :: o :: e :: d :: ok :: obs :: _ =>
      match ordOf o, ptr 'Z' e, ptr 'Z' d, boolOf ok, ptr 'Z' obs with
      | some o, some e, some d, some ok, some obs => some (some (.cas o e d ok obs))
      | _, _, _, _, _ => none
  | [k, f, _, v] =>
      if k = "pld" ∨ k = "pst" then
        if isAtomicStorage f then some none else
        match f.splitOn "." with
        | [b, "deleted"] =>
            match blk 'N' b, boolOf v with
            | some n, some v => some (some (if k = "pld" then .pldDel n v else .pstDel n v))
            | _, _ => none
        | [b, "data"] =>
            match blk 'N' b, v.toInt? with
            | some n, some v => some (some (if k = "pld" then .pldData n v else .pstData n v))
            | _, _ => none
        | [b, "zombie_node"] =>
            match blk 'Z' b, v.toNat? with
            | some r, some v => some (some (if k = "pld" then .pldZn r (v == 0) else .pstZn r (v == 0)))
            | _, _ => none
        | _ => none
      else none
  | _ => none)

def parse (a : Unit) (t : Tid) (ts : List String) : Unit × Option (Option DEv) :=
  match ts with
  | ["mac", op] => let (k, i) := macOf op; ((), some (some (.macB k i)))
  | ["mend", op] => ((), some (some (.macE (macOf op).1 [])))
  | ["mend", op, vs] =>
      match (vs.splitOn "/").mapM String.toInt? with
      | some vals => ((), some (some (.macE (macOf op).1 vals)))
      | none => ((), none)
  | _ => let (a', r) := parseM a t ts; (a', r.map (fun o => o.map DEv.m))

def pcName : Pc → String
  | .idle => "idle" | .called _ => "called" | .retp _ => "retp"
  | .regAlloc .. => "regAlloc" | .regCons .. => "regCons" | .pushStore .. => "pushStore" | .pushCas .. => "pushCas"
  | .uOwner .. => "uOwner" | .uNext .. => "uNext" | .rZn .. => "rZn" | .rDesN .. => "rDesN" | .rFreN .. => "rFreN"
  | .rNext .. => "rNext" | .rDesZ .. => "rDesZ" | .rFreZ .. => "rFreZ" | .uTrunc _ => "uTrunc" | .uClear _ => "uClear"
  | .pAlloc _ => "pAlloc" | .pCons .. => "pCons" | .pThrown (.erase _) => "pThrown-erase" | .pThrown _ => "pThrown-push"
  | .pExc (.erase _) => "pExc-erase" | .pExc _ => "pExc-push" | .rExc _ => "rExc" | .pLoad .. => "pLoad"
  | .pE1 .. => "pE1" | .pE2 .. => "pE2" | .pF1 .. => "pF1" | .pF2 .. => "pF2" | .pF3 .. => "pF3"
  | .pB1 .. => "pB1" | .pB2 .. => "pB2" | .pB3 .. => "pB3" | .pUnlock _ => "pUnlock"
  | .eOrig .. => "eOrig" | .eDel .. => "eDel" | .eMark .. => "eMark" | .eBack .. => "eBack" | .eNext .. => "eNext"
  | .eUnl .. => "eUnl" | .eFix .. => "eFix" | .eAlloc .. => "eAlloc" | .eCons .. => "eCons" | .eZh .. => "eZh"
  | .eUnlock _ => "eUnlock"
  | .dNext _ => "dNext" | .dDesN .. => "dDesN" | .dFreN .. => "dFreN" | .dZhead => "dZhead" | .dOwner _ => "dOwner"
  | .dRNext _ => "dRNext" | .dZn .. => "dZn" | .dDesZN .. => "dDesZN" | .dFreZN .. => "dFreZN" | .dDesZ .. => "dDesZ"
  | .dFreZ .. => "dFreZ"

def opName : Op → String
  | .lock false => "lr" | .lock true => "lw" | .rel => "rel" | .beg => "beg" | .nxt => "nxt" | .der => "der"
  | .push true false _ => "pf" | .push false false _ => "pb" | .push true true _ => "ef" | .push false true _ => "eb"
  | .erase true => "erc" | .erase false => "ers" | .dtor => "dtor"

def sn (o : Option Nat) : String := if o.isSome then "some" else "none"

def edge (s : St) (t : Tid) (e : Ev) : String :=
  let p := pcName (s.pc t)
  match s.pc t, e with
  | .idle, .call k => "idle/call-" ++ opName k
  | .called k, .ret _ => "called-" ++ opName k ++ "/ret"
  | .called k, .alo .. => "called-" ++ opName k ++ "/register"
  | .called k, .afl _ => "called-" ++ opName k ++ "/regfail"
  | .pAlloc _, .afl _ => "pAlloc/fail"
  | .eAlloc .., .afl _ => "eAlloc/fail"
  | .called .rel, .ald _ _ v => "called-rel/ald-" ++ sn v
  | .called .dtor, .ald _ _ v => "called-dtor/ald-" ++ sn v
  | .called k, _ => "called-" ++ opName k
  | .retp k, _ => "retp-" ++ opName k
  | .regAlloc .., .pstZn .. => "regAlloc/pst"
  | .regAlloc .., _ => "regAlloc/con"
  | .pushCas (.reg _) _ exp, .cas _ _ _ ok obs => "pushCas-reg/" ++ (if ok then "ok" else if obs = exp then "spurious" else "fail")
  | .pushCas (.erase _) _ exp, .cas _ _ _ ok obs => "pushCas-erase/" ++ (if ok then "ok" else if obs = exp then "spurious" else "fail")
  | .pushStore (.reg _) .., _ => "pushStore-reg"
  | .pushStore (.erase _) .., _ => "pushStore-erase"
  | .uOwner .., .ald _ _ v => "uOwner/" ++ (if v.isSome then "active" else "inactive")
  | .uNext .., .ald _ _ v => "uNext/" ++ sn v
  | .rZn .., .pldZn _ isnull => "rZn/" ++ (if isnull then "null" else "node")
  | .rFreZ _ _ nx, _ => "rFreZ/" ++ sn nx
  | .pCons .., .pstDel .. => "pCons/pstDel"
  | .pCons .., .pstData .. => "pCons/pstData"
  | .pCons .., .conN .. => "pCons/con"
  | .pCons .., .fre .. => "pCons/throw"
  | .pLoad (.push f _ _) _, .ald _ _ v => "pLoad/" ++ (if f then "front-" else "back-") ++ sn v
  | .eDel .., .pldDel _ d => "eDel/" ++ (if d then "deleted" else "fresh")
  | .eUnl _ _ p _ _, _ => "eUnl/" ++ (if p.isSome then "prev" else "head")
  | .eFix _ _ _ x _, _ => "eFix/" ++ (if x.isSome then "next" else "tail")
  | .eCons .., .pstZn .. => "eCons/pst"
  | .eCons .., _ => "eCons/con"
  | .dFreN _ nx, _ => "dFreN/" ++ sn nx
  | .dZhead, .ald _ _ v => "dZhead/" ++ sn v
  | .dZn .., .pldZn _ isnull => "dZn/" ++ (if isnull then "null" else "node")
  | .dDesZN .., .pldZn .. => "dDesZN/pld"
  | .dFreZN .., .pldZn .. => "dFreZN/pld"
  | .dFreZ _ nx, _ => "dFreZ/" ++ sn nx
  | _, _ => p

def edges : List String :=
  ["idle/call-lr", "idle/call-lw", "idle/call-rel", "idle/call-beg", "idle/call-nxt", "idle/call-der", "idle/call-pf",
   "idle/call-pb", "idle/call-ef", "idle/call-eb", "idle/call-erc", "idle/call-ers", "idle/call-dtor",
   "called-lr/ret", "called-lw/ret", "called-rel/ret", "called-rel/ald-some", "called-rel/ald-none",
   "called-beg/register", "called-pf/register", "called-pb/register", "called-beg", "called-nxt", "called-der",
   "called-pf", "called-pb", "called-ef", "called-eb", "called-erc", "called-ers", "called-ef/register", "called-eb/register", "called-dtor/ald-some", "called-dtor/ald-none",
   "retp-rel", "retp-beg", "retp-nxt", "retp-der", "retp-pf", "retp-pb", "retp-ef", "retp-eb", "retp-erc", "retp-dtor",
   "regAlloc/pst", "regAlloc/con", "regCons", "pushStore-reg", "pushStore-erase",
   "pushCas-reg/ok", "pushCas-reg/fail", "pushCas-reg/spurious", "pushCas-erase/ok", "pushCas-erase/fail", "pushCas-erase/spurious",
   "uOwner/active", "uOwner/inactive", "uNext/some", "uNext/none", "rZn/null", "rZn/node", "rDesN", "rFreN", "rNext",
   "rDesZ", "rFreZ/some", "rFreZ/none", "uTrunc", "uClear",
   "pAlloc", "pCons/pstDel", "pCons/pstData", "pCons/con", "pCons/throw", "pThrown-push", "pThrown-erase", "pExc-push", "pExc-erase", "rExc",
   "called-beg/regfail", "called-pf/regfail", "called-pb/regfail", "called-ef/regfail", "called-eb/regfail", "pAlloc/fail", "eAlloc/fail",
   "pLoad/front-none", "pLoad/front-some", "pLoad/back-none", "pLoad/back-some",
   "pE1", "pE2", "pF1", "pF2", "pF3", "pB1", "pB2", "pB3", "pUnlock",
   "eOrig", "eDel/deleted", "eDel/fresh", "eMark", "eBack", "eNext", "eUnl/prev", "eUnl/head", "eFix/next", "eFix/tail",
   "eAlloc", "eCons/pst", "eCons/con", "eZh", "eUnlock",
   "dNext", "dDesN", "dFreN/some", "dFreN/none", "dZhead/some", "dZhead/none", "dOwner", "dRNext", "dZn/null", "dZn/node",
   "dDesZN", "dFreZN", "dDesZ", "dFreZ/some", "dFreZ/none"]

def showO (o : Option Nat) : String :=
  match o with
  | none => "null" | some v => toString v

def hndName : Hnd → String
  | .none => "none" | .fresh w => s!"fresh({w})" | .reg w r => s!"reg({w},Z{r})"

/-- Sequential differential (C12): a reference list of element values on which only `List` operations are performed.
It follows the run as long as the run is sequential at the level of the client's operations — a single client thread that
moves its iterator only inside the macros `all`, `eri=i`, `erv=v` — and is compared with every complete traversal the
real list returns and, when the list destructor is called, with the model's linked list. -/
structure Ref where
  on : Bool := true
  who : Option Tid := none
  lst : List Int := []
  inMac : Bool := false
  /-- the erase the running macro is about to perform: by index or by value -/
  pend : Option (Bool × Int) := none

structure DSt where
  s : St
  bad : Option String := none
  ref : Ref := {}

def modelVals (s : St) : List Int := s.lst.map (fun n => (s.nodes n).val)

def refCall (r : Ref) (t : Tid) (k : Op) : Ref :=
  let r := match r.who with
    | none => { r with who := some t }
    | some u => if u = t then r else { r with on := false }
  match k with
  | .beg | .nxt | .der | .erase _ => if r.inMac then r else { r with on := false }
  | _ => r

/-- the reference after a model event; `some msg` if the differential fails -/
def refStep (r : Ref) (s : St) (t : Tid) (e : Ev) : Ref × Option String :=
  match e with
  | .call .dtor =>
      if r.on ∧ modelVals s ≠ r.lst then
        (r, some s!"sequential differential: the list holds {modelVals s} when it is destroyed, the reference list {r.lst}")
      else (r, none)
  | .call k => (refCall r t k, none)
  | .ret (.push f _ v) => ({ r with lst := if f then v :: r.lst else r.lst ++ [v] }, none)
  | .ret (.erase _) =>
      match r.pend with
      | some (true, i) => ({ r with lst := r.lst.eraseIdx i.toNat, pend := none }, none)
      | some (false, v) => ({ r with lst := r.lst.erase v, pend := none }, none)
      | none => (r, none)
  | _ => (r, none)

def refMac (r : Ref) (e : DEv) : Ref × Option String :=
  match e with
  | .macB "eri" i => ({ r with inMac := true, pend := some (true, i) }, none)
  | .macB "erv" v => ({ r with inMac := true, pend := some (false, v) }, none)
  | .macB _ _ => ({ r with inMac := true, pend := none }, none)
  | .macE "all" vals =>
      if r.on ∧ vals ≠ r.lst then
        ({ r with inMac := false, pend := none },
          some s!"sequential differential: the traversal returned {vals}, the reference list is {r.lst}")
      else ({ r with inMac := false, pend := none }, none)
  | .macE _ _ => ({ r with inMac := false, pend := none }, none)
  | .m _ => (r, none)

/-- the model's `step`, followed by the executable invariant monitor of `Driver/RcuInv.lean` and the sequential
differential: a state that breaks an invariant (or a traversal that differs from the reference list) is remembered and
the next event of the run is rejected with the reason in the message -/
def stepM (d : DSt) (t : Tid) (e : DEv) : Option DSt :=
  match d.bad with
  | some _ => none
  | none =>
    match e with
    | .m ev =>
        (step d.s t ev).map (fun s' =>
          let (r', why) := refStep d.ref d.s t ev
          { s := s', bad := (RcuInv.check s' (List.range 10)).orElse (fun _ => why), ref := r' })
    | _ =>
        let (r', why) := refMac d.ref e
        some { d with bad := why, ref := r' }

def edgeM (d : DSt) (t : Tid) (e : DEv) : String :=
  match e with
  | .m ev => edge d.s t ev
  | .macB k _ => if d.ref.on then "seq/mac-" ++ k else "mac"
  | .macE "all" _ => if d.ref.on then "seq/all-checked" else "mend"
  | .macE _ _ => "mend"

def comp : Comp :=
  { name := "rcu", St := DSt, Ev := DEv,
    init := fun _ => some { s := init },
    Aux := Unit, aux0 := (), parse := parse, step := stepM, edge := edgeM,
    edges := edges ++ ["seq/mac-all", "seq/mac-eri", "seq/mac-erv", "seq/all-checked"],
    descr := fun d t =>
      let s := d.s
      (match d.bad with | some w => s!"INVARIANT-BROKEN[{w}] " | none => "") ++
      s!"pc={repr (s.pc t)} hnd={hndName (s.hnd t)} it={repr (s.it t)} head={showO s.head} tail={showO s.tail} zhead={showO s.zhead} wmtx={s.wmtx} nN={s.nN} nR={s.nR} log={s.log} lst={s.lst} live={s.live} dt={s.dt}" }

end Driver.RcuD
