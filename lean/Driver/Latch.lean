import Driver.Common
import ConcVerif.Model.Latch
open ConcVerif ConcVerif.Latch

namespace Driver.LatchD

def kindOf : String → Option Kind
  | "arrive" => some .arrive | "wait" => some .wait | "aaw" => some .aaw | _ => none

def parse : List String → Option (Option Ev)
  | ["call", k] => (kindOf k).map (fun k => some (.call k))
  | ["ret", k] => (kindOf k).map (fun k => some (.ret k))
  | ["mlk", "mtx"] => some (some .mlk)
  | ["mul", "mtx"] => some (some .mul)
  | ["rmw", "counter", "sc", "add", "-1", old] => old.toInt?.map (fun v => some (.dec v))
  | ["ald", "counter", "sc", v] => v.toInt?.map (fun v => some (.ld v))
  | ["cna", "cv"] => some (some .cna)
  | ["cwt", "cv", "mtx"] => some (some .cwt)
  | ["cwk", "cv", "mtx", "notified"] => some (some (.cwk .notified))
  | ["cwk", "cv", "mtx", "spurious"] => some (some (.cwk .spurious))
  | _ => none

def pcName : Pc → String
  | .idle => "idle" | .aCalled _ => "aCalled" | .aLocked _ => "aLocked" | .aDec _ => "aDec"
  | .aNotify _ => "aNotify" | .aUnlock _ => "aUnlock" | .aRet => "aRet" | .wCalled _ => "wCalled"
  | .wLock _ => "wLock" | .wLocked _ => "wLocked" | .wWait _ => "wWait" | .wSleep _ => "wSleep"
  | .wUnlock _ => "wUnlock" | .wRet _ => "wRet"

def edge (s : St) (t : Tid) (e : Ev) : String :=
  let p := pcName (s.pc t)
  match s.pc t, e with
  | .idle, .call .arrive => "idle/call-arrive"
  | .idle, .call .wait => "idle/call-wait"
  | .idle, .call .aaw => "idle/call-aaw"
  | .aDec _, .ld v => if v = 0 then "aDec/ld-zero" else "aDec/ld-nonzero"
  | .aUnlock k, .mul => if k = Kind.aaw then "aUnlock/mul-aaw" else "aUnlock/mul-arrive"
  | .wCalled _, .ld v => if v > 0 then "wCalled/ld-closed" else "wCalled/ld-open"
  | .wLocked _, .ld v => if v > 0 then "wLocked/ld-closed" else "wLocked/ld-open"
  | .wSleep _, .cwk .notified => "wSleep/cwk-notified"
  | .wSleep _, .cwk .spurious => "wSleep/cwk-spurious"
  | .wRet .wait, _ => "wRet/ret-wait"
  | .wRet .aaw, _ => "wRet/ret-aaw"
  | _, _ => p

def edges : List String :=
  ["idle/call-arrive", "idle/call-wait", "idle/call-aaw", "aCalled", "aLocked", "aDec/ld-zero",
   "aDec/ld-nonzero", "aNotify", "aUnlock/mul-aaw", "aUnlock/mul-arrive", "aRet", "wCalled/ld-closed",
   "wCalled/ld-open", "wLock", "wLocked/ld-closed", "wLocked/ld-open", "wWait", "wSleep/cwk-notified",
   "wSleep/cwk-spurious", "wUnlock", "wRet/ret-wait", "wRet/ret-aaw"]

def comp : Comp :=
  { name := "latch", St := St, Ev := Ev,
    init := fun args => match args with
      | [n] => n.toInt?.map init
      | _ => none,
    Aux := Unit, aux0 := (), parse := fun a _ ts => (a, parse ts), step := step, edge := edge, edges := edges,
    descr := fun s t => s!"pc={pcName (s.pc t)} counter={s.counter} mtx={s.mtx} waiters={s.waiters}" }

end Driver.LatchD
