import Driver.Common
import ConcVerif.Model.Trigger
open ConcVerif ConcVerif.Trigger

namespace Driver.TriggerD

def kindOf : String → Option Kind
  | "activate" => some .activate | "trigger" => some .trigger | "wait" => some .wait
  | "waitFor" => some .waitFor | "waitAct" => some .waitAct | "waitForAct" => some .waitForAct
  | "reset" => some .reset | "isActive" => some .isActive | "isTriggered" => some .isTriggered
  | _ => none

def flagOf : String → Option Side
  | "triggered" => some .trig | "activated" => some .act | _ => none

def lockOf : String → Option Side
  | "triggerLock" => some .trig | "activeLock" => some .act | _ => none

def cvOf : String → Option Side
  | "cv_trigger" => some .trig | "cv_active" => some .act | _ => none

def boolOf : String → Option Bool
  | "0" => some false | "1" => some true | _ => none

/-- loads: acquire, acq_rel and seq_cst are kept apart from seq_cst only where the model cares
(`relaxed` / `consume` loads are not events of this component at all) -/
def ordOf : String → Option Ord
  | "acq" => some .acq | "ar" => some .acq | "sc" => some .sc | _ => none

def wakeOf : String → Option Wake
  | "notified" => some .notified | "spurious" => some .spurious | "timeout" => some .timeout | "late" => some .late | _ => none

def parse : List String → Option (Option Ev)
  | ["call", k] => (kindOf k).map (fun k => some (.call k))
  -- void methods (waitActivation, reset) print no result
  | ["ret", k] => (kindOf k).bind (fun k => if k = .waitAct ∨ k = .reset then some (some (.ret k true)) else none)
  | ["ret", k, r] => (kindOf k).bind (fun k => (boolOf r).bind (fun r =>
      if k = .waitAct ∨ k = .reset then none else some (some (.ret k r))))
  | ["mlk", m] => (lockOf m).map (fun m => some (.mlk m))
  | ["mul", m] => (lockOf m).map (fun m => some (.mul m))
  | ["ald", a, o, v] => (flagOf a).bind (fun a => (ordOf o).bind (fun o => (boolOf v).map (fun v => some (.ld a o v))))
  | ["pwr", _, _] => some none   -- client datum (publication scenario): checked by the happens-before layer, stutter here
  | ["prd", _, _] => some none
  | ["ast", a, "sc", v] => (flagOf a).bind (fun a => (boolOf v).map (fun v => some (.st a v)))
  -- an exchange whose result is ignored is a store for the protocol (the model's `st` is "a seq_cst write of the flag")
  | ["axc", a, "sc", v, _] => (flagOf a).bind (fun a => (boolOf v).map (fun v => some (.st a v)))
  | ["cna", c] => (cvOf c).map (fun c => some (.cna c))
  | ["cwt", c, m] => (cvOf c).bind (fun c => (lockOf m).bind (fun m => if c = m then some (some (.cwt c)) else none))
  | ["cwk", c, m, r] => (cvOf c).bind (fun c => (lockOf m).bind (fun m => (wakeOf r).bind (fun r =>
      if c = m then some (some (.cwk c r)) else none)))
  | ["yld"] => some none     -- the client's `tspin` helper yields between two trigger() calls
  | _ => none

def pcName : Pc → String
  | .idle => "idle" | .aCalled => "aCalled" | .aLockT => "aLockT" | .aClear => "aClear"
  | .aUnlockT => "aUnlockT" | .aLockA => "aLockA" | .aHold _ _ => "aHold" | .aRet _ => "aRet"
  | .tCalled _ => "tCalled" | .tLock _ => "tLock" | .tHold _ _ _ => "tHold" | .tRet _ => "tRet"
  | .wCalled _ => "wCalled" | .wLock _ => "wLock" | .wHold _ _ => "wHold" | .wSleep _ => "wSleep"
  | .wTimedOut _ => "wTimedOut" | .wLate _ => "wLate" | .wUnlock _ _ => "wUnlock" | .wRet _ _ => "wRet"
  | .rCalled => "rCalled" | .rLocked => "rLocked" | .rLoop => "rLoop" | .rRelease => "rRelease"
  | .rRelock => "rRelock" | .rStore => "rStore" | .rUnlock _ => "rUnlock" | .rRet => "rRet"
  | .oCalled _ => "oCalled" | .oRet _ _ => "oRet"

def kindName : Kind → String
  | .activate => "activate" | .trigger => "trigger" | .wait => "wait" | .waitFor => "waitFor"
  | .waitAct => "waitAct" | .waitForAct => "waitForAct" | .reset => "reset" | .isActive => "isActive"
  | .isTriggered => "isTriggered"

def wkName (k : WKind) : String := kindName k.toKind
def ctxName : Ctx → String
  | .top => "top" | .inReset => "inReset"
def sideName : Side → String
  | .trig => "trig" | .act => "act"
def b (v : Bool) : String := if v then "1" else "0"

def edge (s : St) (t : Tid) (e : Ev) : String :=
  let p := pcName (s.pc t)
  match s.pc t, e with
  | .idle, .call k => "idle/call-" ++ kindName k
  | .aCalled, .ld _ _ v => "aCalled/ld-" ++ b v
  | .aHold _ _, .st _ _ => "aHold/st"
  | .aHold _ _, .cna _ => "aHold/cna"
  | .aHold _ _, .mul _ => "aHold/mul"
  | .aRet r, _ => "aRet/" ++ b r
  | .tCalled x, .ld _ _ v => "tCalled/ld-" ++ b v ++ "-" ++ ctxName x
  | .tLock x, _ => "tLock/" ++ ctxName x
  | .tHold _ _ _, .st _ _ => "tHold/st"
  | .tHold _ _ _, .cna _ => "tHold/cna"
  | .tHold x _ _, .mul _ => "tHold/mul-" ++ ctxName x
  | .tRet r, _ => "tRet/" ++ b r
  | .wCalled k, .ld _ _ v => "wCalled/ld-" ++ b v ++ "-" ++ wkName k
  | .wLock k, _ => "wLock/" ++ wkName k
  | .wHold k f, .ld _ _ v => "wHold/ld-" ++ b v ++ "-after" ++ b f ++ "-" ++ sideName k.side
  | .wHold k _, .cwt _ => "wHold/cwt-" ++ wkName k
  | .wSleep k, .cwk _ .notified => "wSleep/cwk-notified-" ++ sideName k.side
  | .wSleep k, .cwk _ .spurious => "wSleep/cwk-spurious-" ++ sideName k.side
  | .wSleep k, .cwk _ .timeout => "wSleep/cwk-timeout-" ++ wkName k
  | .wSleep k, .cwk _ .late => "wSleep/cwk-late-" ++ wkName k
  | .wTimedOut k, .ld _ _ v => "wTimedOut/ld-" ++ b v ++ "-" ++ wkName k
  | .wLate k, .ld _ _ v => "wLate/ld-" ++ b v ++ "-" ++ wkName k
  | .wUnlock k r, _ => "wUnlock/" ++ wkName k ++ "-" ++ b r
  | .wRet k r, _ => "wRet/" ++ wkName k ++ "-" ++ b r ++ (if (s.obs t).isSome then "-observed" else "")
  | .rLocked, .ld _ _ v => "rLocked/ld-" ++ b v
  | .rLoop, .ld _ _ v => "rLoop/ld-" ++ b v
  | .rUnlock st, _ => "rUnlock/" ++ b st
  | .oCalled a, _ => "oCalled/" ++ sideName a
  | .oRet a v, _ => "oRet/" ++ sideName a ++ "-" ++ b v
  | _, _ => p

/-- the edges today's code must exercise in every check.  The keys deliberately do not record what the
discipline leaves free (the order of store and notify inside trigger()'s / activate()'s critical section, the
memory order of reset's loop load when it is at least acquire, which method a spurious wake-up hits), so a
harmless rewrite of those keeps every edge covered.  `wTimedOut/ld-1-*` (the deciding load after a time-out
reads `true`) is what the code is prepared for but cannot happen: the model's `cwk timeout` re-acquires the
mutex in the same step, and `C11_timeout_sees_false` proves the flag is false then; it is not required.
`wLate/ld-0-*` (late wake-up, then the flag was cleared / reset again before the deciding load) needs a
re-activation in a narrow window and is not required either. -/
def edges : List String :=
  ["idle/call-activate", "idle/call-trigger", "idle/call-wait", "idle/call-waitFor", "idle/call-waitAct",
   "idle/call-waitForAct", "idle/call-reset", "idle/call-isActive", "idle/call-isTriggered",
   "aCalled/ld-0", "aCalled/ld-1", "aLockT", "aClear", "aUnlockT", "aLockA", "aHold/st",
   "aHold/cna", "aHold/mul", "aRet/0", "aRet/1",
   "tCalled/ld-0-top", "tCalled/ld-1-top", "tCalled/ld-0-inReset", "tCalled/ld-1-inReset",
   "tLock/top", "tLock/inReset", "tHold/st", "tHold/cna", "tHold/mul-top",
   "tHold/mul-inReset", "tRet/0", "tRet/1",
   "wCalled/ld-0-wait", "wCalled/ld-1-wait", "wCalled/ld-0-waitFor", "wCalled/ld-1-waitFor",
   "wLock/wait", "wLock/waitFor", "wLock/waitAct", "wLock/waitForAct",
   "wHold/ld-0-after0-trig", "wHold/ld-0-after1-trig", "wHold/ld-1-after0-trig",
   "wHold/ld-0-after0-act", "wHold/ld-0-after1-act", "wHold/ld-1-after0-act",
   "wHold/cwt-wait", "wHold/cwt-waitFor", "wHold/cwt-waitAct", "wHold/cwt-waitForAct",
   "wSleep/cwk-notified-trig", "wSleep/cwk-notified-act", "wSleep/cwk-spurious-trig", "wSleep/cwk-spurious-act",
   "wSleep/cwk-timeout-waitFor", "wSleep/cwk-timeout-waitForAct",
   "wTimedOut/ld-0-waitFor", "wTimedOut/ld-0-waitForAct",
   "wSleep/cwk-late-waitFor", "wSleep/cwk-late-waitForAct", "wLate/ld-1-waitFor", "wLate/ld-1-waitForAct",
   "wUnlock/wait-1", "wUnlock/waitFor-0", "wUnlock/waitFor-1", "wUnlock/waitAct-1", "wUnlock/waitForAct-0",
   "wUnlock/waitForAct-1",
   "wRet/wait-1", "wRet/wait-1-observed", "wRet/waitFor-1", "wRet/waitFor-1-observed", "wRet/waitFor-0-observed",
   "wRet/waitAct-1", "wRet/waitForAct-0", "wRet/waitForAct-1",
   "rCalled", "rLocked/ld-0", "rLocked/ld-1", "rLoop/ld-0", "rLoop/ld-1", "rRelease", "rRelock",
   "rStore", "rUnlock/0", "rUnlock/1", "rRet",
   "oCalled/trig", "oCalled/act", "oRet/trig-0", "oRet/trig-1", "oRet/act-0", "oRet/act-1"]

def showL (l : List Tid) : String := toString l

def comp : Comp :=
  { name := "trigger", St := St, Ev := Ev,
    init := fun args => match args with
      | [a] => (boolOf a).map init
      | _ => none,
    Aux := Unit, aux0 := (), parse := fun a _ ts => (a, parse ts), step := step, edge := edge, edges := edges,
    descr := fun s t => s!"pc={pcName (s.pc t)} triggered={s.flag .trig} activated={s.flag .act} triggerLock={s.lock .trig} activeLock={s.lock .act} cv_trigger={showL (s.ws .trig)} cv_active={showL (s.ws .act)}" }

end Driver.TriggerD
