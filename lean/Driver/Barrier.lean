import Driver.Common
import ConcVerif.Model.Barrier
open ConcVerif ConcVerif.Barrier

namespace Driver.BarrierD

def kindOf : String → Option Kind
  | "wait" => some .wait | "drop" => some .drop | _ => none

/-- shadow copy of the three plain fields: last value loaded or stored (`none` = never touched) -/
abbrev Shadow := Obs

def shadow0 : Shadow := { th := none, cnt := none, gen := none }

def Shadow.get (a : Shadow) : String → Option (Option Nat)
  | "threshold" => some a.th | "count" => some a.cnt | "generation" => some a.gen | _ => none

def Shadow.set (a : Shadow) (f : String) (v : Nat) : Shadow :=
  match f with
  | "threshold" => { a with th := some v }
  | "count" => { a with cnt := some v }
  | "generation" => { a with gen := some v }
  | _ => a

/-- `pld`/`pst` lines update the shadow and become `plain` model events (the model checks that the
thread holds `mtx`); a load that does not return the shadow value is rejected here.  The events that
release the mutex (`cwt`, `mul`) get the shadow attached; the model compares it with its own fields. -/
def parse (a : Shadow) (_t : Tid) : List String → Shadow × Option (Option Ev)
  | ["call", k] => (a, (kindOf k).map (fun k => some (.call k)))
  | ["ret", k] => (a, (kindOf k).map (fun k => some (.ret k)))
  | ["mlk", "mtx"] => (a, some (some .mlk))
  | ["mul", "mtx"] => (a, some (some (.mul a)))
  | ["cna", "cv"] => (a, some (some .cna))
  | ["cwt", "cv", "mtx"] => (a, some (some (.cwt a)))
  | ["cwk", "cv", "mtx", "notified"] => (a, some (some (.cwk .notified)))
  | ["cwk", "cv", "mtx", "spurious"] => (a, some (some (.cwk .spurious)))
  | ["pld", f, "8", v] =>
      match a.get f, v.toNat? with
      | some cur, some v => if cur = none ∨ cur = some v then (a.set f v, some (some .plain)) else (a, none)
      | _, _ => (a, none)
  | ["pst", f, "8", v] =>
      match a.get f, v.toNat? with
      | some _, some v => (a.set f v, some (some .plain))
      | _, _ => (a, none)
  | _ => (a, none)

def pcName : Pc → String
  | .idle => "idle" | .called _ => "called" | .locked _ => "locked" | .notified _ => "notified"
  | .sleep _ => "sleep" | .woken _ => "woken" | .unlocked _ => "unlocked"

def kindName : Kind → String
  | .wait => "wait" | .drop => "drop"

def edge (s : St) (t : Tid) (e : Ev) : String :=
  let p := pcName (s.pc t)
  match s.pc t, e with
  | .idle, .call k => "idle/call-" ++ kindName k
  | .locked _, .plain => "locked/plain"
  | .notified _, .plain => "notified/plain"
  | .woken _, .plain => "woken/plain"
  | .locked k, .cna => "locked/cna-" ++ kindName k
  | .locked k, .cwt _ => "locked/cwt-" ++ kindName k
  | .sleep _, .cwk .notified => "sleep/cwk-notified"
  | .sleep _, .cwk .spurious => "sleep/cwk-spurious"
  | .woken _, .cwt _ => "woken/cwt-rewait"
  | .woken _, .mul _ => "woken/mul"
  | .notified _, .mul _ => "notified/mul"
  | .unlocked k, .ret _ => "unlocked/ret-" ++ kindName k
  | _, _ => p

def edges : List String :=
  -- ("notified/plain" is accepted but not required: today's code touches no field after `notify_all`)
  ["idle/call-wait", "idle/call-drop", "called", "locked/plain", "woken/plain",
   "locked/cna-wait", "locked/cna-drop", "locked/cwt-wait", "locked/cwt-drop", "sleep/cwk-notified",
   "sleep/cwk-spurious", "woken/cwt-rewait", "woken/mul", "notified/mul", "unlocked/ret-wait",
   "unlocked/ret-drop"]

def showObs (o : Option Nat) : String :=
  match o with
  | none => "-" | some v => toString v

def comp : Comp :=
  { name := "barrier", St := St, Ev := Ev,
    init := fun args => match args with
      | [n] => n.toNat?.map (fun n => init (List.range' 1 n))
      | _ => none,
    Aux := Shadow, aux0 := shadow0, parse := parse, step := step, edge := edge, edges := edges,
    descr := fun s t =>
      s!"pc={pcName (s.pc t)} threshold={s.threshold} count={s.count} generation={s.generation} lGen={s.lGen t} mtx={s.mtx} waiters={s.waiters} parts={s.parts} pending={s.pending}" }

end Driver.BarrierD
