import Driver.Common
import ConcVerif.Model.DObj
open ConcVerif ConcVerif.DObj

namespace Driver.DObjD

/-- string keys of the harness are `s<n>` with `n` in canonical decimal form (injective) -/
def strKey (x : String) : Option Key :=
  if x.startsWith "s" then
    let d := (x.drop 1).toString
    match d.toNat? with
    | some n => if toString n = d then some (.s n) else none
    | none => none
  else none

def intKey (x : String) : Option Key := x.toInt?.map .i

/-- operation tokens (shared by `call` and `ret`); returns the operation and the remaining tokens -/
def parseOp : List String → Option (Op × List String)
  | "getI" :: k :: p :: r => do some (.get (← intKey k) (← p.toNat?), r)
  | "getS" :: k :: p :: r => do some (.get (← strKey k) (← p.toNat?), r)
  | "setI" :: k :: v :: m :: r => do
      let mv ← (match m with | "c" => some false | "m" => some true | _ => none)
      some (.set (← intKey k) (← v.toInt?) mv, r)
  | "setS" :: k :: v :: m :: r => do
      let mv ← (match m with | "c" => some false | "m" => some true | _ => none)
      some (.set (← strKey k) (← v.toInt?) mv, r)
  | "ful" :: v :: r => do some (.ful (← v.toInt?), r)
  | "recI" :: k :: r => do some (.isRec (← intKey k), r)
  | "recS" :: k :: r => do some (.isRec (← strKey k), r)
  | "compI" :: k :: r => do some (.isComp (← intKey k), r)
  | "compS" :: k :: r => do some (.isComp (← strKey k), r)
  | "finI" :: k :: r => do some (.fin (← intKey k), r)
  | "finS" :: k :: r => do some (.fin (← strKey k), r)
  | "dtor" :: r => some (.dtor, r)
  | _ => none

def parseRes : List String → Option Res
  | ["-"] => some .unit
  | ["0"] => some (.bool false)
  | ["1"] => some (.bool true)
  | _ => none

def isMapName (n : String) : Bool :=
  ["pI", "pS", "uI", "uS"].any (fun m => n = m || n.startsWith (m ++ "+"))

def parse : List String → Option (Option Ev)
  | "call" :: r => match parseOp r with
      | some (o, []) => some (some (.call o))
      | _ => none
  | "ret" :: r => match parseOp r with
      | some (o, rr) => (parseRes rr).map (fun x => some (.ret o x))
      | none => none
  | ["mlk", "promiseLock"] => some (some .mlk)
  | ["mul", "promiseLock"] => some (some .mul)
  | ["pset", m, v] => if m = "c" ∨ m = "m" then v.toInt?.map (fun v => some (.pset v)) else none
  | ["pdef"] => some none                 -- `X{}` temporary of the destructor (its move is the `pset`)
  | ["yld"] => some none
  | ["ptmp"] => some none                 -- stack temporary of X inside the library
  | "pld" :: n :: _ => if isMapName n then some (some .acc) else none
  | "pst" :: n :: _ => if isMapName n then some (some .acc) else none
  | ["got", p, "broken"] => p.toNat?.map (fun p => some (.got p .broken))
  | ["got", p, v] => do some (some (.got (← p.toNat?) (.val (← v.toInt?))))
  | _ => none

def opName : Op → String
  | .get (.i _) _ => "getI" | .get (.s _) _ => "getS"
  | .set (.i _) _ false => "setIc" | .set (.i _) _ true => "setIm"
  | .set (.s _) _ false => "setSc" | .set (.s _) _ true => "setSm"
  | .ful _ => "ful"
  | .isRec (.i _) => "recI" | .isRec (.s _) => "recS"
  | .isComp (.i _) => "compI" | .isComp (.s _) => "compS"
  | .fin (.i _) => "finI" | .fin (.s _) => "finS"
  | .dtor => "dtor"

def pcName : Pc → String
  | .idle => "idle" | .called _ => "called" | .locked _ _ _ => "locked" | .unlocked _ _ => "unlocked"

def ph (σ : Seq) (k : Key) : String :=
  match lookup k σ.pending, lookup k σ.used with
  | none, none => "unknown" | some _, none => "pending" | none, some _ => "completed" | some _, some _ => "both"

/-- which path of the method the linearisation takes -/
def linName (σ : Seq) : Op → String
  | .get k _ => "get-" ++ ph σ k
  | .set k _ _ => "set-" ++ ph σ k
  | .ful _ => if σ.pending.isEmpty then "ful-none" else if σ.pending.length = 1 then "ful-one" else "ful-many"
  | .isRec k => "rec-" ++ ph σ k
  | .isComp k => "comp-" ++ ph σ k
  | .fin k => "fin-" ++ ph σ k
  | .dtor => if σ.pending.isEmpty then "dtor-none" else "dtor-some"

def edge (s : St) (t : Tid) (e : Ev) : String :=
  match s.pc t, e with
  | .idle, .call o => "idle/call-" ++ opName o
  | .called o, .mlk => "called/mlk-" ++ linName s.seq o
  | .locked _ _ _, .pset _ => "locked/pset"
  | .locked _ _ _, .acc => "locked/acc"
  | .locked _ _ _, .mul => "locked/mul"
  | .unlocked _ _, .acc => "unlocked/acc-dtor"
  | .unlocked o _, .ret _ _ => "unlocked/ret-" ++ opName o
  | .idle, .got _ (.val _) => "idle/got-val"
  | .idle, .got _ _ => "idle/got-broken"
  | p, _ => pcName p

def phases : List String := ["unknown", "pending", "completed", "both"]

def opNames : List String :=
  ["getI", "getS", "setIc", "setIm", "setSc", "setSm", "ful", "recI", "recS", "compI", "compS", "finI", "finS", "dtor"]

def edges : List String :=
  opNames.map ("idle/call-" ++ ·) ++
  (["get-", "set-", "rec-", "comp-", "fin-"].flatMap (fun o => phases.map (fun p => "called/mlk-" ++ o ++ p))) ++
  ["called/mlk-ful-none", "called/mlk-ful-one", "called/mlk-ful-many", "called/mlk-dtor-none", "called/mlk-dtor-some",
   "locked/pset", "locked/acc", "locked/mul", "unlocked/acc-dtor"] ++
  opNames.map ("unlocked/ret-" ++ ·) ++ ["idle/got-val", "idle/got-broken"]

def showA (l : AList) : String :=
  " ".intercalate (l.map (fun e => s!"{repr e.1}:{e.2}"))

def comp : Comp :=
  { name := "dobj", St := St, Ev := Ev,
    init := fun args => match args with
      | [_] => some init
      | _ => none,
    Aux := Unit, aux0 := (), parse := fun a _ ts => (a, parse ts), step := step, edge := edge, edges := edges,
    descr := fun s t =>
      s!"pc={repr (s.pc t)} lock={s.lock} next={s.next} closer={s.closer} dead={s.seq.dead} pending=[{showA s.seq.pending}] used=[{showA s.seq.used}] handed={s.seq.handed}" }

end Driver.DObjD
