import Driver.Common
import ConcVerif.Model.LockFam
open ConcVerif ConcVerif.LockFam

namespace Driver.LockFamD

def isSessOp (s : String) : Bool :=
  match s.toList.head? with
  | some c => c == 'L' || c == 'T' || c == 'S'
  | none => false

/-- "st=5!1" → ("st", "5", "1") -/
def splitOp (s : String) : String × String :=
  let body := (s.splitOn "!").headD s
  match body.splitOn "=" with
  | [n, v] => (n, v)
  | _ => (body, "")

def parseW (s : String) : Option WOp :=
  let (n, v) := splitOp s
  match n with
  | "ld" => some .ld
  | "cv" => some .cv
  | "rd" => some .rd
  | "rv" => some .rd     -- the void overload of read (the client reports what its functor saw)
  | "md" => some .md
  | "mc" => some .md     -- modify with a functor that takes `const T&` and still writes (shallow const)
  | "mv" => some .md     -- the value-returning overload of modify (the client checks the returned value itself)
  | "st" => v.toInt?.map .st
  | "as" => v.toInt?.map .as
  | "xc" => v.toInt?.map .xc
  | "xl" => v.toInt?.map .xc     -- exchange called with an lvalue argument (the parameter copy is made by the call)
  | "ce" => match v.splitOn "/" with
      | [e, d] => match e.toInt?, d.toInt? with
          | some e, some d => some (.ce e d)
          | _, _ => none
      | _ => none
  | _ => none

def sideOf : String → Option Side | "X" => some .X | "S" => some .S | _ => none
def howOf : String → Option How
  | "b" => some .block | "t" => some .try_ | "f" => some .timed | "u" => some .timed | _ => none
def slotOf : String → Option Slot | "a" => some .a | "b" => some .b | _ => none
def boolOf : String → Option Bool | "1" => some true | "0" => some false | _ => none

def parse : List String → Option (Option Ev)
  | ["call", op] => if isSessOp op then some (some .callSess) else (parseW op).map (fun w => some (.callW w))
  | ["acq", sd, how] => match sideOf sd, howOf how with
      | some sd, some how => some (some (.acq sd how))
      | _, _ => none
  | ["mlk", "m"] => some (some (.lk .X .block true))
  | ["mtl", "m", ok] => (boolOf ok).map (fun b => some (.lk .X .try_ b))
  | ["mtf", "m", ok] => (boolOf ok).map (fun b => some (.lk .X .timed b))
  | ["slk", "m"] => some (some (.lk .S .block true))
  | ["stl", "m", ok] => (boolOf ok).map (fun b => some (.lk .S .try_ b))
  | ["stf", "m", ok] => (boolOf ok).map (fun b => some (.lk .S .timed b))
  | ["mul", "m"] => some (some (.rel .X))
  | ["sul", "m"] => some (some (.rel .S))
  | ["got", i, nn] => match slotOf i, boolOf nn with
      | some i, some nn => some (some (.got i nn))
      | _, _ => none
  | ["hd", i] => (slotOf i).map (fun i => some (.hbegin (.destroy i)))
  | ["hu", i] => (slotOf i).map (fun i => some (.hbegin (.unlock i)))
  | ["hmc", a, b] => match slotOf a, slotOf b with
      | some a, some b => some (some (.hbegin (.movec a b)))
      | _, _ => none
  | ["hma", a, b] => match slotOf a, slotOf b with
      | some a, some b => some (some (.hbegin (.movea a b)))
      | _, _ => none
  | ["hfree"] => some none   -- client-side ownership marker for the python oracle (stutter)
  | ["prv", _, _] => some none   -- identity tag of the value now in the register (python oracle; stutter)
  | ["rrv", _] => some none      -- identity tag of the value an operation handed back (python oracle; stutter)
  | ["he"] => some (some (.hend none))
  | ["he", b] => (boolOf b).map (fun b => some (.hend (some b)))
  | ["prd", "P", v] => v.toInt?.map (fun v => some (.rd v))
  | ["pwr", "P", v] => v.toInt?.map (fun v => some (.wr v))
  | ["uth", _] => some (some .uth)
  | ["ret", op] => if isSessOp op then some (some .retSess) else some (some (.retW .unit))
  | ["ret", _, v] => v.toInt?.map (fun v => some (.retW (.val v)))
  | ["ret", _, ok, e] => match boolOf ok, e.toInt? with
      | some ok, some e => some (some (.retW (.cas ok e)))
      | _, _ => none
  | ["exc", _] => some (some .exc)
  | ["final", a, b] => if a = b then a.toInt?.map (fun v => some (.final v)) else none
  | _ => none

def pcName : Pc → String
  | .idle => "idle" | .sessCalled => "sessCalled" | .acq _ _ => "acq" | .acqd _ _ => "acqd" | .sess => "sess"
  | .hop _ _ => "hop" | .wCalled _ => "wCalled" | .whole _ _ _ _ _ => "whole" | .wDone _ => "wDone" | .wExc => "wExc"

def wName : WOp → String
  | .ld => "ld" | .cv => "cv" | .rd => "rd" | .st _ => "st" | .as _ => "as" | .md => "md" | .xc _ => "xc" | .ce _ _ => "ce"
def hopName : HopK → String
  | .destroy _ => "destroy" | .unlock _ => "unlock" | .movec _ _ => "movec" | .movea _ _ => "movea"
def sideName : Side → String | .X => "X" | .S => "S"
def howName : How → String | .block => "block" | .try_ => "try" | .timed => "timed"

def edge (s : St) (t : Tid) (e : Ev) : String :=
  let en := if s.enabled then "" else "/disabled"
  match s.pc t, e with
  | .acq _ _, .lk sd how ok => s!"acq/lk-{sideName sd}-{howName how}-{ok}"
  | .acq _ _, .got _ _ => "acq/got-disabled"
  | .acqd ok _, .got _ _ => s!"acqd/got-{ok}"
  | .sess, .rd _ => "sess/rd" ++ en
  | .sess, .wr _ => "sess/wr" ++ en
  | .sess, .hbegin k => s!"sess/hbegin-{hopName k}"
  | .hop k _, .rel sd => s!"hop/rel-{hopName k}-{sideName sd}"
  | .hop k _, .hend _ => s!"hop/hend-{hopName k}"
  | .wCalled w, .lk sd _ _ => s!"wCalled/lk-{wName w}-{sideName sd}"
  | .wCalled w, .uth => s!"wCalled/uth-{wName w}"
  | .whole w _ _ _ _, .rd _ => s!"whole/rd-{wName w}"
  | .whole w _ _ _ _, .wr _ => s!"whole/wr-{wName w}"
  | .whole w _ _ _ _, .uth => s!"whole/uth-{wName w}"
  | .whole w _ _ _ thrown, .rel _ => if thrown then s!"whole/rel-thrown-{wName w}" else s!"whole/rel-{wName w}"
  | .wDone r, .retW _ => match r with
      | .cas ok _ => s!"wDone/ret-cas-{ok}"
      | _ => "wDone/ret"
  | p, _ => pcName p

def edges : List String :=
  ["idle", "sessCalled", "sess", "wExc", "wDone/ret", "wDone/ret-cas-true", "wDone/ret-cas-false",
   "acq/lk-X-block-true", "acq/lk-X-try-true", "acq/lk-X-try-false", "acq/lk-X-timed-true", "acq/lk-X-timed-false",
   "acq/lk-S-block-true", "acq/lk-S-try-true", "acq/lk-S-try-false", "acq/lk-S-timed-true", "acq/lk-S-timed-false",
   "acq/got-disabled", "acqd/got-true", "acqd/got-false",
   "sess/rd", "sess/wr", "sess/rd/disabled", "sess/wr/disabled",
   "sess/hbegin-destroy", "sess/hbegin-unlock", "sess/hbegin-movec", "sess/hbegin-movea",
   "hop/rel-destroy-X", "hop/rel-destroy-S", "hop/rel-unlock-X", "hop/rel-unlock-S", "hop/rel-movea-X", "hop/rel-movea-S",
   "hop/hend-destroy", "hop/hend-unlock", "hop/hend-movec", "hop/hend-movea",
   "wCalled/lk-ld-X", "wCalled/lk-ld-S", "wCalled/lk-cv-X", "wCalled/lk-rd-X", "wCalled/lk-rd-S", "wCalled/lk-st-X",
   "wCalled/lk-as-X", "wCalled/lk-md-X", "wCalled/lk-xc-X", "wCalled/lk-ce-X",
   "whole/rd-ld", "whole/rd-cv", "whole/rd-rd", "whole/rd-md", "whole/rd-xc", "whole/rd-ce",
   "whole/wr-st", "whole/wr-as", "whole/wr-md", "whole/wr-xc", "whole/wr-ce",
   "wCalled/uth-xc",
   "whole/uth-ld", "whole/uth-cv", "whole/uth-rd", "whole/uth-st", "whole/uth-as", "whole/uth-md", "whole/uth-ce",
   "whole/rel-ld", "whole/rel-cv", "whole/rel-rd", "whole/rel-st", "whole/rel-as", "whole/rel-md", "whole/rel-xc", "whole/rel-ce",
   "whole/rel-thrown-ld", "whole/rel-thrown-cv", "whole/rel-thrown-rd", "whole/rel-thrown-st", "whole/rel-thrown-as",
   "whole/rel-thrown-md", "whole/rel-thrown-ce"]

def comp : Comp :=
  { name := "lockfam", St := St, Ev := Ev,
    init := fun args => match args with
      | [_, mk, en] => match boolOf en with
          | some en => some (init en (mk == "sm" || mk == "stm"))
          | none => none
      | _ => none,
    Aux := Unit, aux0 := (), parse := fun a _ ts => (a, parse ts), step := step, edge := edge, edges := edges,
    descr := fun s t => s!"pc={pcName (s.pc t)} val={s.val} excl={s.excl} shared={s.shared} enabled={s.enabled} capable={s.capable}" }

end Driver.LockFamD
