import Driver.Common
import ConcVerif.Model.SOH
open ConcVerif ConcVerif.SOH

namespace Driver.SOHD

def nameOf (s : String) : Option Name :=
  match s.toList with
  | [c] => if 'a' ≤ c ∧ c ≤ 'z' then some (c.toNat - 'a'.toNat) else none
  | _ => none

def predOf (p j : String) : Option Pred := do
  let thr ← j.toNat?
  match p.toList with
  | ['T'] => some ⟨.always, thr⟩
  | ['F'] => some ⟨.never, thr⟩
  | 'e' :: ds => (String.ofList ds).toNat?.map (fun k => ⟨.idEq k, thr⟩)
  | _ => none

def opOf : List String → Option Op
  | ["add", n, k] => do some (.add (← nameOf n) (← k.toNat?))
  | ["addt", n, k, ty] => do some (.addT (← nameOf n) (← k.toNat?) (← ty.toNat?))
  | ["aty", n, ty] => do some (.addType (← nameOf n) (← ty.toNat?))
  | ["emp"] => some .empty
  | ["get"] => some .get
  | ["rm", n] => do some (.rm (← nameOf n))
  | ["rp", p, j] => do some (.rp (← predOf p j))
  | ["cp", a, b] => do some (.cp (← nameOf a) (← nameOf b))
  | ["chk", n, ty] => do some (.chk (← nameOf n) (← ty.toNat?))
  | ["find", n] => do some (.find (← nameOf n))
  | ["fp", p, j] => do some (.fp (← predOf p j))
  | ["fpt", p, j, ty] => do some (.fpt (← predOf p j) (← ty.toNat?))
  | _ => none

def listOf (s : String) : Option (List ObjId) :=
  let inner := ((s.drop 1).dropEnd 1).toString
  if inner = "" then some [] else (inner.splitOn ",").mapM (·.toNat?)

def resOf (v : String) : Option Res :=
  if v = "true" then some (.bool true)
  else if v = "false" then some (.bool false)
  else if v = "()" then some .unit
  else if v = "null" then some (.obj none)
  else if v.startsWith "[" then (listOf v).map .objs
  else v.toNat?.map (fun k => .obj (some k))

def parse : List String → Option (Option Ev)
  | ["call", "dtor"] => some (some .callD)
  | ["ret", "dtor"] => some (some .retD)
  | "call" :: rest => (opOf rest).map (fun o => some (.call o))
  | ["mlk", "mapLock"] => some (some .mlk)
  | ["mul", "mapLock"] => some (some .mul)
  | ["pcl", k] => k.toNat?.map (fun k => some (.pcl k))
  | ["uth"] => some (some .uth)
  | ["ret", _, "->", v] => (resOf v).map (fun r => some (.ret r))
  | ["exc", _] => some (some .exc)
  | ["rel", k] => k.toNat?.map (fun k => some (.rel k))
  | ["pdt", k] => k.toNat?.map (fun k => some (.pdt k))
  | ["yld"] => some (some .yld)
  | ["slp"] => some (some .slp)
  | ["mac", _, _] => some (some .mac)
  | _ => none

def opName : Op → String
  | .add .. => "add" | .addT .. => "addt" | .addType .. => "aty" | .empty => "emp" | .get => "get" | .rm .. => "rm"
  | .rp .. => "rp" | .cp .. => "cp" | .chk .. => "chk" | .find .. => "find" | .fp .. => "fp" | .fpt .. => "fpt"

def resClass : Res → String
  | .unit => "unit" | .bool true => "true" | .bool false => "false" | .obj (some _) => "some" | .obj none => "null"
  | .objs [] => "nil" | .objs _ => "list" | .threw => "threw"

def pcName : Pc → String
  | .idle => "idle" | .called _ => "called" | .cs .. => "cs" | .thrown _ => "thrown" | .unlocked .. => "unlocked"
  | .dCalled => "dCalled" | .dLocked _ => "dLocked" | .dWait _ => "dWait" | .dRelock _ => "dRelock" | .dDone => "dDone"

def edge (s : St) (t : Tid) (e : Ev) : String :=
  match s.pc t, e with
  | p, .pdt _ => match p with
      | .cs .. => "pdt/in-cs" | .thrown _ => "pdt/in-cs" | .dDone => "pdt/map-destroyed" | _ => "pdt/outside"
  | .idle, .call op => "call/" ++ opName op
  | .idle, .rel _ => "rel"
  | .called op, .mlk => "mlk/" ++ opName op ++ "-" ++ resClass (apply s.maps op).2
  | .cs .., .pcl _ => "pcl"
  | .cs .., .uth => "uth"
  | .cs .., .mul => "mul/cs"
  | .thrown _, .mul => "mul/thrown"
  | .unlocked .., .ret _ => "ret"
  | .unlocked .., .exc => "exc"
  | .idle, .callD => "callD"
  | .dCalled, .mlk => "dCalled/mlk"
  | .dLocked c, .mul =>
      if s.maps.objs = [] then (if c = 0 then "dLocked/mul-empty-at-once" else "dLocked/mul-emptied-meanwhile")
      else if 7 ≤ c then "dLocked/mul-give-up" else "dLocked/mul-retry"
  | .dWait _, .yld => "dWait/yld"
  | .dWait _, .slp => "dWait/slp"
  | .dRelock _, .mlk => "dRelock/mlk"
  | .dDone, .retD => "retD"
  | p, .mac => match p with
      | .dDone => "mac/teardown" | .dLocked _ => "mac/dtor-locked" | _ => "mac/in-cs"
  | p, _ => pcName p

def edges : List String :=
  ["pdt/in-cs", "pdt/map-destroyed", "pdt/outside", "rel",
   "call/add", "call/addt", "call/aty", "call/emp", "call/get", "call/rm", "call/rp", "call/cp", "call/chk", "call/find",
   "call/fp", "call/fpt",
   "mlk/add-true", "mlk/add-false", "mlk/addt-true", "mlk/addt-false", "mlk/aty-unit", "mlk/emp-true", "mlk/emp-false",
   "mlk/get-nil", "mlk/get-list", "mlk/rm-true", "mlk/rm-false", "mlk/rp-true", "mlk/rp-false", "mlk/rp-threw",
   "mlk/cp-true", "mlk/cp-false", "mlk/chk-true", "mlk/chk-false", "mlk/find-some", "mlk/find-null",
   "mlk/fp-some", "mlk/fp-null", "mlk/fp-threw", "mlk/fpt-some", "mlk/fpt-null", "mlk/fpt-threw",
   "pcl", "uth", "mul/cs", "mul/thrown", "ret", "exc",
   "callD", "dCalled/mlk", "dLocked/mul-empty-at-once", "dLocked/mul-emptied-meanwhile", "dLocked/mul-give-up",
   "dLocked/mul-retry", "dWait/yld", "dWait/slp", "dRelock/mlk", "retD",
   "mac/in-cs", "mac/dtor-locked", "mac/teardown"]

def showMaps (m : Maps) : String := s!"objs={m.objs} tags={m.tags}"

def comp : Comp :=
  { name := "soh", St := St, Ev := Ev,
    init := fun _ => some init,
    Aux := Unit, aux0 := (), parse := fun a _ ts => (a, parse ts), step := step, edge := edge, edges := edges,
    descr := fun s t => s!"pc={repr (s.pc t)} lock={s.lock} {showMaps s.maps} held={s.held} dead={s.dead} gone={s.gone}" }

/-- the same component for client builds without the plain-access tap (sanitizer builds): no `mac` events -/
def compNoTap : Comp := { comp with name := "soh-notap", edges := edges.filter (fun k => !k.startsWith "mac/") }

end Driver.SOHD
