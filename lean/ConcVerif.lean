import ConcVerif.Base.TS
