import ConcVerif.Base.TS
/-! Termination of executions from a ranking function (the "fair termination" step of DESIGN §4,
in a form that needs no fairness assumption at all).

Setting: a model `step : St → Tid → Ev → Option St`, a set `Good` of states closed under steps
(e.g. "reachable and the latch is open"), a per-thread rank `μ s t : Nat` such that inside `Good`
* every non-`call` step of thread `t` strictly decreases `μ · t`           (L3, bounded remaining work),
* a `call` step raises it by at most `K`,
* a step of `t` does not raise the rank of any other thread.
Then along every accepted trace whose threads lie in a finite duplicate-free list `ts`
  `length + Σ_{t ∈ ts} μ s' t ≤ Σ_{t ∈ ts} μ s t + (K+1) · #calls`                (`bounded_run`)
so an execution that makes finitely many calls is finite, whatever the scheduler does
(`no_infinite_run`): together with deadlock-freedom (some thread is enabled unless every thread is
idle — proved per component) every maximal execution ends with every thread returned. -/
namespace ConcVerif.Live

variable {St Ev : Type}

/-- sum of the ranks of the threads in `ts` -/
def total (μ : St → Tid → Nat) (ts : List Tid) (s : St) : Nat := (ts.map (μ s)).sum

theorem total_cons (μ : St → Tid → Nat) (a : Tid) (ts : List Tid) (s : St) :
    total μ (a :: ts) s = μ s a + total μ ts s := by
  simp [total]

/-- ranks of threads other than `t` do not grow ⇒ neither does the total over a list not containing `t` -/
theorem total_frame (μ : St → Tid → Nat) (ts : List Tid) (s s' : St) (t : Tid) (ht : t ∉ ts)
    (hf : ∀ u, u ≠ t → μ s' u ≤ μ s u) : total μ ts s' ≤ total μ ts s := by
  induction ts with
  | nil => exact Nat.le_refl _
  | cons a as ih =>
    have ha : a ≠ t := fun h => ht (by simp [h])
    have hn : t ∉ as := fun h => ht (by simp [h])
    rw [total_cons, total_cons]
    have := hf a ha
    have := ih hn
    omega

/-- a step of `t ∈ ts` changes the total by at most the change of `t`'s own rank -/
theorem total_step (μ : St → Tid → Nat) (ts : List Tid) (hnd : ts.Nodup) (s s' : St) (t : Tid)
    (ht : t ∈ ts) (hf : ∀ u, u ≠ t → μ s' u ≤ μ s u) :
    total μ ts s' + μ s t ≤ total μ ts s + μ s' t := by
  induction ts with
  | nil => simp at ht
  | cons a as ih =>
    rw [List.nodup_cons] at hnd
    rw [total_cons, total_cons]
    by_cases hat : a = t
    · subst hat
      have := total_frame μ as s s' a hnd.1 hf
      omega
    · have hta : t ∈ as := by
        rcases List.mem_cons.mp ht with h | h
        · exact absurd h.symm hat
        · exact h
      have := ih hnd.2 hta
      have := hf a hat
      omega

/-- hypotheses on the model, collected -/
structure Ranked (step : St → Tid → Ev → Option St) (Good : St → Prop) (isCall : Ev → Bool)
    (μ : St → Tid → Nat) (K : Nat) : Prop where
  good : ∀ s t e s', Good s → step s t e = some s' → Good s'
  dec : ∀ s t e s', Good s → step s t e = some s' → isCall e = false → μ s' t < μ s t
  call : ∀ s t e s', Good s → step s t e = some s' → isCall e = true → μ s' t ≤ μ s t + K
  frame : ∀ s t e s' u, Good s → step s t e = some s' → u ≠ t → μ s' u ≤ μ s u

def calls (isCall : Ev → Bool) (es : List (Tid × Ev)) : Nat := es.countP (fun x => isCall x.2)

/-- the length of every accepted trace is bounded by the initial total rank plus `K+1` per call -/
theorem bounded_run {step : St → Tid → Ev → Option St} {Good : St → Prop} {isCall : Ev → Bool}
    {μ : St → Tid → Nat} {K : Nat} (R : Ranked step Good isCall μ K)
    (ts : List Tid) (hnd : ts.Nodup) {s s' : St} {es : List (Tid × Ev)} (h0 : Good s)
    (hts : ∀ x ∈ es, x.1 ∈ ts) (hr : runFrom step s es = some s') :
    es.length + total μ ts s' ≤ total μ ts s + (K + 1) * calls isCall es := by
  induction es generalizing s with
  | nil => simp at hr; subst hr; simp [calls]
  | cons x xs ih =>
    obtain ⟨t, e⟩ := x
    rw [runFrom_cons] at hr
    cases h : step s t e with
    | none => simp [h] at hr
    | some s1 =>
      simp [h] at hr
      have hg1 := R.good s t e s1 h0 h
      have htm : t ∈ ts := hts (t, e) (by simp)
      have hrest := ih hg1 (fun y hy => hts y (List.mem_cons_of_mem _ hy)) hr
      have htot := total_step μ ts hnd s s1 t htm (fun u hu => R.frame s t e s1 u h0 h hu)
      cases hc : isCall e with
      | false =>
        have hd := R.dec s t e s1 h0 h hc
        have : calls isCall ((t, e) :: xs) = calls isCall xs := by simp [calls, hc]
        rw [this]
        simp only [List.length_cons]
        omega
      | true =>
        have hd := R.call s t e s1 h0 h hc
        have : calls isCall ((t, e) :: xs) = calls isCall xs + 1 := by simp [calls, hc]
        rw [this, Nat.mul_add]
        simp only [List.length_cons]
        omega

/-- an infinite execution: states `σ n`, the thread and event of the n-th step -/
structure Exec (step : St → Tid → Ev → Option St) where
  σ : Nat → St
  who : Nat → Tid
  ev : Nat → Ev
  ok : ∀ n, step (σ n) (who n) (ev n) = some (σ (n + 1))

/-- the trace of steps `n, n+1, …, n+k-1` of an execution -/
def Exec.seg {step : St → Tid → Ev → Option St} (x : Exec step) (n : Nat) : Nat → List (Tid × Ev)
  | 0 => []
  | k + 1 => (x.who n, x.ev n) :: x.seg (n + 1) k

theorem Exec.seg_run {step : St → Tid → Ev → Option St} (x : Exec step) (n k : Nat) :
    runFrom step (x.σ n) (x.seg n k) = some (x.σ (n + k)) := by
  induction k generalizing n with
  | zero => simp [Exec.seg]
  | succ k ih =>
    simp only [Exec.seg, runFrom_cons, x.ok n, Option.bind_some]
    rw [ih (n + 1)]
    congr 2
    omega

theorem Exec.seg_length {step : St → Tid → Ev → Option St} (x : Exec step) (n k : Nat) :
    (x.seg n k).length = k := by
  induction k generalizing n with
  | zero => rfl
  | succ k ih => simp [Exec.seg, ih]

theorem Exec.seg_mem {step : St → Tid → Ev → Option St} (x : Exec step) (n k : Nat) (y : Tid × Ev)
    (hy : y ∈ x.seg n k) : ∃ i, n ≤ i ∧ y = (x.who i, x.ev i) := by
  induction k generalizing n with
  | zero => simp [Exec.seg] at hy
  | succ k ih =>
    simp only [Exec.seg, List.mem_cons] at hy
    rcases hy with h | h
    · exact ⟨n, Nat.le_refl _, h⟩
    · obtain ⟨i, hi, hyi⟩ := ih (n + 1) h
      exact ⟨i, by omega, hyi⟩

/-- **No infinite execution with finitely many calls** — for EVERY scheduler (no fairness needed):
if from step `N` on no `call` event occurs, all stepping threads lie in the finite list `ts`
and the state at `N` is `Good`, the execution cannot go on forever. -/
theorem no_infinite_run {step : St → Tid → Ev → Option St} {Good : St → Prop} {isCall : Ev → Bool}
    {μ : St → Tid → Nat} {K : Nat} (R : Ranked step Good isCall μ K)
    (ts : List Tid) (hnd : ts.Nodup) (x : Exec step) (N : Nat) (hg : Good (x.σ N))
    (hts : ∀ n, N ≤ n → x.who n ∈ ts) (hnc : ∀ n, N ≤ n → isCall (x.ev n) = false) : False := by
  let L := total μ ts (x.σ N) + 1
  have hrun := x.seg_run N L
  have hmem : ∀ y ∈ x.seg N L, y.1 ∈ ts := by
    intro y hy
    obtain ⟨i, hi, rfl⟩ := x.seg_mem N L y hy
    exact hts i hi
  have hb := bounded_run R ts hnd hg hmem hrun
  have hc : calls isCall (x.seg N L) = 0 := by
    unfold calls
    rw [List.countP_eq_zero]
    intro y hy
    obtain ⟨i, hi, rfl⟩ := x.seg_mem N L y hy
    simp [hnc i hi]
  rw [hc, x.seg_length] at hb
  simp only [L] at hb
  omega

/-! ## Two-level (lexicographic) form

For components in which the remaining work of a thread is fixed only once it has taken the lock (a scan
over a map other threads may still enlarge): a first-level rank `α` (e.g. "has not taken the lock yet")
that no library step raises, and a second-level rank `μ` that strictly decreases whenever the stepping
thread's `α` stays the same.  When `α` of the stepping thread decreases, `μ` may change arbitrarily.  No
linear bound on the length exists in this setting, but there is still no infinite execution. -/

/-- no infinite sequence descends lexicographically in `Nat × Nat` -/
theorem no_lex_descent (a b : Nat → Nat)
    (h : ∀ n, a (n + 1) < a n ∨ (a (n + 1) ≤ a n ∧ b (n + 1) < b n)) : False := by
  have key : ∀ A B n, a n ≤ A → b n ≤ B → False := by
    intro A
    induction A with
    | zero =>
      intro B
      induction B with
      | zero => intro n ha hb; rcases h n with h1 | ⟨_, h2⟩ <;> omega
      | succ B ihB =>
        intro n ha hb
        rcases h n with h1 | ⟨h1, h2⟩
        · omega
        · exact ihB (n + 1) (by omega) (by omega)
    | succ A ihA =>
      intro B
      induction B with
      | zero =>
        intro n ha hb
        rcases h n with h1 | ⟨_, h2⟩
        · exact ihA (b (n + 1)) (n + 1) (by omega) (Nat.le_refl _)
        · omega
      | succ B ihB =>
        intro n ha hb
        rcases h n with h1 | ⟨h1, h2⟩
        · exact ihA (b (n + 1)) (n + 1) (by omega) (Nat.le_refl _)
        · exact ihB (n + 1) (by omega) (by omega)
  exact key (a 0) (b 0) 0 (Nat.le_refl _) (Nat.le_refl _)

structure RankedLex (step : St → Tid → Ev → Option St) (Good : St → Prop) (isEnv : Ev → Bool)
    (α μ : St → Tid → Nat) : Prop where
  good : ∀ s t e s', Good s → step s t e = some s' → isEnv e = false → Good s'
  dec : ∀ s t e s', Good s → step s t e = some s' → isEnv e = false →
    α s' t < α s t ∨ (α s' t = α s t ∧ μ s' t < μ s t ∧ ∀ u, u ≠ t → μ s' u ≤ μ s u)
  frame : ∀ s t e s' u, Good s → step s t e = some s' → isEnv e = false → u ≠ t → α s' u ≤ α s u

/-- **No infinite execution with finitely many environment events**, lexicographic form -/
theorem no_infinite_run_lex {step : St → Tid → Ev → Option St} {Good : St → Prop} {isEnv : Ev → Bool}
    {α μ : St → Tid → Nat} (R : RankedLex step Good isEnv α μ)
    (ts : List Tid) (hnd : ts.Nodup) (x : Exec step) (N : Nat) (hg : Good (x.σ N))
    (hts : ∀ n, N ≤ n → x.who n ∈ ts) (hnc : ∀ n, N ≤ n → isEnv (x.ev n) = false) : False := by
  have hgood : ∀ k, Good (x.σ (N + k)) := by
    intro k
    induction k with
    | zero => exact hg
    | succ k ih => exact R.good _ _ _ _ ih (x.ok (N + k)) (hnc _ (by omega))
  apply no_lex_descent (fun k => total α ts (x.σ (N + k))) (fun k => total μ ts (x.σ (N + k)))
  intro k
  have hstep := x.ok (N + k)
  have hne := hnc (N + k) (by omega)
  have hmem := hts (N + k) (by omega)
  have hA := total_step α ts hnd _ _ _ hmem (fun u hu => R.frame _ _ _ _ u (hgood k) hstep hne hu)
  show total α ts (x.σ (N + (k + 1))) < _ ∨ (total α ts (x.σ (N + (k + 1))) ≤ _ ∧ total μ ts (x.σ (N + (k + 1))) < _)
  rw [show N + (k + 1) = N + k + 1 by omega]
  rcases R.dec _ _ _ _ (hgood k) hstep hne with h1 | ⟨h1, h2, h3⟩
  · left; omega
  · right
    have hM := total_step μ ts hnd _ _ _ hmem h3
    constructor <;> omega

/-! ## Form with a shared potential

For components in which work is handed over through a shared container (an element pushed by one thread is
processed later by another): a global potential `G` (e.g. a constant times the size of the container) plus
the per-thread ranks.  Every library step of `t` strictly lowers `G + μ · t` and does not raise the rank of
another thread. -/

structure RankedG (step : St → Tid → Ev → Option St) (Good : St → Prop) (isEnv : Ev → Bool)
    (G : St → Nat) (μ : St → Tid → Nat) : Prop where
  good : ∀ s t e s', Good s → step s t e = some s' → isEnv e = false → Good s'
  dec : ∀ s t e s', Good s → step s t e = some s' → isEnv e = false → G s' + μ s' t < G s + μ s t
  frame : ∀ s t e s' u, Good s → step s t e = some s' → isEnv e = false → u ≠ t → μ s' u ≤ μ s u

/-- **No infinite execution with finitely many environment events**, shared-potential form -/
theorem no_infinite_runG {step : St → Tid → Ev → Option St} {Good : St → Prop} {isEnv : Ev → Bool}
    {G : St → Nat} {μ : St → Tid → Nat} (R : RankedG step Good isEnv G μ)
    (ts : List Tid) (hnd : ts.Nodup) (x : Exec step) (N : Nat) (hg : Good (x.σ N))
    (hts : ∀ n, N ≤ n → x.who n ∈ ts) (hnc : ∀ n, N ≤ n → isEnv (x.ev n) = false) : False := by
  have hgood : ∀ k, Good (x.σ (N + k)) := by
    intro k
    induction k with
    | zero => exact hg
    | succ k ih => exact R.good _ _ _ _ ih (x.ok (N + k)) (hnc _ (by omega))
  apply no_lex_descent (fun k => G (x.σ (N + k)) + total μ ts (x.σ (N + k))) (fun _ => 0)
  intro k
  left
  have hstep := x.ok (N + k)
  have hne := hnc (N + k) (by omega)
  have hmem := hts (N + k) (by omega)
  have hT := total_step μ ts hnd _ _ _ hmem (fun u hu => R.frame _ _ _ _ u (hgood k) hstep hne hu)
  have hd := R.dec _ _ _ _ (hgood k) hstep hne
  show G (x.σ (N + (k + 1))) + total μ ts (x.σ (N + (k + 1))) < _
  rw [show N + (k + 1) = N + k + 1 by omega]
  omega

/-! ## Relational form

For components whose model lets a thread repeat idle steps at will (a spin loop whose exit depends on other
threads, redundant loads of a weakest-discipline model): the steps that must lower the rank are described by a
relation `Lib s t e s'` (e.g. "not an environment event and the thread's pc changes"); nothing is required of
the other steps.  An execution all of whose steps from some point on are `Lib` steps cannot be infinite. -/

structure RankedRel (step : St → Tid → Ev → Option St) (Good : St → Prop)
    (Lib : St → Tid → Ev → St → Prop) (μ : St → Tid → Nat) : Prop where
  good : ∀ s t e s', Good s → step s t e = some s' → Lib s t e s' → Good s'
  dec : ∀ s t e s', Good s → step s t e = some s' → Lib s t e s' → μ s' t < μ s t
  frame : ∀ s t e s' u, Good s → step s t e = some s' → Lib s t e s' → u ≠ t → μ s' u ≤ μ s u

theorem no_infinite_run_rel {step : St → Tid → Ev → Option St} {Good : St → Prop}
    {Lib : St → Tid → Ev → St → Prop} {μ : St → Tid → Nat} (R : RankedRel step Good Lib μ)
    (ts : List Tid) (hnd : ts.Nodup) (x : Exec step) (N : Nat) (hg : Good (x.σ N))
    (hts : ∀ n, N ≤ n → x.who n ∈ ts)
    (hlib : ∀ n, N ≤ n → Lib (x.σ n) (x.who n) (x.ev n) (x.σ (n + 1))) : False := by
  have hgood : ∀ k, Good (x.σ (N + k)) := by
    intro k
    induction k with
    | zero => exact hg
    | succ k ih => exact R.good _ _ _ _ ih (x.ok (N + k)) (hlib _ (by omega))
  apply no_lex_descent (fun k => total μ ts (x.σ (N + k))) (fun _ => 0)
  intro k
  left
  have hstep := x.ok (N + k)
  have hl := hlib (N + k) (by omega)
  have hmem := hts (N + k) (by omega)
  have hT := total_step μ ts hnd _ _ _ hmem (fun u hu => R.frame _ _ _ _ u (hgood k) hstep hl hu)
  have hd := R.dec _ _ _ _ (hgood k) hstep hl
  show total μ ts (x.σ (N + (k + 1))) < _
  rw [show N + (k + 1) = N + k + 1 by omega]
  omega

end ConcVerif.Live
