import ConcVerif.Base.TS
/-! # Happens-before and data races (C07) — definitions and the executable checker

Generic over every client: a trace is a list of `(thread, event)` pairs in the order the
(sequentially consistent) harness executed them.  Events are the synchronisation-relevant primitives
only; the memory order of an atomic operation is the one WRITTEN IN THE SOURCE (the harness prints
it), so a weakened order removes the corresponding edge even though the harness itself runs an
interleaving.

Memory-model abstraction (trusted base of C07; operational, RC11-style without load buffering):
* the trace order is the modification order of every atomic location and every load / RMW reads the
  LATEST write of its location in trace order;
* synchronises-with edges:
  - mutex: an unlock synchronises with every later lock of the same mutex, except
    `unlock_shared → lock_shared` (C++17 [thread.sharedmutex.requirements]);
    a condition-variable wait is an unlock followed by a lock;
  - atomics (C++20 release sequences): a store/RMW `W` with a releasing order (`rel ar sc`)
    synchronises with a later load/RMW `R` with an acquiring order (`acq ar sc`) of the same
    location when every write to the location strictly between `W` and `R` is an RMW (so `R` reads
    from `W` or from an RMW continuing `W`'s release sequence; a plain store ends every release
    sequence).  `seq_cst` is treated as acquire + release at a single point; `consume` gives no edge
    (conservative);
  - thread creation → first event of the child, last event of a thread → join, creation → join;
* happens-before `HB` = transitive closure of program order ∪ synchronises-with;
* a `Race` is a pair of conflicting plain accesses (same location, at least one a write) that is
  not ordered by `HB`.

`raceFree` is the executable vector-clock checker (FastTrack style: per location the last-write epoch
and a read clock) that `Driver/HB.lean` runs on every observed trace.  Its soundness with respect to
the declarative definition, the lockset theorem and the publication theorem are in `Proof/HB*.lean`
and stated in `Props/C07.lean`.  Core Lean only. -/
namespace ConcVerif.HB

inductive Ord | rlx | con | acq | rel | ar | sc
  deriving DecidableEq, Repr

def Ord.isAcq : Ord → Bool
  | .acq | .ar | .sc => true
  | _ => false

def Ord.isRel : Ord → Bool
  | .rel | .ar | .sc => true
  | _ => false

/-- mutex mode: exclusive / shared -/
inductive Mode | X | S
  deriving DecidableEq, Repr

/-- mutexes, atomic locations and plain locations are numbered (the driver interns their names) -/
abbrev Loc := Nat

inductive Ev
  | acq (m : Loc) (md : Mode)     -- lock / successful try-lock / wake-up from a cv wait
  | rel (m : Loc) (md : Mode)     -- unlock / entry into a cv wait
  | ld (a : Loc) (o : Ord)        -- atomic load (also a failed CAS); reads the latest write
  | st (a : Loc) (o : Ord)        -- atomic store
  | rmw (a : Loc) (o : Ord)       -- successful read-modify-write (fetch_add, exchange, CAS)
  | rd (x : Loc)                  -- plain read
  | wr (x : Loc)                  -- plain write
  | fork (u : Tid)                -- thread creation
  | join (u : Tid)                -- thread join
  | nop                           -- any other event of the thread (markers, notify, failed try-lock, yield)
  deriving DecidableEq, Repr

abbrev Trace := List (Tid × Ev)

/-! ## Declarative side -/

/-- `e` is a releasing write of atomic `a` -/
def RelWrite (e : Ev) (a : Loc) : Prop := ∃ o, o.isRel = true ∧ (e = .st a o ∨ e = .rmw a o)

/-- `e` is an acquiring read of atomic `a` -/
def AcqRead (e : Ev) (a : Loc) : Prop := ∃ o, o.isAcq = true ∧ (e = .ld a o ∨ e = .rmw a o)

/-- synchronises-with, between positions of the trace -/
inductive Sw (tr : Trace) : Nat → Nat → Prop
  | mutex {i j : Nat} {t u : Tid} {m : Loc} {md md' : Mode} :
      i < j → tr[i]? = some (t, .rel m md) → tr[j]? = some (u, .acq m md') → (md = .X ∨ md' = .X) → Sw tr i j
  | atomic {i j : Nat} {t u : Tid} {a : Loc} {ei ej : Ev} :
      i < j → tr[i]? = some (t, ei) → tr[j]? = some (u, ej) → RelWrite ei a → AcqRead ej a →
      (∀ k v o, i < k → k < j → tr[k]? ≠ some (v, .st a o)) → Sw tr i j
  | fork {i j : Nat} {t u : Tid} {e : Ev} :
      i < j → tr[i]? = some (t, .fork u) → tr[j]? = some (u, e) → Sw tr i j
  | join {i j : Nat} {t u : Tid} {e : Ev} :
      i < j → tr[i]? = some (u, e) → tr[j]? = some (t, .join u) → Sw tr i j
  | forkJoin {i j : Nat} {t w u : Tid} :
      i < j → tr[i]? = some (w, .fork u) → tr[j]? = some (t, .join u) → Sw tr i j

/-- happens-before between positions of the trace -/
inductive HB (tr : Trace) : Nat → Nat → Prop
  | po {i j : Nat} {t : Tid} {e e' : Ev} : i < j → tr[i]? = some (t, e) → tr[j]? = some (t, e') → HB tr i j
  | sw {i j : Nat} : Sw tr i j → HB tr i j
  | trans {i j k : Nat} : HB tr i j → HB tr j k → HB tr i k

/-- plain access to `x` -/
def Ev.accesses (e : Ev) (x : Loc) : Prop := e = .rd x ∨ e = .wr x

/-- positions `i`, `j` hold conflicting plain accesses to `x` (at least one of them a write) -/
def ConflictOn (tr : Trace) (x : Loc) (i j : Nat) : Prop :=
  ∃ t u ei ej, tr[i]? = some (t, ei) ∧ tr[j]? = some (u, ej) ∧ ei.accesses x ∧ ej.accesses x ∧
    (ei = .wr x ∨ ej = .wr x)

def Conflict (tr : Trace) (i j : Nat) : Prop := ∃ x, ConflictOn tr x i j

/-- a data race: two conflicting plain accesses not ordered by happens-before -/
def Race (tr : Trace) : Prop := ∃ i j, i < j ∧ Conflict tr i j ∧ ¬ HB tr i j

/-- number of events of thread `t` -/
def cnt (tr : Trace) (t : Tid) : Nat := tr.countP (fun p => p.1 == t)

/-- local time of position `i` (of thread `u`): its rank among the events of `u` -/
def lt (tr : Trace) (i : Nat) (u : Tid) : Nat := cnt (tr.take (i + 1)) u

/-! ## Mutex discipline (hypotheses of the lockset theorem) -/

/-- what each thread holds on each mutex after a trace (last acquire / release wins) -/
def hstep (h : Tid → Loc → Option Mode) (p : Tid × Ev) : Tid → Loc → Option Mode :=
  match p.2 with
  | .acq m md => fun u l => if u = p.1 ∧ l = m then some md else h u l
  | .rel m _ => fun u l => if u = p.1 ∧ l = m then none else h u l
  | _ => h

def held (tr : Trace) : Tid → Loc → Option Mode := tr.foldl hstep (fun _ _ => none)

/-- a hold by another thread that does not exclude an acquisition in mode `md` -/
def compat : Option Mode → Mode → Bool
  | none, _ => true
  | some .S, .S => true
  | _, _ => false

/-- position `n` respects the mutex semantics: an acquisition happens only when the thread holds
nothing on that mutex and every other thread's hold is compatible; a release releases what is held -/
def okAt (tr : Trace) (n : Nat) : Prop :=
  match tr[n]? with
  | some (t, .acq m md) =>
      held (tr.take n) t m = none ∧ ∀ p ∈ tr.take n, p.1 ≠ t → compat (held (tr.take n) p.1 m) md = true
  | some (t, .rel m md) => held (tr.take n) t m = some md
  | _ => True

/-- the trace is consistent with the semantics of (shared) mutexes -/
def MutexOK (tr : Trace) : Prop := ∀ n, n < tr.length → okAt tr n

/-- every plain access to `x` is made while the accessing thread holds mutex `m`: in any mode for a
read, exclusively for a write -/
def lockedAt (tr : Trace) (x m : Loc) (n : Nat) : Prop :=
  match tr[n]? with
  | some (t, .rd y) => y = x → held (tr.take n) t m ≠ none
  | some (t, .wr y) => y = x → held (tr.take n) t m = some .X
  | _ => True

def LockSet (tr : Trace) (x m : Loc) : Prop := ∀ n, n < tr.length → lockedAt tr x m n

instance (tr : Trace) (n : Nat) : Decidable (okAt tr n) := by
  unfold okAt; split <;> infer_instance

instance (tr : Trace) : Decidable (MutexOK tr) := by unfold MutexOK; infer_instance

instance (tr : Trace) (x m : Loc) (n : Nat) : Decidable (lockedAt tr x m n) := by
  unfold lockedAt; split <;> infer_instance

instance (tr : Trace) (x m : Loc) : Decidable (LockSet tr x m) := by unfold LockSet; infer_instance

/-! ## Executable side: vector clocks -/

/-- finite maps `Nat → α` with default `d`, as lists -/
def lget {α : Type} (d : α) : List α → Nat → α
  | [], _ => d
  | x :: _, 0 => x
  | _ :: l, i + 1 => lget d l i

def lset {α : Type} (d : α) : List α → Nat → α → List α
  | [], 0, a => [a]
  | [], i + 1, a => d :: lset d [] i a
  | _ :: l, 0, a => a :: l
  | x :: l, i + 1, a => x :: lset d l i a

/-- vector clock: entry `u` = local time of the latest event of `u` known to happen before -/
abbrev VC := List Nat

def vget (v : VC) (u : Tid) : Nat := lget 0 v u
def vset (v : VC) (u : Tid) (n : Nat) : VC := lset 0 v u n

def vjoin : VC → VC → VC
  | [], b => b
  | a, [] => a
  | x :: a, y :: b => max x y :: vjoin a b

/-- pointwise `≤` -/
def vle : VC → VC → Bool
  | [], _ => true
  | x :: a, [] => x == 0 && vle a []
  | x :: a, y :: b => decide (x ≤ y) && vle a b

/-- synchronisation clocks: per thread, per mutex (exclusive releases / shared releases), per atomic
location (release-sequence clock) -/
structure Clk where
  C : List VC := []
  LX : List VC := []
  LS : List VC := []
  R : List VC := []
  deriving Repr

def Clk.c (k : Clk) (t : Tid) : VC := lget [] k.C t
def Clk.lx (k : Clk) (m : Loc) : VC := lget [] k.LX m
def Clk.ls (k : Clk) (m : Loc) : VC := lget [] k.LS m
def Clk.r (k : Clk) (a : Loc) : VC := lget [] k.R a

def Clk.setC (k : Clk) (t : Tid) (v : VC) : Clk := { k with C := lset [] k.C t v }
def Clk.setLX (k : Clk) (m : Loc) (v : VC) : Clk := { k with LX := lset [] k.LX m v }
def Clk.setLS (k : Clk) (m : Loc) (v : VC) : Clk := { k with LS := lset [] k.LS m v }
def Clk.setR (k : Clk) (a : Loc) (v : VC) : Clk := { k with R := lset [] k.R a v }

/-- the clock of `t` with its own entry advanced: every event gets a fresh local time -/
def tick (k : Clk) (t : Tid) : VC := vset (k.c t) t (vget (k.c t) t + 1)

/-- clock of the thread after an acquiring access to `a` with order `o` -/
def acqClock (k : Clk) (c : VC) (a : Loc) (o : Ord) : VC := if o.isAcq then vjoin c (k.r a) else c

/-- effect of one event on the synchronisation clocks (total) -/
def vstep (k : Clk) (t : Tid) (e : Ev) : Clk :=
  let c := tick k t
  match e with
  | .acq m .X => k.setC t (vjoin c (vjoin (k.lx m) (k.ls m)))
  | .acq m .S => k.setC t (vjoin c (k.lx m))
  | .rel m .X => (k.setC t c).setLX m (vjoin (k.lx m) c)
  | .rel m .S => (k.setC t c).setLS m (vjoin (k.ls m) c)
  | .ld a o => k.setC t (acqClock k c a o)
  | .st a o => (k.setC t c).setR a (if o.isRel then c else [])
  | .rmw a o =>
      let c' := acqClock k c a o
      (k.setC t c').setR a (if o.isRel then vjoin (k.r a) c' else k.r a)
  | .fork u => (k.setC t c).setC u (vjoin ((k.setC t c).c u) c)
  | .join u => k.setC t (vjoin c (k.c u))
  | .rd _ | .wr _ | .nop => k.setC t c

def vrun (k : Clk) (tr : Trace) : Clk := tr.foldl (fun k p => vstep k p.1 p.2) k

/-- per plain location: epoch of the last write, and the read clock (local time of each thread's
last read) -/
structure Acc where
  w : Option (Tid × Nat) := none
  r : VC := []
  deriving Repr

structure St where
  clk : Clk := {}
  acc : List Acc := []
  deriving Repr

def St.a (s : St) (x : Loc) : Acc := lget {} s.acc x

/-- the last write (if any) is known to the clock `c` -/
def wOK : Option (Tid × Nat) → VC → Bool
  | none, _ => true
  | some (u, n), c => decide (n ≤ vget c u)

/-- one step of the race checker: `none` = the event is a plain access that races with an earlier
conflicting access -/
def step (s : St) (t : Tid) (e : Ev) : Option St :=
  let k := vstep s.clk t e
  let c := k.c t
  match e with
  | .rd x =>
      let a := s.a x
      if wOK a.w c then some { clk := k, acc := lset {} s.acc x { a with r := vset a.r t (vget c t) } } else none
  | .wr x =>
      let a := s.a x
      if wOK a.w c && vle a.r c then some { clk := k, acc := lset {} s.acc x { w := some (t, vget c t), r := a.r } }
      else none
  | _ => some { clk := k, acc := s.acc }

def run (tr : Trace) : Option St := runFrom step {} tr

/-- the executable race checker -/
def raceFree (tr : Trace) : Bool := (run tr).isSome

end ConcVerif.HB
