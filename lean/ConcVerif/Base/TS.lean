/-! Generic transition-system scaffolding shared by every component model.

A model is an executable `step : St → Tid → Ev → Option St` (`none` = the model does not
allow this event here).  `runFrom` folds a trace; invariants proved for one step lift to every
accepted trace by `runFrom_inv`. -/
namespace ConcVerif

abbrev Tid := Nat

/-- fold `step` over a trace of (thread, event) pairs -/
def runFrom {St Ev : Type} (step : St → Tid → Ev → Option St) (s : St) : List (Tid × Ev) → Option St
  | [] => some s
  | (t, e) :: es => (step s t e).bind (fun s' => runFrom step s' es)

@[simp] theorem runFrom_nil {St Ev : Type} (step : St → Tid → Ev → Option St) (s : St) :
    runFrom step s [] = some s := rfl

theorem runFrom_cons {St Ev : Type} (step : St → Tid → Ev → Option St) (s : St) (t : Tid) (e : Ev)
    (es : List (Tid × Ev)) :
    runFrom step s ((t, e) :: es) = (step s t e).bind (fun s' => runFrom step s' es) := rfl

theorem runFrom_append {St Ev : Type} (step : St → Tid → Ev → Option St) (s : St)
    (es fs : List (Tid × Ev)) :
    runFrom step s (es ++ fs) = (runFrom step s es).bind (fun s' => runFrom step s' fs) := by
  induction es generalizing s with
  | nil => simp
  | cons x xs ih =>
    obtain ⟨t, e⟩ := x
    simp only [List.cons_append, runFrom_cons]
    cases h : step s t e with
    | none => simp
    | some s1 => simp [ih]

/-- a one-step invariant holds after every accepted trace -/
theorem runFrom_inv {St Ev : Type} {step : St → Tid → Ev → Option St} {Inv : St → Prop}
    (hstep : ∀ s t e s', Inv s → step s t e = some s' → Inv s')
    {s s' : St} {es : List (Tid × Ev)} (h0 : Inv s) (hr : runFrom step s es = some s') : Inv s' := by
  induction es generalizing s with
  | nil => simp at hr; subst hr; exact h0
  | cons x xs ih =>
    obtain ⟨t, e⟩ := x
    rw [runFrom_cons] at hr
    cases h : step s t e with
    | none => simp [h] at hr
    | some s1 =>
      simp [h] at hr
      exact ih (hstep s t e s1 h0 h) hr

/-- a relation between consecutive states that is reflexive and transitive and preserved by each
step holds between the start and the end of every accepted trace (monotonicity lemmas) -/
theorem runFrom_rel {St Ev : Type} {step : St → Tid → Ev → Option St} {R : St → St → Prop}
    (hrefl : ∀ s, R s s) (htrans : ∀ a b c, R a b → R b c → R a c)
    (hstep : ∀ s t e s', step s t e = some s' → R s s')
    {s s' : St} {es : List (Tid × Ev)} (hr : runFrom step s es = some s') : R s s' := by
  induction es generalizing s with
  | nil => simp at hr; subst hr; exact hrefl s
  | cons x xs ih =>
    obtain ⟨t, e⟩ := x
    rw [runFrom_cons] at hr
    cases h : step s t e with
    | none => simp [h] at hr
    | some s1 =>
      simp [h] at hr
      exact htrans _ _ _ (hstep s t e s1 h) (ih hr)

/-- update of a per-thread map -/
def upd {α : Type} (f : Tid → α) (t : Tid) (a : α) : Tid → α := fun u => if u = t then a else f u

@[simp] theorem upd_same {α : Type} (f : Tid → α) (t : Tid) (a : α) : upd f t a t = a := by simp [upd]
@[simp] theorem upd_other {α : Type} (f : Tid → α) (t u : Tid) (a : α) (h : u ≠ t) : upd f t a u = f u := by
  simp [upd, h]
theorem upd_apply {α : Type} (f : Tid → α) (t u : Tid) (a : α) : upd f t a u = if u = t then a else f u := rfl

end ConcVerif
