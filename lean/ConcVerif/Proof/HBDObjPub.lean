import ConcVerif.Proof.HBDObj
/-! Publication of a value through a promise of `DelayedObjects`: which `set_value` event (`pset`) satisfies
which promise, and the happens-before edge from it to the consumer's `got`.

The model's `pset v` does not name its promise.  The critical section that performs it logged its
`set_value` calls in the ghost `St.sets` when it took the lock (all of one critical section carry the same
value: `apply_same_value`), and must perform exactly that many before its unlock; critical sections do not
overlap.  So the `j`-th `pset` event of a trace is matched with the `j`-th entry of the log (`PInv`): the
entry belongs to the critical section the event lies in and has the event's value.  Within one critical
section (several promises satisfied by `fulfillAllPromises` / the destructor) the matching is the order of
the log; any other matching differs only by a permutation of adjacent events of one thread inside one
critical section. -/
namespace ConcVerif.DObj

/-- induction over accepted traces, one transition at a time -/
theorem run_induction {P : List (Tid × Ev) → St → Prop} (h0 : P [] init)
    (hs : ∀ es s t e s', run es = some s → P es s → Tr s t e s' → P (es ++ [(t, e)]) s')
    {es : List (Tid × Ev)} {s : St} (h : run es = some s) : P es s := by
  induction es using HB.snoc_induction generalizing s with
  | h0 => simp [run] at h; subst h; exact h0
  | hs es x ih =>
    obtain ⟨t, e⟩ := x
    simp only [run, runFrom_append] at h
    cases h1 : runFrom step init es with
    | none => simp [h1] at h
    | some s1 =>
      simp only [h1, Option.bind_some, runFrom_cons, runFrom_nil] at h
      cases h2 : step s1 t e with
      | none => simp [h2] at h
      | some s2 =>
        simp [h2] at h; subst h
        exact hs es s1 t e s2 h1 (ih h1) (step_tr h2)

/-- all `set_value` calls of one method carry the same value -/
theorem apply_same_value {σ σ' : Seq} {o : Op} {r : Res} {l : List (Id × Val)} (h : σ.apply o = some (σ', r, l)) :
    ∃ v, ∀ e ∈ l, e.2 = v := by
  obtain ⟨_, h⟩ := apply_eq h
  cases o with
  | get k q =>
    obtain ⟨_, hx⟩ := app_get h
    simp only [Prod.mk.injEq] at hx; obtain ⟨_, _, hl⟩ := hx; subst hl; exact ⟨0, by simp⟩
  | set k v mv =>
    rcases app_set h with ⟨_, hx⟩ | ⟨p, _, _, hx⟩
    · simp only [Prod.mk.injEq] at hx; obtain ⟨_, _, hl⟩ := hx; subst hl; exact ⟨0, by simp⟩
    · simp only [Prod.mk.injEq] at hx; obtain ⟨_, _, hl⟩ := hx; subst hl; exact ⟨v, by simp⟩
  | ful v =>
    obtain ⟨_, hx⟩ := app_ful h
    simp only [Prod.mk.injEq] at hx; obtain ⟨_, _, hl⟩ := hx; subst hl
    exact ⟨v, by intro e he; simp at he; obtain ⟨_, _, _, he⟩ := he; rw [← he]⟩
  | dtor =>
    obtain ⟨_, hx⟩ := app_dtor h
    simp only [Prod.mk.injEq] at hx; obtain ⟨_, _, hl⟩ := hx; subst hl
    exact ⟨0, by intro e he; simp at he; obtain ⟨_, _, _, he⟩ := he; rw [← he]⟩
  | isRec k =>
    rw [app_isRec] at h; injection h with h
    simp only [Prod.mk.injEq] at h; obtain ⟨_, _, hl⟩ := h; subst hl; exact ⟨0, by simp⟩
  | isComp k =>
    rw [app_isComp] at h; injection h with h
    simp only [Prod.mk.injEq] at h; obtain ⟨_, _, hl⟩ := h; subst hl; exact ⟨0, by simp⟩
  | fin k =>
    rw [app_fin] at h; injection h with h
    simp only [Prod.mk.injEq] at h; obtain ⟨_, _, hl⟩ := h; subst hl; exact ⟨0, by simp⟩

theorem drop_succ_of_cons {α : Type} {l : List α} {n : Nat} {e : α} {r : List α} (h : l.drop n = e :: r) :
    l.drop (n + 1) = r := by
  induction l generalizing n with
  | nil => simp at h
  | cons a l ih =>
    cases n with
    | zero => simp at h; simp [h.2]
    | succ n => simp only [List.drop_succ_cons] at h ⊢; exact ih h

theorem psetCount_not (es : List (Tid × Ev)) (t : Tid) {e : Ev} (he : e.isPset = false) :
    psetCount (es ++ [(t, e)]) = psetCount es := by
  rw [psetCount_snoc]; simp [he]

/-- the `set_value` events performed so far are matched with a prefix of the log; the rest of the log is what
the lock holder still has to perform -/
structure PInv (es : List (Tid × Ev)) (s : St) : Prop where
  le : psetCount es ≤ s.sets.length
  todo : ∀ t o r td, s.pc t = .locked o r td →
    (s.sets.drop (psetCount es)).map Prod.snd = td ∧ ∃ v, ∀ x ∈ td, x = v
  free : s.lock = none → psetCount es = s.sets.length

theorem pinv_call {es : List (Tid × Ev)} {s : St} {t : Tid} (h : PInv es s) (o : Op) :
    PInv (es ++ [(t, .call o)])
      ({ s with next := nextAfter s.next o, active := t :: s.active,
                closer := if o = Op.dtor then some t else s.closer }.setPc t (.called o)) := by
  refine ⟨by rw [psetCount_not _ _ rfl]; exact h.le, ?_, by rw [psetCount_not _ _ rfl]; exact h.free⟩
  intro u o' r' td hp
  rw [psetCount_not _ _ rfl]
  simp only [setPc_pc, upd_apply] at hp
  by_cases hu : u = t
  · simp [hu] at hp
  · simp only [hu, if_false] at hp; exact h.todo u o' r' td hp

theorem pinv_mlk {es : List (Tid × Ev)} {s : St} {t : Tid} (h : PInv es s) (hi : Inv s) (o : Op) (σ : Seq) (r : Res)
    (l : List (Id × Val)) (hl : s.lock = none) (ha : s.seq.apply o = some (σ, r, l)) :
    PInv (es ++ [(t, .mlk)])
      ({ s with seq := σ, lock := some t, hist := s.hist ++ [HEntry.mk t o r], sets := s.sets ++ l }.setPc t
        (.locked o r (l.map Prod.snd))) := by
  have hf := h.free hl
  refine ⟨?_, ?_, ?_⟩
  · rw [psetCount_not _ _ rfl]; simp only [setPc_sets, List.length_append]; omega
  · intro u o' r' td hp
    rw [psetCount_not _ _ rfl]
    simp only [setPc_pc, upd_apply] at hp
    by_cases hu : u = t
    · simp only [hu, if_true] at hp
      injection hp with _ _ h3; subst h3
      simp only [setPc_sets, hf, List.drop_left']
      refine ⟨by simp, ?_⟩
      obtain ⟨v, hv⟩ := apply_same_value ha
      exact ⟨v, by intro x hx; obtain ⟨e, he, hxe⟩ := List.mem_map.1 hx; rw [← hxe]; exact hv e he⟩
    · simp only [hu, if_false] at hp
      have := (hi.lockPc u).2 ⟨o', r', td, hp⟩
      rw [hl] at this; cases this
  · intro hh; cases hh

theorem pinv_pset {es : List (Tid × Ev)} {s : St} {t : Tid} (h : PInv es s) (hi : Inv s) (o : Op) (r : Res)
    (todo : List Val) (v : Val) (hpc : s.pc t = .locked o r todo) (hv : v ∈ todo) :
    PInv (es ++ [(t, .pset v)]) (s.setPc t (.locked o r (todo.erase v))) := by
  obtain ⟨hd, v0, hall⟩ := h.todo t o r todo hpc
  have hcnt : psetCount (es ++ [(t, Ev.pset v)]) = psetCount es + 1 := by rw [psetCount_snoc]; rfl
  cases hdr : s.sets.drop (psetCount es) with
  | nil => rw [hdr] at hd; simp at hd; subst hd; cases hv
  | cons e rest =>
    rw [hdr] at hd
    have hlt : psetCount es < s.sets.length := by
      apply Classical.byContradiction
      intro hn
      rw [List.drop_eq_nil_iff.2 (by omega)] at hdr; cases hdr
    have he : e.2 = v := by
      rw [hall v hv]; apply hall; rw [← hd]; simp
    refine ⟨by rw [hcnt]; simp only [setPc_sets]; omega, ?_, ?_⟩
    · intro u o' r' td hp
      simp only [setPc_pc, upd_apply] at hp
      by_cases hu : u = t
      · simp only [hu, if_true] at hp
        injection hp with _ _ h3; subst h3
        rw [hcnt, setPc_sets, drop_succ_of_cons hdr]
        refine ⟨?_, v0, fun x hx => hall x (List.mem_of_mem_erase hx)⟩
        rw [← hd, List.map_cons, he, List.erase_cons_head]
      · simp only [hu, if_false] at hp
        have h1 := (hi.lockPc u).2 ⟨o', r', td, hp⟩
        have h2 := (hi.lockPc t).2 ⟨o, r, todo, hpc⟩
        rw [h1] at h2; injection h2 with h2; exact absurd h2 hu
    · intro hh
      have h2 := (hi.lockPc t).2 ⟨o, r, todo, hpc⟩
      simp only [setPc_lock] at hh; rw [hh] at h2; cases h2

theorem pinv_mul {es : List (Tid × Ev)} {s : St} {t : Tid} (h : PInv es s) (hi : Inv s) (o : Op) (r : Res)
    (hpc : s.pc t = .locked o r []) (hl : s.lock = some t) :
    PInv (es ++ [(t, .mul)]) ({ s with lock := none }.setPc t (.unlocked o r)) := by
  obtain ⟨hd, _⟩ := h.todo t o r [] hpc
  have hlen : s.sets.length ≤ psetCount es := by
    have : s.sets.drop (psetCount es) = [] := by simpa using hd
    exact List.drop_eq_nil_iff.1 this
  have hle := h.le
  refine ⟨by rw [psetCount_not _ _ rfl]; exact h.le, ?_, ?_⟩
  · intro u o' r' td hp
    simp only [setPc_pc, upd_apply] at hp
    by_cases hu : u = t
    · simp [hu] at hp
    · simp only [hu, if_false] at hp
      have h1 := (hi.lockPc u).2 ⟨o', r', td, hp⟩
      rw [hl] at h1; injection h1 with h1; exact absurd h1.symm hu
  · intro _; rw [psetCount_not _ _ rfl]; simp only [setPc_sets]; omega

theorem pinv_ret {es : List (Tid × Ev)} {s : St} {t : Tid} (h : PInv es s) (o : Op) (r : Res) :
    PInv (es ++ [(t, .ret o r)]) ({ s with active := s.active.erase t }.setPc t .idle) := by
  refine ⟨by rw [psetCount_not _ _ rfl]; exact h.le, ?_, by rw [psetCount_not _ _ rfl]; exact h.free⟩
  intro u o' r' td hp
  rw [psetCount_not _ _ rfl]
  simp only [setPc_pc, upd_apply] at hp
  by_cases hu : u = t
  · simp [hu] at hp
  · simp only [hu, if_false] at hp; exact h.todo u o' r' td hp

theorem pinv_same {es : List (Tid × Ev)} {s : St} (h : PInv es s) (t : Tid) {e : Ev} (he : e.isPset = false) :
    PInv (es ++ [(t, e)]) s :=
  ⟨by rw [psetCount_not _ _ he]; exact h.le, by rw [psetCount_not _ _ he]; exact h.todo,
   by rw [psetCount_not _ _ he]; exact h.free⟩

theorem pinv_run {es : List (Tid × Ev)} {s : St} (h : run es = some s) : PInv es s := by
  refine run_induction (P := PInv) ⟨by simp [psetCount, init], ?_, by simp [psetCount, init]⟩ ?_ h
  · intro t o r td hp; simp [init] at hp
  · intro es s t e s' hr hp htr
    have hi : Inv s := inv_reachable ⟨es, hr⟩
    cases htr with
    | call o hpc hc hok => exact pinv_call hp o
    | mlk o σ r l hpc hl ha => exact pinv_mlk hp hi o σ r l hl ha
    | pset o r todo v hpc hv => exact pinv_pset hp hi o r todo v hpc hv
    | accL o r todo hpc => exact pinv_same hp t rfl
    | mul o r hpc hl => exact pinv_mul hp hi o r hpc hl
    | accD r hpc => exact pinv_same hp t rfl
    | ret o r hpc => exact pinv_ret hp o r
    | got p x hpc hx hpp => exact pinv_same hp t rfl

end ConcVerif.DObj

/-! ### positions of the `set_value` events, the log is append-only -/
namespace ConcVerif.DObj

theorem run_split {es : List (Tid × Ev)} {s : St} (h : run es = some s) (n : Nat) :
    ∃ s1, run (es.take n) = some s1 ∧ runFrom step s1 (es.drop n) = some s := by
  have h' : runFrom step init (es.take n ++ es.drop n) = some s := by rw [List.take_append_drop]; exact h
  rw [runFrom_append] at h'
  cases h1 : runFrom step init (es.take n) with
  | none => simp [h1] at h'
  | some s1 => simp [h1] at h'; exact ⟨s1, h1, h'⟩

theorem tr_sets {s s' : St} {t : Tid} {e : Ev} (h : Tr s t e s') : ∃ ext, s'.sets = s.sets ++ ext := by
  cases h with
  | mlk o σ r l _ _ _ => exact ⟨l, rfl⟩
  | _ => exact ⟨[], by simp⟩

/-- the `set_value` log only grows -/
theorem sets_mono {es : List (Tid × Ev)} {s s1 : St} {n : Nat} (h : run es = some s) (h1 : run (es.take n) = some s1) :
    ∃ ext, s.sets = s1.sets ++ ext := by
  obtain ⟨s1', h2, h3⟩ := run_split h n
  rw [h1] at h2; injection h2 with h2; subst h2
  refine runFrom_rel (R := fun a b => ∃ ext, b.sets = a.sets ++ ext) (fun a => ⟨[], by simp⟩) ?_ ?_ h3
  · rintro a b c ⟨x, hx⟩ ⟨y, hy⟩; exact ⟨x ++ y, by rw [hy, hx, List.append_assoc]⟩
  · intro a t e b hs; exact tr_sets (step_tr hs)

theorem psetCount_take_le (es : List (Tid × Ev)) {a b : Nat} (hab : a ≤ b) :
    psetCount (es.take a) ≤ psetCount (es.take b) := by
  have : es.take a = (es.take b).take a := by rw [List.take_take]; congr 1; omega
  rw [this]
  exact (List.take_sublist a (es.take b)).countP_le

theorem take_succ_of_get {α : Type} {l : List α} {n : Nat} {p : α} (h : l[n]? = some p) :
    l.take (n + 1) = l.take n ++ [p] := by
  rw [List.take_add_one, h]; rfl

/-- the count strictly increases across a `set_value` event -/
theorem psetCount_lt {es : List (Tid × Ev)} {q m : Nat} {t : Tid} {v : Val} (hq : es[q]? = some (t, Ev.pset v))
    (hqm : q < m) : psetCount (es.take q) < psetCount (es.take m) := by
  have h1 : psetCount (es.take (q + 1)) = psetCount (es.take q) + 1 := by
    rw [take_succ_of_get hq, psetCount_snoc]; rfl
  have h2 := psetCount_take_le es (a := q + 1) (b := m) (by omega)
  omega

/-- the `j`-th `set_value` event exists once the count exceeds `j` -/
theorem pset_pos (es : List (Tid × Ev)) {j : Nat} (hj : j < psetCount es) :
    ∃ q t v, es[q]? = some (t, Ev.pset v) ∧ psetCount (es.take q) = j := by
  induction es using HB.snoc_induction with
  | h0 => simp [psetCount] at hj
  | hs es x ih =>
    by_cases hlt : j < psetCount es
    · obtain ⟨q, t, v, h1, h2⟩ := ih hlt
      refine ⟨q, t, v, HB.lq_mono _ h1, ?_⟩
      rw [List.take_append_of_le_length (Nat.le_of_lt (HB.lq_lt h1))]; exact h2
    · obtain ⟨t, e⟩ := x
      rw [psetCount_snoc] at hj
      cases e with
      | pset v =>
        have : j = psetCount es := by simp [Ev.isPset] at hj; omega
        exact ⟨es.length, t, v, HB.lq_last _ _, by rw [List.take_left' rfl]; exact this.symm⟩
      | _ => simp [Ev.isPset] at hj; omega

theorem nodup_idx {l : List (Id × Val)} (hn : (l.map (·.1)).Nodup) {a b : Nat} {x y : Id × Val}
    (ha : l[a]? = some x) (hb : l[b]? = some y) (hxy : x.1 = y.1) : a = b := by
  induction l generalizing a b with
  | nil => simp at ha
  | cons z l ih =>
    simp only [List.map_cons, List.nodup_cons] at hn
    cases a with
    | zero =>
      cases b with
      | zero => rfl
      | succ b =>
        simp at ha; subst ha
        simp only [List.getElem?_cons_succ] at hb
        exact absurd (List.mem_map.2 ⟨y, List.mem_of_getElem? hb, hxy.symm⟩) hn.1
    | succ a =>
      simp only [List.getElem?_cons_succ] at ha
      cases b with
      | zero =>
        simp at hb; subst hb
        exact absurd (List.mem_map.2 ⟨x, List.mem_of_getElem? ha, hxy⟩) hn.1
      | succ b =>
        simp only [List.getElem?_cons_succ] at hb
        rw [ih hn.2 ha hb]

/-- **matching**: the `set_value` event at `q` (value `v`) is matched with an entry of the final log that
carries the same value — the entry its own critical section logged when it took the lock -/
theorem pset_entry {es : List (Tid × Ev)} {s : St} (h : run es = some s) {q : Nat} {t : Tid} {v : Val}
    (hq : es[q]? = some (t, Ev.pset v)) : ∃ p, s.sets[psetCount (es.take q)]? = some (p, v) := by
  obtain ⟨s1, s2, h1, h2⟩ := HB.runFrom_at h hq
  have hp := pinv_run h1
  obtain ⟨ext, hext⟩ := sets_mono h h1
  cases step_tr h2 with
  | pset o r todo v hpc hv =>
    obtain ⟨hd, v0, hall⟩ := hp.todo t o r todo hpc
    cases hdr : s1.sets.drop (psetCount (es.take q)) with
    | nil => rw [hdr] at hd; simp at hd; subst hd; cases hv
    | cons e rest =>
      rw [hdr] at hd
      have he : e.2 = v := by rw [hall v hv]; apply hall; rw [← hd]; simp
      have hget : s1.sets[psetCount (es.take q)]? = some e := by
        have := congrArg (fun l => l[0]?) hdr
        simpa using this
      refine ⟨e.1, ?_⟩
      rw [hext, HB.lq_mono ext hget, ← he]

end ConcVerif.DObj

/-! ### the edge `set_value` → `future::get` -/
namespace ConcVerif.DObj

/-- an atomic store in the promise-aware trace is a `set_value` event matched with an entry of that promise -/
theorem st_is_pset {L : List (Id × Val)} {es : List (Tid × Ev)} {k : Nat} {w : Tid} {a : HB.Loc} {o : HB.Ord}
    (hk : (hbTraceP L es)[k]? = some (w, .st a o)) :
    ∃ v e, es[k]? = some (w, Ev.pset v) ∧ L[psetCount (es.take k)]? = some e ∧ a = e.1 + 1 := by
  obtain ⟨e, he, hh⟩ := hbTraceP_inv L hk
  cases e with
  | pset v =>
    simp only [toHBP] at hh
    split at hh
    · rename_i e' he'
      injection hh with h1 _
      exact ⟨v, e', he, he', h1⟩
    · cases hh
  | _ => simp [toHBP] at hh

/-- **publication through a promise.**  When a consumer finds future `p` ready with value `v` at position `g`
of an accepted trace, then EITHER the `set_value(v)` event matched with promise `p` lies at some `q < g` and
happens-before `g` in the promise-aware trace (promise/future trusted as a release/acquire pair; the edge
exists because no other `set_value` is ever matched with `p`: exactly-once), OR the model accepted the
observation early: the thread that will satisfy `p` is inside its critical section (it holds the lock) and
still has a `set_value(v)` to perform. -/
theorem got_published {es : List (Tid × Ev)} {s : St} (h : run es = some s) {g : Nat} {u : Tid} {p : Id} {v : Val}
    (hg : es[g]? = some (u, Ev.got p (.val v))) :
    (∃ q t, q < g ∧ es[q]? = some (t, Ev.pset v) ∧ s.sets[psetCount (es.take q)]? = some (p, v) ∧
        HB.HB (hbTraceP s.sets es) q g) ∨
    (∃ s1 t o r td, run (es.take g) = some s1 ∧ s1.lock = some t ∧ s1.pc t = .locked o r td ∧ v ∈ td) := by
  obtain ⟨s1, s2, h1, h2⟩ := HB.runFrom_at h hg
  have hi1 : Inv s1 := inv_reachable ⟨_, h1⟩
  have hi : Inv s := inv_reachable ⟨_, h⟩
  have hp1 := pinv_run h1
  obtain ⟨ext, hext⟩ := sets_mono h h1
  cases step_tr h2 with
  | got p x hpc hx hpv =>
    have hmem : (p, v) ∈ s1.sets := (hi1.setsIff p v).1 hpv
    obtain ⟨j, hj⟩ := List.mem_iff_getElem?.1 hmem
    have hjs : s.sets[j]? = some (p, v) := by rw [hext]; exact HB.lq_mono ext hj
    by_cases hjc : j < psetCount (es.take g)
    · left
      obtain ⟨q, t, v', hq, hcq⟩ := pset_pos (es.take g) hjc
      have hqg : q < g := by
        have := HB.lq_lt hq; simp [List.length_take] at this; omega
      have hq' : es[q]? = some (t, Ev.pset v') := by rw [List.getElem?_take] at hq; simpa [hqg] using hq
      have htk : (es.take g).take q = es.take q := by rw [List.take_take]; congr 1; omega
      rw [htk] at hcq
      obtain ⟨p', hp'⟩ := pset_entry h hq'
      rw [hcq, hjs] at hp'
      injection hp' with hp'; injection hp' with _ hvv; subst hvv
      refine ⟨q, t, hqg, hq', by rw [hcq]; exact hjs, ?_⟩
      have hq2 : (hbTraceP s.sets es)[q]? = some (t, .st (p + 1) .rel) := by
        rw [hbTraceP_get s.sets hq']; simp [toHBP, hcq, hjs]
      have hg2 : (hbTraceP s.sets es)[g]? = some (u, .ld (p + 1) .acq) := by
        rw [hbTraceP_get s.sets hg]; rfl
      refine .sw (.atomic hqg hq2 hg2 ⟨.rel, rfl, .inl rfl⟩ ⟨.acq, rfl, .inl rfl⟩ ?_)
      intro k w o hqk hkg hk
      obtain ⟨v'', e, hek, hLk, hpe⟩ := st_is_pset hk
      have : psetCount (es.take k) = j :=
        nodup_idx hi.setsNodup hLk hjs (Nat.add_right_cancel hpe).symm
      have := psetCount_lt hq' hqk
      omega
    · right
      have hlen : j < s1.sets.length := HB.lq_lt hj
      cases hl : s1.lock with
      | none => have := hp1.free hl; omega
      | some t =>
        obtain ⟨o, r, td, hpc'⟩ := (hi1.lockPc t).1 hl
        obtain ⟨hd, _⟩ := hp1.todo t o r td hpc'
        refine ⟨s1, t, o, r, td, h1, hl, hpc', ?_⟩
        rw [← hd]
        refine List.mem_map.2 ⟨(p, v), ?_, rfl⟩
        have : (s1.sets.drop (psetCount (es.take g)))[j - psetCount (es.take g)]? = some (p, v) := by
          rw [List.getElem?_drop]
          have : psetCount (es.take g) + (j - psetCount (es.take g)) = j := by omega
          rw [this]; exact hj
        exact List.mem_of_getElem? this

end ConcVerif.DObj
