import ConcVerif.Proof.DD
import ConcVerif.Proof.DDList
/-! Accounting invariant of the DelayedDestructor model: every `push_back` is still in the vector, or was taken out
by a destroyObjects selection, or was released by the vector member's destructor — with multiplicity. -/
namespace ConcVerif.DD

def Acct (s : St) : Prop := ∀ k, s.added.count k = s.vec.count k + s.reaped.count k + s.vrel.count k

theorem acct_setStk {s : St} (t fs) (h : Acct s) : Acct (s.setStk t fs) := h

theorem acct_vdrain {s : St} (t rest) (v : List ObjId) (hv : s.vec = v) (h : Acct s) : Acct (vdrain s t rest v) := by
  induction v generalizing s with
  | nil => intro k; have := h k; simp only [vdrain, setStk_added, setStk_vec, setStk_reaped, setStk_vrel]; rw [hv] at this; exact this
  | cons a v ih =>
    have h1 : Acct { s with vec := v, vrel := a :: s.vrel } := by
      intro k; have := h k; rw [hv] at this
      simp only [List.count_cons] at this ⊢; omega
    simp only [vdrain]
    split
    · exact h1
    · exact ih rfl h1

theorem acct_xTop {s : St} (t ii rest) (h : Acct s) : Acct (xTop s t ii rest) := by
  unfold xTop; split <;> exact h

theorem acct_xAfter {s : St} (t ii rest) (h : Acct s) : Acct (xAfter s t ii rest) := by
  unfold xAfter; repeat' split
  all_goals exact h

theorem acct_dDone {s : St} (t r rest) (h : Acct s) : Acct (dDone s t r rest) := by
  unfold dDone; split
  · exact h
  · exact acct_xAfter _ _ _ h
  · exact acct_vdrain _ _ _ rfl h
  · exact h

theorem acct_drain {s : St} (t sz cbs thrown rest) (ec : List ObjId) (h : Acct s) :
    Acct (drain s t sz cbs thrown rest ec) := by
  induction ec generalizing s with
  | nil => simp only [drain]; split; exact acct_dDone _ _ _ h; exact h
  | cons k ec ih =>
    simp only [drain]; split
    · exact h
    · exact ih (s := { s with ecs := s.ecs.erase (t, k) }) h

theorem acct_resume {s : St} (t fs) (h : Acct s) : Acct (resume s t fs) := by
  unfold resume; split
  · exact acct_drain _ _ _ _ _ _ h
  · exact acct_vdrain _ _ _ rfl h
  · exact h

theorem acct_select {s : St} (t skip rest) (h : Acct s) : Acct (select s t skip rest) := by
  unfold select; dsimp only; split
  · exact h
  · intro k
    have h1 := h k
    have h2 := count_split s.vec (fun k => selectable s k && !skip.contains k) k
    simp only [setStk_added, setStk_vec, setStk_reaped, setStk_vrel, List.count_append]
    omega

theorem acct_stepUser {s s' : St} {t : Tid} {fs e} (hI : Acct s) (h : stepUser s t fs e = some s') : Acct s' := by
  unfold stepUser at h
  split at h
  all_goals (try (repeat' (split at h)))
  all_goals (first | cases h | skip)
  all_goals (first | exact hI | exact acct_xTop _ _ _ hI)

theorem acct_add {s : St} (t : Tid) (k : ObjId) (l : Option Tid) (e : ObjId → Nat) (fs) (hI : Acct s) :
    Acct ({ s with lock := l, vec := s.vec ++ [k], added := k :: s.added, ext := e }.setStk t fs) := by
  intro j; have := hI j
  simp only [setStk_added, setStk_vec, setStk_reaped, setStk_vrel, List.count_append, List.count_cons, List.count_nil]
  omega

theorem acct_step {s s' : St} {t : Tid} {e} (hI : Acct s) (h : step s t e = some s') : Acct s' := by
  unfold step at h
  split at h
  all_goals (first | exact acct_stepUser hI h | skip)
  all_goals (try (repeat' (split at h)))
  all_goals (first | cases h | skip)
  all_goals (first
    | exact hI
    | exact acct_add _ _ _ _ _ hI
    | exact acct_dDone _ _ _ hI
    | exact acct_drain _ _ _ _ _ _ hI
    | exact acct_resume _ _ hI
    | exact acct_xTop _ _ _ hI
    | exact acct_select _ _ _ hI)

theorem acct_init (cb ns nt) : Acct (init cb ns nt) := by intro k; simp [init]

theorem acct_reachable {cb ns nt} {s : St} (h : Reachable cb ns nt s) : Acct s := by
  obtain ⟨es, hr⟩ := h
  exact runFrom_inv (Inv := Acct) (fun _ _ _ _ hi hs => acct_step hi hs) (acct_init cb ns nt) hr

end ConcVerif.DD
