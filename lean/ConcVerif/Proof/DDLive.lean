import ConcVerif.Proof.DDInv
import ConcVerif.Proof.DDDyP
import ConcVerif.Base.Live
/-! Ranking for `DelayedDestructor` (shared-potential form of `Base/Live.lean`).

Environment events (`isEnv`) are the decisions of user code: the life-cycle markers `new` / `dup` / `drop` and the
calls (`callAdd`, `callSize`, `callDestroy`, `callDestroyD`, `callDtor`) — at script level, inside a callback or
inside a payload destructor.  Everything else is a step of the library and lowers the potential
`5·|vec| + Σ_t srank (stk t)`: lock and unlock events, `try_lock_for` outcomes (time-outs end the call), the
start and the end of a callback, the start and the end of a payload destructor, sleeps, yields and returns.
Each element of `ElementsToBeDestroyed` carries 5 units (selection, callback start and end, destructor start
and end); the retry loops of `destroyObjects(delay)` (`delayCount − cnt` rounds) and of the container's
destructor (`ii ≤ 5`) carry the cost of their remaining rounds, each including one inner `destroyObjects()`. -/
namespace ConcVerif.DD

def isEnv : Ev → Bool
  | .new _ | .dup _ | .drop _ | .callAdd _ _ | .callSize | .callDestroy | .callDestroyD _ | .callDtor => true
  | _ => false

def Frame.rank : Frame → Nat
  | .addCalled _ _ => 8
  | .addLocked _ => 2
  | .addRet _ => 1
  | .sizeCalled => 3
  | .sizeLocked => 2
  | .sizeRet _ => 1
  | .dCalled => 7
  | .dUnlock0 => 2
  | .dUnlock1 _ ec => 5 * ec.length + 6
  | .dCb _ ec _ todo => 3 * ec.length + 2 * todo.length + 5
  | .dInCb _ ec _ _ todo => 3 * ec.length + 2 * todo.length + 6
  | .dClear _ ec _ _ => 3 * ec.length + 5
  | .dRelock _ => 4
  | .dUnlock2 => 2
  | .dRet _ => 1
  | .dying _ => 2
  | .inDt _ => 1
  | .gCalled dc => dc * 12 + 16
  | .gUnlockS dc cnt _ => (dc - cnt) * 12 + 14
  | .gSleep dc cnt _ => (dc - cnt) * 12 + 13
  | .gRelockS dc cnt _ => (dc - cnt) * 12 + 12
  | .gUnlockD dc cnt _ => (dc + 1 - cnt) * 12 + 11
  | .gInner dc cnt _ => (dc + 1 - cnt) * 12 + 3
  | .gRelockD dc cnt _ => (dc + 1 - cnt) * 12 + 3
  | .gUnlockE => 2
  | .gRet _ => 1
  | .xInner ii => (6 - ii) * 8 + 10
  | .xYield ii => (5 - ii) * 8 + 18
  | .xSleep ii => (5 - ii) * 8 + 18
  | .xInnerLast => 3
  | .xVec => 2
  | .xRet => 1

def srank : List Frame → Nat
  | [] => 0
  | f :: fs => f.rank + srank fs

@[simp] theorem srank_nil : srank [] = 0 := rfl
@[simp] theorem srank_cons (f : Frame) (fs : List Frame) : srank (f :: fs) = f.rank + srank fs := rfl

def G (s : St) : Nat := 5 * s.vec.length
def μ (s : St) (t : Tid) : Nat := srank (s.stk t)
/-- the potential as seen from thread `t` -/
def pot (s : St) (t : Tid) : Nat := 5 * s.vec.length + srank (s.stk t)

theorem pot_setStk (s : St) (t : Tid) (fs : List Frame) : pot (s.setStk t fs) t = 5 * s.vec.length + srank fs := by
  simp [pot]

theorem vdrain_pot (s : St) (t : Tid) (rest : List Frame) (v : List ObjId) :
    pot (vdrain s t rest v) t ≤ 5 * v.length + 2 + srank rest := by
  induction v generalizing s with
  | nil => simp [vdrain, pot, Frame.rank]
  | cons k v ih =>
    simp only [vdrain]
    split
    · simp [pot, Frame.rank]; omega
    · have := ih { s with vec := v, vrel := k :: s.vrel }
      simp only [List.length_cons]; omega

theorem xTop_pot (s : St) (t : Tid) (ii : Nat) (rest : List Frame) :
    pot (xTop s t ii rest) t ≤ 5 * s.vec.length + (5 - ii) * 8 + 17 + srank rest := by
  unfold xTop; split
  · simp [pot, Frame.rank]; omega
  · simp [pot, Frame.rank]; omega

theorem xAfter_pot (s : St) (t : Tid) (ii : Nat) (rest : List Frame) :
    pot (xAfter s t ii rest) t ≤ 5 * s.vec.length + (6 - ii) * 8 + 10 + srank rest := by
  unfold xAfter
  split
  · simp [pot, Frame.rank]; omega
  · split
    · simp [pot, Frame.rank]; omega
    · split <;> (simp [pot, Frame.rank]; omega)

theorem dDone_pot (s : St) (t : Tid) (r : Option Nat) (rest : List Frame) :
    pot (dDone s t r rest) t ≤ 5 * s.vec.length + srank rest + 1 := by
  unfold dDone
  split
  · simp [pot, Frame.rank]
  · have := xAfter_pot s t ‹Nat› ‹List Frame›
    simp [Frame.rank]; omega
  · have := vdrain_pot s t ‹List Frame› s.vec
    simp [Frame.rank]; omega
  · simp [pot, Frame.rank]; omega

theorem drain_pot (s : St) (t : Tid) (sz : Nat) (cbs : List ObjId) (thrown : Bool) (rest : List Frame)
    (ec : List ObjId) :
    pot (drain s t sz cbs thrown rest ec) t ≤ 5 * s.vec.length + 3 * ec.length + 4 + srank rest := by
  induction ec generalizing s with
  | nil =>
    simp only [drain]
    split
    · have := dDone_pot s t (some sz) rest
      simp; omega
    · simp [pot, Frame.rank]; omega
  | cons k ec ih =>
    simp only [drain]
    split
    · simp [pot, Frame.rank]; omega
    · have := ih { s with ecs := s.ecs.erase (t, k) }
      dsimp only at this
      simp only [List.length_cons]; omega

theorem resume_pot (s : St) (t : Tid) (fs : List Frame) : pot (resume s t fs) t ≤ 5 * s.vec.length + srank fs := by
  unfold resume
  split
  · rename_i sz ec cbs thrown rest
    have := drain_pot s t sz cbs thrown rest ec
    simp [Frame.rank]; omega
  · have := vdrain_pot s t ‹List Frame› s.vec
    simp [Frame.rank]; omega
  · simp [pot]

theorem filter_split_length (p : ObjId → Bool) (L l : List ObjId) (hl : ∀ k ∈ l, k ∈ L) :
    (l.filter p).length + (l.filter (fun k => !(L.filter p).contains k)).length ≤ l.length := by
  induction l with
  | nil => simp
  | cons k l ih =>
    have hk : k ∈ L := hl k (by simp)
    have ih' := ih (fun j hj => hl j (List.mem_cons_of_mem _ hj))
    by_cases hp : p k = true
    · have hc : (L.filter p).contains k = true := by simp [hk, hp]
      simp only [List.filter_cons, hp, hc, if_true, List.length_cons, Bool.not_true]
      simp at ih' ⊢; omega
    · have hc : (L.filter p).contains k = false := by simp [hp]
      simp only [List.filter_cons, hp, hc, List.length_cons, Bool.not_false]
      simp at ih' ⊢; omega

theorem select_pot (s : St) (t : Tid) (skip : List ObjId) (rest : List Frame) :
    pot (select s t skip rest) t ≤ 5 * s.vec.length + 6 + srank rest := by
  unfold select
  dsimp only
  split
  · simp [pot, Frame.rank]; omega
  · have := filter_split_length (fun k => selectable s k && !skip.contains k) s.vec s.vec (fun _ h => h)
    simp [pot, Frame.rank]
    simp at this
    omega

theorem gBody_rank (len dc cnt : Nat) : (gBody len dc cnt).rank ≤ (dc - cnt) * 12 + 11 := by
  unfold gBody; split <;> simp [Frame.rank] <;> omega

theorem gNext_rank (len dc cnt es : Nat) : (gNext len dc cnt es).rank + 1 ≤ (dc + 1 - cnt) * 12 + 3 := by
  unfold gNext
  split
  · rename_i h
    split
    · simp [Frame.rank]; omega
    · have := gBody_rank len dc cnt; omega
  · simp [Frame.rank]

theorem stepUser_env {s s' : St} {t : Tid} {fs : List Frame} {e : Ev} (h : stepUser s t fs e = some s') :
    isEnv e = true := by
  cases e <;> simp [stepUser] at h <;> rfl

theorem pot_unlock_setStk (s : St) (t : Tid) (fs : List Frame) :
    pot ((unlock s).setStk t fs) t = 5 * s.vec.length + srank fs := by
  simp [pot, unlock]

/-- every library step strictly lowers the potential seen from the stepping thread -/
theorem step_dec {s s' : St} {t : Tid} {e : Ev} (h : step s t e = some s') (he : isEnv e = false) :
    pot s' t < pot s t := by
  cases hfs : s.stk t with
  | nil =>
    simp [step, hfs] at h
    have := stepUser_env h
    simp [he] at this
  | cons f rest =>
    have hp : pot s t = 5 * s.vec.length + (f.rank + srank rest) := by simp [pot, hfs]
    rw [hp]
    cases f
    case dCb sz ec cbs todo =>
      cases todo with
      | nil => cases e <;> simp [step, hfs] at h
      | cons k todo =>
        cases e <;> simp [isEnv] at he <;> simp [step, hfs] at h
        obtain ⟨_, h⟩ := h; subst h
        simp [pot, Frame.rank]; omega
    all_goals (cases e <;> simp [isEnv] at he <;> simp [step, hfs] at h)
    all_goals (try (obtain ⟨_, h⟩ := h))
    all_goals (try subst h)
    all_goals (try (simp [pot, unlock, Frame.rank]; done))
    case addCalled.mlk => simp [pot, Frame.rank]; omega
    case dCalled.mtf =>
      split at h
      · split at h
        · injection h with h; subst h
          apply Nat.lt_of_le_of_lt (select_pot _ _ _ _)
          simp [Frame.rank]; omega
        · contradiction
      · injection h with h; subst h
        apply Nat.lt_of_le_of_lt (dDone_pot _ _ _ _)
        simp [Frame.rank]; omega
    case dUnlock0.mul =>
      apply Nat.lt_of_le_of_lt (dDone_pot _ _ _ _)
      simp [unlock, Frame.rank]; omega
    case dUnlock1.mul =>
      split at h <;> (injection h with h; subst h)
      · simp [pot, unlock, Frame.rank]; omega
      · apply Nat.lt_of_le_of_lt (drain_pot _ _ _ _ _ _ _)
        simp [unlock, Frame.rank]; omega
    case dInCb.uce =>
      split at h <;> (injection h with h; subst h)
      · apply Nat.lt_of_le_of_lt (drain_pot _ _ _ _ _ _ _)
        simp [Frame.rank]; omega
      · simp [pot, Frame.rank]
    case dInCb.uth =>
      apply Nat.lt_of_le_of_lt (drain_pot _ _ _ _ _ _ _)
      simp [Frame.rank]; omega
    case dRelock.mtf =>
      split at h
      · split at h
        · injection h with h; subst h; simp [pot, Frame.rank]
        · contradiction
      · injection h with h; subst h
        apply Nat.lt_of_le_of_lt (dDone_pot _ _ _ _)
        simp [Frame.rank]; omega
    case dUnlock2.mul =>
      apply Nat.lt_of_le_of_lt (dDone_pot _ _ _ _)
      simp [unlock, Frame.rank]; omega
    case inDt.pde =>
      apply Nat.lt_of_le_of_lt (resume_pot _ _ _)
      simp [Frame.rank]
    case gCalled.mtf dc _ _ =>
      have hr : (Frame.gCalled dc).rank = dc * 12 + 16 := rfl
      split at h
      · split at h
        · injection h with h; subst h
          have := gNext_rank s.vec.length dc 0 s.vec.length
          simp only [Nat.sub_zero] at this
          rw [pot_setStk]; dsimp only [srank_cons]; omega
        · contradiction
      · injection h with h; subst h; simp [pot, Frame.rank]
    case gRelockS.mtf dc cnt es _ _ =>
      have hr : (Frame.gRelockS dc cnt es).rank = (dc - cnt) * 12 + 12 := rfl
      split at h
      · split at h
        · injection h with h; subst h
          have := gBody_rank s.vec.length dc cnt
          rw [pot_setStk]; dsimp only [srank_cons]; omega
        · contradiction
      · injection h with h; subst h; simp [pot, Frame.rank]
    case gUnlockD.mul => simp [pot, unlock, Frame.rank]; omega
    case gRelockD.mtf dc cnt es _ _ =>
      have hr : (Frame.gRelockD dc cnt es).rank = (dc + 1 - cnt) * 12 + 3 := rfl
      split at h
      · split at h
        · injection h with h; subst h
          have := gNext_rank s.vec.length dc cnt es
          rw [pot_setStk]; dsimp only [srank_cons]; omega
        · contradiction
      · injection h with h; subst h; simp [pot, Frame.rank]
    case xYield.yld =>
      apply Nat.lt_of_le_of_lt (xTop_pot _ _ _ _)
      simp [Frame.rank]; omega
    case xSleep.slp =>
      apply Nat.lt_of_le_of_lt (xTop_pot _ _ _ _)
      simp [Frame.rank]; omega

theorem rankedG : Live.RankedG step (fun _ => True) isEnv G μ where
  good := fun _ _ _ _ _ _ _ => trivial
  dec := by
    intro s t e s' _ hs he
    have := step_dec hs he
    simpa [pot, G, μ] using this
  frame := by
    intro s t e s' u _ hs _ hu
    simp [μ, step_stk_other hs hu]

/-! ## Who can move -/

/-- some library step of `t` is enabled -/
def LibEnabled (s : St) (t : Tid) : Prop := ∃ e, isEnv e = false ∧ (step s t e).isSome = true

/-- `t` waits in a blocking acquisition (`lock_guard` of `addObjectsToBeDestroyed` / `size`) -/
def Waiting (s : St) (t : Tid) : Prop :=
  (∃ k mv rest, s.stk t = .addCalled k mv :: rest ∧ 0 < s.ext k) ∨ (∃ rest, s.stk t = .sizeCalled :: rest)

/-- `t` is inside `addObjectsToBeDestroyed(k)` although no external reference to `k` exists any more: the client
passed (or meanwhile dropped) a reference it does not own — excluded by the client obligations -/
def Unowned (s : St) (t : Tid) : Prop := ∃ k mv rest, s.stk t = .addCalled k mv :: rest ∧ s.ext k = 0

/-- **Per-thread classification**: a thread is outside every call, or has an enabled library step, or waits in a
blocking acquisition while the lock is held by another thread, or is the misuse case `Unowned`. -/
theorem thread_cases {s : St} (hP : ProgInv s) (t : Tid) :
    s.stk t = [] ∨ LibEnabled s t ∨ (Waiting s t ∧ ∃ u, s.lock = some u ∧ u ≠ t) ∨ Unowned s t := by
  cases hfs : s.stk t with
  | nil => exact Or.inl rfl
  | cons f rest =>
    have hg := hP.shape t
    rw [hfs] at hg
    have htop : topF f = true := by
      simp only [good, shape_cons, topOk_cons, Bool.and_eq_true] at hg; exact hg.2
    have hself : ∀ u, s.lock = some u → holds (f :: rest) = false → u ≠ t := by
      intro u hu hh hut; subst hut
      have := hP.inv.lockI u hu; rw [hfs, hh] at this; cases this
    have hlk : holds (f :: rest) = true → s.lock = some t := fun hh => hP.holdsL t (by rw [hfs]; exact hh)
    right
    cases f
    case addCalled k mv =>
      by_cases he : 0 < s.ext k
      · cases hl : s.lock with
        | none => exact Or.inl ⟨.mlk, rfl, by simp [step, hfs, hl, he]⟩
        | some u => exact Or.inr (Or.inl ⟨Or.inl ⟨k, mv, rest, hfs, he⟩, u, rfl, hself u hl rfl⟩)
      · exact Or.inr (Or.inr ⟨k, mv, rest, hfs, by omega⟩)
    case sizeCalled =>
      cases hl : s.lock with
      | none => exact Or.inl ⟨.mlk, rfl, by simp [step, hfs, hl]⟩
      | some u => exact Or.inr (Or.inl ⟨Or.inr ⟨rest, hfs⟩, u, rfl, hself u hl rfl⟩)
    case addLocked mv => exact Or.inl ⟨.mul, rfl, by simp [step, hfs, hlk rfl]⟩
    case addRet mv => exact Or.inl ⟨.retAdd mv, rfl, by simp [step, hfs]⟩
    case sizeLocked => exact Or.inl ⟨.mul, rfl, by simp [step, hfs, hlk rfl]⟩
    case sizeRet n => exact Or.inl ⟨.retSize n, rfl, by simp [step, hfs]⟩
    case dCalled => exact Or.inl ⟨.mtf false [], rfl, by simp [step, hfs]⟩
    case dUnlock0 => exact Or.inl ⟨.mul, rfl, by simp [step, hfs, hlk rfl]⟩
    case dUnlock1 sz ec =>
      refine Or.inl ⟨.mul, rfl, ?_⟩
      simp only [step, hfs, hlk rfl, if_true]
      split <;> rfl
    case dCb sz ec cbs todo =>
      cases todo with
      | nil => simp [topF] at htop
      | cons k todo => exact Or.inl ⟨.ucb k, rfl, by simp [step, hfs]⟩
    case dInCb sz ec cbs k todo =>
      refine Or.inl ⟨.uce k, rfl, ?_⟩
      simp only [step, hfs, if_true]
      split <;> rfl
    case dClear => simp [topF] at htop
    case dRelock sz => exact Or.inl ⟨.mtf false [], rfl, by simp [step, hfs]⟩
    case dUnlock2 => exact Or.inl ⟨.mul, rfl, by simp [step, hfs, hlk rfl]⟩
    case dRet r => exact Or.inl ⟨.retDestroy r, rfl, by simp [step, hfs]⟩
    case dying k =>
      have hk := hP.dyP.pend t k rest hfs
      exact Or.inl ⟨.pdt k, rfl, by simp [step, hfs, hk]⟩
    case inDt k => exact Or.inl ⟨.pde k, rfl, by simp [step, hfs]⟩
    case gCalled dc => exact Or.inl ⟨.mtf false [], rfl, by simp [step, hfs]⟩
    case gUnlockS dc cnt es => exact Or.inl ⟨.mul, rfl, by simp [step, hfs, hlk rfl]⟩
    case gSleep dc cnt es => exact Or.inl ⟨.slp, rfl, by simp [step, hfs]⟩
    case gRelockS dc cnt es => exact Or.inl ⟨.mtf false [], rfl, by simp [step, hfs]⟩
    case gUnlockD dc cnt es => exact Or.inl ⟨.mul, rfl, by simp [step, hfs, hlk rfl]⟩
    case gInner => simp [topF] at htop
    case gRelockD dc cnt es => exact Or.inl ⟨.mtf false [], rfl, by simp [step, hfs]⟩
    case gUnlockE => exact Or.inl ⟨.mul, rfl, by simp [step, hfs, hlk rfl]⟩
    case gRet r => exact Or.inl ⟨.retDestroyD r, rfl, by simp [step, hfs]⟩
    case xInner => simp [topF] at htop
    case xYield ii => exact Or.inl ⟨.yld, rfl, by simp [step, hfs]⟩
    case xSleep ii => exact Or.inl ⟨.slp, rfl, by simp [step, hfs]⟩
    case xInnerLast => simp [topF] at htop
    case xVec => simp [topF] at htop
    case xRet => exact Or.inl ⟨.retDtor, rfl, by simp [step, hfs]⟩

/-- the holder of the lock has an enabled library step (its release) -/
theorem holder_lib {s : St} (hP : ProgInv s) {u : Tid} (hl : s.lock = some u) : LibEnabled s u :=
  ⟨.mul, rfl, holder_mul hl (hP.inv.lockI u hl)⟩

end ConcVerif.DD
