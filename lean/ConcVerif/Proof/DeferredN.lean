import ConcVerif.Proof.DeferredM
/-! No stranding under arbitrary concurrency after a quiescent point (no spurious try-lock failure):
the tasks `O` that were queued at the quiescent point are applied before anybody is granted shared
access or enters its own function.  `Draining O s` is the inductive invariant: either all of `O` is
applied, or nobody holds `m` shared, nobody is about to acquire it shared without an exclusive holder
being present, and either `m` is free with the flag up and `O` still queued, or the exclusive holder
is on its way through the drain with `O` in the queue / in its batch. -/
namespace ConcVerif.Deferred

def DrOK (O : List TaskId) (n : Nat) (s : St) : Prop :=
  (n = 1 ∧ s.flag = true ∧ ∀ k, k ∈ O → k ∈ s.queue) ∨
  (n = 2 ∧ ∀ k, k ∈ O → k ∈ s.queue) ∨
  (n = 3 ∧ ∀ k, k ∈ O → k ∈ s.applied ∨ k ∈ s.batch)

structure Pending (O : List TaskId) (s : St) : Prop where
  sh : s.sh = []
  acq : ∀ u, (s.pc u).atAcq = true → s.mx ≠ none
  st : (s.mx = none ∧ s.flag = true ∧ ∀ k, k ∈ O → k ∈ s.queue) ∨ ∃ d, s.mx = some d ∧ DrOK O (s.pc d).drPhase s

def Draining (O : List TaskId) (s : St) : Prop := (∀ k, k ∈ O → k ∈ s.applied) ∨ Pending O s

theorem DrOK.mono {O : List TaskId} {n : Nat} {s s' : St} (h : DrOK O n s) (hfl : s.flag = true → s'.flag = true)
    (hq : ∀ k, k ∈ s.queue → k ∈ s'.queue)
    (hab : ∀ k, k ∈ s.applied ∨ k ∈ s.batch → k ∈ s'.applied ∨ k ∈ s'.batch) : DrOK O n s' := by
  rcases h with ⟨hn, hf, ho⟩ | ⟨hn, ho⟩ | ⟨hn, ho⟩
  · exact Or.inl ⟨hn, hfl hf, fun k hk => hq k (ho k hk)⟩
  · exact Or.inr (Or.inl ⟨hn, fun k hk => hq k (ho k hk)⟩)
  · exact Or.inr (Or.inr ⟨hn, fun k hk => hab k (ho k hk)⟩)

/-- frame: `t` moves; `m` and its shared holders unchanged; flag only raised, queue only grows,
applied ∪ batch only grows; `t` does not newly arrive at the shared acquisition unless `m` is held -/
theorem pending_frame {O : List TaskId} {s s' : St} {t : Tid} {p' : Pc} (P : Pending O s) (hpc : s'.pc = upd s.pc t p')
    (hacq : p'.atAcq = true → (s.pc t).atAcq = true ∨ s.mx ≠ none) (hdr : p'.drPhase = (s.pc t).drPhase)
    (hsh : s'.sh = s.sh) (hmx : s'.mx = s.mx) (hfl : s.flag = true → s'.flag = true)
    (hq : ∀ k, k ∈ s.queue → k ∈ s'.queue)
    (hab : ∀ k, k ∈ s.applied ∨ k ∈ s.batch → k ∈ s'.applied ∨ k ∈ s'.batch) : Pending O s' := by
  obtain ⟨h1, h2, h3⟩ := P
  refine ⟨by rw [hsh]; exact h1, ?_, ?_⟩
  · intro u hu
    rw [hmx]; rw [hpc] at hu
    by_cases hut : u = t
    · subst hut
      simp only [upd_same] at hu
      rcases hacq hu with h | h
      · exact h2 u h
      · exact h
    · simp only [upd_other _ _ _ _ hut] at hu; exact h2 u hu
  · rcases h3 with ⟨hm, hf, ho⟩ | ⟨d, hd, hok⟩
    · exact Or.inl ⟨by rw [hmx]; exact hm, hfl hf, fun k hk => hq k (ho k hk)⟩
    · refine Or.inr ⟨d, by rw [hmx]; exact hd, ?_⟩
      have hph : (s'.pc d).drPhase = (s.pc d).drPhase := by rw [hpc]; exact upd_class Pc.drPhase s.pc t p' hdr d
      rw [hph]; exact hok.mono hfl hq hab

/-- the exclusive holder's own drain phase -/
theorem Pending.holder {O : List TaskId} {s : St} {t : Tid} (hL : InvL s) (P : Pending O s) (hX : (s.pc t).holdsX = true) :
    DrOK O (s.pc t).drPhase s := by
  have hm := (hL.mxP t).2 hX
  rcases P.st with ⟨h0, _⟩ | ⟨d, hd, hok⟩
  · rw [hm] at h0; cases h0
  · rw [hm] at hd; injection hd with hd; subst hd; exact hok

macro "cls2" : tactic =>
  `(tactic| simp_all [Pc.holdsX, Pc.holdsS, Pc.holdsQ, Pc.atAcq, Pc.drPhase])

theorem draining_step {O : List TaskId} {s s' : St} {t : Tid} (hL : InvL s) (hsp : s.spur = false)
    (hD : Draining O s) (hs : Step s t s') : Draining O s' := by
  rcases hD with happ | P
  · left
    obtain ⟨l, hl⟩ := hs.applied_mono
    intro k hk; rw [hl]; exact List.mem_append_left _ (happ k hk)
  · have noPhase : ∀ {n : Nat}, DrOK O n s → n = 0 → False := by
      intro n h h0; subst h0; rcases h with ⟨h, _⟩ | ⟨h, _⟩ | ⟨h, _⟩ <;> cases h
    cases hs with
    | stutter => exact Or.inr P
    | wr v hr _ =>
      exact Or.inr ⟨P.sh, P.acq, by
        rcases P.st with h | ⟨d, hd, hok⟩
        · exact Or.inl h
        · exact Or.inr ⟨d, hd, hok.mono id (fun _ h => h) (fun _ h => h)⟩⟩
    | move p p' hp hc =>
      subst hp
      exact Or.inr (pending_frame P rfl (fun h => Or.inl (hc.atAcq h)) hc.drPhase rfl rfl id (fun _ h => h) (fun _ h => h))
    | skipDrain c hp hf =>
      exfalso
      rcases P.holder hL (t := t) (by simp [hp, Pc.holdsX]) with ⟨_, h, _⟩ | ⟨h, _⟩ | ⟨h, _⟩
      · rw [hf] at h; cases h
      · simp [hp, Pc.drPhase] at h
      · simp [hp, Pc.drPhase] at h
    | skipShared c hp hf =>
      refine Or.inr (pending_frame P rfl ?_ (by cls2) rfl rfl id (fun _ h => h) (fun _ h => h))
      intro _
      right
      rcases P.st with ⟨_, h, _⟩ | ⟨d, hd, _⟩
      · rw [hf] at h; cases h
      · rw [hd]; simp
    | failTry p p' hp hpp hfail =>
      subst hp
      have hmx : s.mx ≠ none := by
        rcases hfail with h | h | h
        · rw [hsp] at h; cases h
        · exact h
        · exact absurd P.sh h
      rcases hpp with ⟨k, a, h1, h2⟩ | ⟨c, h1, h2⟩ <;> subst h2 <;>
        exact Or.inr (pending_frame P rfl (fun _ => Or.inr hmx) (by cls2) rfl rfl id (fun _ h => h) (fun _ h => h))
    | call k a hp hsub =>
      exact Or.inr (pending_frame P rfl (by cls2) (by cls2) rfl rfl id (fun _ h => h) (fun _ h => h))
    | lockX p p' hp hpp hm hs =>
      subst hp
      have hst : s.flag = true ∧ ∀ k, k ∈ O → k ∈ s.queue := by
        rcases P.st with ⟨_, h⟩ | ⟨d, hd, _⟩
        · exact h
        · rw [hm] at hd; cases hd
      have hph : p'.drPhase = 1 := by
        rcases hpp with ⟨k, a, h1, h2⟩ | ⟨c, h1, h2⟩ <;> subst h2 <;> simp [Pc.drPhase]
      refine Or.inr ⟨P.sh, fun _ _ => by simp [St.setPc], Or.inr ⟨t, rfl, ?_⟩⟩
      simp only [St.setPc, upd_same, hph]
      exact Or.inl ⟨rfl, hst.1, hst.2⟩
    | unlockXm k a thr hp hm =>
      exact (noPhase (P.holder hL (t := t) (by simp [hp, Pc.holdsX])) (by simp [hp, Pc.drPhase])).elim
    | unlockXs c hp hb hm =>
      left
      rcases P.holder hL (t := t) (by simp [hp, Pc.holdsX]) with ⟨h, _⟩ | ⟨h, _⟩ | ⟨_, h⟩
      · simp [hp, Pc.drPhase] at h
      · simp [hp, Pc.drPhase] at h
      · intro k hk
        rcases h k hk with h | h
        · exact h
        · rw [hb] at h; cases h
    | lockS c p' hp hp' hm => exact absurd hm (P.acq t (by simp [hp, Pc.atAcq]))
    | unlockS p p' hp hpp hin => rw [P.sh] at hin; cases hin
    | lockQ p p' hp hpp hq =>
      subst hp
      rcases hpp with ⟨k, a, h1, h2⟩ | ⟨c, h1, h2⟩ <;> subst h2 <;>
        exact Or.inr (pending_frame P rfl (by cls2) (by cls2) rfl rfl id (fun _ h => h) (fun _ h => h))
    | push k a hp hq =>
      exact Or.inr (pending_frame P rfl (by cls2) (by cls2) rfl rfl id
        (fun _ h => by simp [St.setPc, h]) (fun _ h => h))
    | raise k a hp =>
      exact Or.inr (pending_frame P rfl (by cls2) (by cls2) rfl rfl (fun _ => rfl) (fun _ h => h) (fun _ h => h))
    | clear c hp =>
      have hst : ∀ k, k ∈ O → k ∈ s.queue := by
        rcases P.holder hL (t := t) (by simp [hp, Pc.holdsX]) with ⟨_, _, h⟩ | ⟨h, _⟩ | ⟨h, _⟩
        · exact h
        · simp [hp, Pc.drPhase] at h
        · simp [hp, Pc.drPhase] at h
      have hm := (hL.mxP t).2 (by simp [hp, Pc.holdsX])
      refine Or.inr ⟨P.sh, fun u hu => ?_, Or.inr ⟨t, hm, ?_⟩⟩
      · show s.mx ≠ none
        rw [hm]; simp
      · simp only [St.setPc, upd_same, Pc.drPhase]
        exact Or.inr (Or.inl ⟨rfl, hst⟩)
    | swap c hp hq hb =>
      have hst : ∀ k, k ∈ O → k ∈ s.queue := by
        rcases P.holder hL (t := t) (by simp [hp, Pc.holdsX]) with ⟨h, _⟩ | ⟨_, h⟩ | ⟨h, _⟩
        · simp [hp, Pc.drPhase] at h
        · exact h
        · simp [hp, Pc.drPhase] at h
      have hm := (hL.mxP t).2 (by simp [hp, Pc.holdsX])
      refine Or.inr ⟨P.sh, fun u hu => ?_, Or.inr ⟨t, hm, ?_⟩⟩
      · show s.mx ≠ none
        rw [hm]; simp
      · simp only [St.setPc, upd_same, Pc.drPhase]
        exact Or.inr (Or.inr ⟨rfl, fun k hk => Or.inr (hst k hk)⟩)
    | applyHead c j rest hp hb =>
      refine Or.inr (pending_frame P rfl (by cls2) (by cls2) rfl rfl id (fun _ h => h) ?_)
      intro k hk
      simp only [St.setPc, List.mem_append, List.mem_singleton]
      rcases hk with h | h
      · exact Or.inl (Or.inl h)
      · rw [hb] at h
        simp only [List.mem_cons] at h
        rcases h with h | h
        · exact Or.inl (Or.inr h)
        · exact Or.inr h
    | applyOwn k a hp hb =>
      left
      rcases P.holder hL (t := t) (by simp [hp, Pc.holdsX]) with ⟨h, _⟩ | ⟨h, _⟩ | ⟨_, h⟩
      · simp [hp, Pc.drPhase] at h
      · simp [hp, Pc.drPhase] at h
      · intro k' hk'
        simp only [St.setPc, List.mem_append, List.mem_singleton]
        rcases h k' hk' with h | h
        · exact Or.inl h
        · rw [hb] at h; cases h
    | endHead c j o hp =>
      exact Or.inr (pending_frame P rfl (by cls2) (by cls2) rfl rfl id (fun _ h => h) (fun _ h => h))
    | endOwn k a thr o hp =>
      exact (noPhase (P.holder hL (t := t) (by simp [hp, Pc.holdsX])) (by simp [hp, Pc.drPhase])).elim
    | done k a thr hp =>
      exact Or.inr (pending_frame P rfl (by cls2) (by cls2) rfl rfl id (fun _ h => h) (fun _ h => h))

/-- along any run from a state that satisfies `Draining O` (no spurious failures) -/
theorem draining_run {O : List TaskId} {s s' : St} {es : List (Tid × Ev)} (hr : Reachable false s)
    (hD : Draining O s) (hrun : runFrom step s es = some s') : Reachable false s' ∧ Draining O s' := by
  induction es generalizing s with
  | nil => simp at hrun; subst hrun; exact ⟨hr, hD⟩
  | cons x xs ih =>
    obtain ⟨t, e⟩ := x
    rw [runFrom_cons] at hrun
    cases hst : step s t e with
    | none => simp [hst] at hrun
    | some s2 =>
      simp only [hst, Option.bind_some] at hrun
      exact ih (hr.step hst) (draining_step (inv_reachable hr).L hr.spur_eq hD (step_sound hst)) hrun

/-- whoever holds `m` shared, or is inside its own function on the direct path, sees all of `O` applied -/
theorem Draining.granted {O : List TaskId} {s : St} {u : Tid} (hL : InvL s) (hD : Draining O s)
    (hg : (s.pc u).holdsS = true ∨ ∃ k a, s.pc u = .aIn k a) : ∀ k, k ∈ O → k ∈ s.applied := by
  rcases hD with h | P
  · exact h
  · exfalso
    rcases hg with hg | ⟨k, a, hg⟩
    · have := (hL.shP u).2 hg
      rw [P.sh] at this; cases this
    · rcases P.holder hL (t := u) (by simp [hg, Pc.holdsX]) with ⟨h, _⟩ | ⟨h, _⟩ | ⟨h, _⟩ <;>
        simp [hg, Pc.drPhase] at h

end ConcVerif.Deferred
