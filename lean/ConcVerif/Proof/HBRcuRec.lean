import ConcVerif.Proof.HBRcuIter
/-! rcu_list and happens-before, part 7: publication of log records — definitions and how a step changes
the log, the handles and the privately held records. -/
namespace ConcVerif.Rcu
open HB (HBeq Kn)

/-- the record a thread is constructing / about to push -/
def buildRec : Pc → Option Nat
  | .regAlloc _ r | .regCons _ r | .pushStore _ r _ | .pushCas _ r _ => some r
  | .eCons _ _ z | .eZh _ z => some z
  | .eMark _ _ z | .eBack _ _ z | .eNext _ _ _ z | .eUnl _ _ _ _ z | .eFix _ _ _ _ z => some z
  | _ => none

theorem buildRec_priv {p : Pc} {m : Nat} (h : buildRec p = some m) : privRec (BView p) = some m := by
  cases p <;> simp [buildRec] at h <;> simp [BView, privRec, h]

/-- `TR1` a record that has been initialised has been allocated -/
def TR1 (es : List (Tid × Ev)) (nR : Nat) : Prop :=
  ∀ (i : Nat) (u : Tid) (e : Ev) (m : Nat), es[i]? = some (u, e) → e.initR = some m → m < nR

/-- `IP` the initialisation of a record is done by the thread that pushes it, before the push -/
def IP (es : List (Tid × Ev)) (s : St) : Prop :=
  ∀ (i : Nat) (u : Tid) (e : Ev) (m : Nat), es[i]? = some (u, e) → e.initR = some m →
    buildRec (s.pc u) = some m ∨
      ∃ (p : Nat) (o : Ord) (a c : Option Nat), i ≤ p ∧ es[p]? = some (u, Ev.cas o a (some m) true c)

/-- `RP` a thread that holds a record privately (constructing it, or having taken it off the log) knows its initialisation -/
def RP (w : Ords) (sel : Bool) (es : List (Tid × Ev)) (s : St) : Prop :=
  ∀ (t : Tid) (m : Nat), privRec (BView (s.pc t)) = some m → ∀ (i : Nat) (u : Tid) (e : Ev), es[i]? = some (u, e) →
    e.initR = some m → Kn (hbTrace w sel es) t i

/-- `RK` a registered thread knows the initialisation of its own record and of every older record on the log -/
def RK (w : Ords) (sel : Bool) (es : List (Tid × Ev)) (s : St) : Prop :=
  ∀ (t : Tid) (b : Bool) (a : Nat), s.hnd t = .reg b a → ∀ m, (m = a ∨ m ∈ Below s.log a) →
    ∀ (i : Nat) (u : Tid) (e : Ev), es[i]? = some (u, e) → e.initR = some m → Kn (hbTrace w sel es) t i

/-- a record is initialised by the thread that is constructing it -/
theorem initR_facts {s s' : St} {t : Tid} {e : Ev} {m : Nat} (hS : Step s t e s') (hm : e.initR = some m) :
    buildRec (s.pc t) = some m ∧
      (buildRec (s'.pc t) = some m ∨ ∃ o a c, e = .cas o a (some m) true c ∧ s'.log = m :: s.log) := by
  cases hS <;> simp [Ev.initR] at hm <;> subst hm <;> simp [buildRec, *]

/-- the thread keeps constructing the record until it has pushed it -/
theorem build_step {s s' : St} {t : Tid} {e : Ev} {m : Nat} (hS : Step s t e s') (hb : buildRec (s.pc t) = some m) :
    buildRec (s'.pc t) = some m ∨ ∃ o a c, e = .cas o a (some m) true c := by
  cases hS <;> simp_all [buildRec]

@[simp] theorem privRec_called (k : Op) : privRec (BView (.called k)) = none := by cases k <;> rfl
@[simp] theorem privRec_retp (k : Op) : privRec (BView (.retp k)) = none := by cases k <;> rfl

theorem reapPc_priv (r : Nat) (n : Option Nat) : privRec (BView (reapPc r n)) = n := by cases n <;> rfl

/-- how the acting thread comes to hold a record privately -/
theorem priv_cases {s s' : St} {t : Tid} {e : Ev} {m : Nat} (hi : Inv s) (hS : Step s t e s')
    (hnd : inDtor (s.pc t) = false) (hp : privRec (BView (s'.pc t)) = some m) :
    privRec (BView (s.pc t)) = some m ∨ (e = .alo true m ∧ m = s.nR) ∨
      ∃ a, myRec (s.pc t) = some a ∧ (Below s.log a).head? = some m := by
  have hsc := hi.b.scan t
  have hre := hi.b.reap t
  simp only [bview_vpc] at hsc hre
  cases hS <;> first | no_dtor | skip
  case uNextNone r cached m' o hpc ho hv =>
    rw [reapAt_pc, upd_same, reapPc_priv] at hp
    rw [hpc] at hsc; simp only [BView, ScanP, bview_log] at hsc
    right; right; exact ⟨r, by simp [hpc, myRec], by rw [← hsc.2.1]; exact hp⟩
  case rFreZ r m' nx hpc =>
    rw [reapAt_pc, upd_same, reapPc_priv] at hp
    rw [hpc] at hre; simp only [BView, ReapP, bview_log] at hre
    right; right; exact ⟨r, by simp [hpc, myRec], by rw [← hre.2.2]; exact hp⟩
  case regAlo k w hpc hk hh =>
    simp [BView, privRec] at hp; subst hp; exact .inr (.inl ⟨rfl, rfl⟩)
  case eAlo c orig hpc =>
    simp [BView, privRec] at hp; subst hp; exact .inr (.inl ⟨rfl, rfl⟩)
  all_goals (left; simp_all [BView, privRec, reapAt_pc, reapPc])

/-- how a step changes the log -/
theorem log_cases {s s' : St} {t : Tid} {e : Ev} (hi : Inv s) (hS : Step s t e s') (hnd : inDtor (s.pc t) = false) :
    s'.log = s.log ∨
    (∃ r o a c, e = .cas o a (some r) true c ∧ s'.log = r :: s.log ∧ privRec (BView (s.pc t)) = some r) ∨
    (∃ a m, myRec (s.pc t) = some a ∧ (Below s.log a).head? = some m ∧ s'.log = s.log.erase m ∧
      (s.recs m).owner = none) := by
  have hnodup := hi.b.logNd
  simp only [bview_log] at hnodup
  have hsc := hi.b.scan t
  have hre := hi.b.reap t
  simp only [bview_vpc] at hsc hre
  cases hS <;> first | (left; rfl) | (left; simp; done) | no_dtor | skip
  case casRegOk k r o hpc ho => exact .inr (.inl ⟨r, o, _, _, rfl, rfl, by simp [hpc, BView, privRec]⟩)
  case casEraseOk orig r o hpc ho => exact .inr (.inl ⟨r, o, _, _, rfl, rfl, by simp [hpc, BView, privRec]⟩)
  case uNextNone r cached m' o hpc ho hv =>
    rw [hpc] at hsc; simp only [BView, ScanP, bview_log] at hsc
    cases cached with
    | none => left; rfl
    | some m =>
      right; right
      refine ⟨r, m, by simp [hpc, myRec], hsc.2.1.symm, rfl, ?_⟩
      simp only [bview_recs] at hsc
      rcases mem_below_cases hnodup hsc.2.1.symm hsc.1 with h1 | h1
      · rw [← h1]; exact hsc.2.2.1
      · exact hsc.2.2.2 m (head_mem_below hsc.2.1.symm) h1
  case rFreZ r m' nx hpc =>
    rw [hpc] at hre; simp only [BView, ReapP, bview_log] at hre
    cases nx with
    | none => left; rfl
    | some m =>
      right; right
      simp only [bview_recs] at hre
      exact ⟨r, m, by simp [hpc, myRec], hre.2.2.symm, rfl, hre.2.1 m (head_mem_below hre.2.2.symm)⟩

/-- how a step changes the handles -/
theorem hnd_cases {s s' : St} {t : Tid} {e : Ev} (hS : Step s t e s') (hnd : inDtor (s.pc t) = false) :
    s'.hnd = s.hnd ∨ (∃ b, s'.hnd = upd s.hnd t (.fresh b)) ∨ s'.hnd = upd s.hnd t .none ∨
    (∃ r b o a c, e = .cas o a (some r) true c ∧ o.isSc = true ∧ s'.hnd = upd s.hnd t (.reg b r) ∧
      privRec (BView (s.pc t)) = some r ∧ s'.log = r :: s.log) := by
  cases hS <;> first | (left; rfl) | (left; simp; done) | no_dtor | skip
  case retLock w hpc hd => exact .inr (.inl ⟨w, rfl⟩)
  case relFresh w hpc hh => exact .inr (.inr (.inl rfl))
  case uClear r o hpc ho => exact .inr (.inr (.inl rfl))
  case casRegOk k r o hpc ho => exact .inr (.inr (.inr ⟨r, _, o, _, _, rfl, ho, rfl, by simp [hpc, BView, privRec], rfl⟩))

/-- the log record whose memory an event reads or writes (construction included; destruction and
deallocation are the subject of the reclamation theorems) -/
def Ev.recAcc : Ev → Option Nat
  | .ald (.rnext r) _ _ | .ald (.rowner r) _ _ | .ast (.rnext r) _ _ | .ast (.rowner r) _ _ => some r
  | .pldZn r _ | .pstZn r _ => some r
  | .conR r _ _ => some r
  | _ => none

/-- who accesses a record: the thread that holds it privately, its owner, or a thread registered with a newer record -/
theorem recAcc_cases {s s' : St} {t : Tid} {e : Ev} {m : Nat} (hi : Inv s) (hS : Step s t e s')
    (hnd : inDtor (s.pc t) = false) (hm : e.recAcc = some m) :
    privRec (BView (s.pc t)) = some m ∨ ∃ b a, s.hnd t = .reg b a ∧ (m = a ∨ m ∈ Below s.log a) := by
  have hsc := hi.b.scan t
  simp only [bview_vpc] at hsc
  have my : ∀ a, myRec (s.pc t) = some a → ∃ b, s.hnd t = .reg b a := fun a h => hi.a.myr t a h
  cases hS <;> simp only [Ev.recAcc] at hm <;> first | (cases hm; done) | no_dtor | skip
  all_goals (injection hm with hm; subst hm)
  case relSome w r m' o hpc hh ho hv => exact .inr ⟨w, _, hh, .inl rfl⟩
  case relNone w r o hpc hh ho hv => exact .inr ⟨w, _, hh, .inl rfl⟩
  case uTrunc r o hpc ho => obtain ⟨b, hb⟩ := my r (by simp [hpc, myRec]); exact .inr ⟨b, _, hb, .inl rfl⟩
  case uClear r o hpc ho => obtain ⟨b, hb⟩ := my r (by simp [hpc, myRec]); exact .inr ⟨b, _, hb, .inl rfl⟩
  case uOwnerActive r c m' o u hpc ho hv =>
    rw [hpc] at hsc; simp only [BView, ScanP, bview_log] at hsc
    obtain ⟨b, hb⟩ := my r (by simp [hpc, myRec]); exact .inr ⟨b, _, hb, .inr hsc.1⟩
  case uOwnerInactive r c m' o hpc ho hv =>
    rw [hpc] at hsc; simp only [BView, ScanP, bview_log] at hsc
    obtain ⟨b, hb⟩ := my r (by simp [hpc, myRec]); exact .inr ⟨b, _, hb, .inr hsc.1⟩
  case uNextSome r c m' m2 o hpc ho hv =>
    rw [hpc] at hsc; simp only [BView, ScanP, bview_log] at hsc
    obtain ⟨b, hb⟩ := my r (by simp [hpc, myRec]); exact .inr ⟨b, _, hb, .inr hsc.1⟩
  case uNextNone r c m' o hpc ho hv =>
    rw [hpc] at hsc; simp only [BView, ScanP, bview_log] at hsc
    obtain ⟨b, hb⟩ := my r (by simp [hpc, myRec]); exact .inr ⟨b, _, hb, .inr hsc.1⟩
  all_goals (left; simp [*, BView, privRec]; done)

end ConcVerif.Rcu
