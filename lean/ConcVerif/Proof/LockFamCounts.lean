import ConcVerif.Proof.LockFam
/-! Ties the ghost acquisition / release counters of the lock-family model to the *events of the
trace*: `acqs t` is the number of successful lock events (`lk _ _ true` = mlk / successful mtl,
mtf, slk, stl, stf) thread `t` made, `rels t` the number of its unlock events (`rel` = mul / sul). -/
namespace ConcVerif.LockFam

def lkN : Ev → Nat
  | .lk _ _ true => 1
  | _ => 0

def relN : Ev → Nat
  | .rel _ => 1
  | _ => 0

/-- successful lock events of thread `t` in a trace -/
def locksOf (t : Tid) : List (Tid × Ev) → Nat
  | [] => 0
  | (u, e) :: es => (if u = t then lkN e else 0) + locksOf t es

/-- unlock events of thread `t` in a trace -/
def unlocksOf (t : Tid) : List (Tid × Ev) → Nat
  | [] => 0
  | (u, e) :: es => (if u = t then relN e else 0) + unlocksOf t es

theorem acq_fin {s s1 s2 : St} {t u : Tid} {sd : Side} {e : Ev} (h1 : s.acquire t sd = some s1)
    (ha : s2.acqs = s1.acqs) (hr : s2.rels = s1.rels) (hl : lkN e = 1) (hrn : relN e = 0) :
    s2.acqs u = s.acqs u + (if u = t then lkN e else 0) ∧
    s2.rels u = s.rels u + (if u = t then relN e else 0) := by
  obtain ⟨_, _, h3, h4, _⟩ := acquire_spec h1
  rw [ha, hr, h3, h4, hl, hrn, upd_apply]
  by_cases hu : u = t <;> simp [hu]

theorem rel_fin {s s1 s2 : St} {t u : Tid} {sd : Side} {e : Ev} (h1 : s.release t sd = some s1)
    (ha : s2.acqs = s1.acqs) (hr : s2.rels = s1.rels) (hl : lkN e = 0) (hrn : relN e = 1) :
    s2.acqs u = s.acqs u + (if u = t then lkN e else 0) ∧
    s2.rels u = s.rels u + (if u = t then relN e else 0) := by
  obtain ⟨_, _, h3, h4, _⟩ := release_spec h1
  rw [ha, hr, h3, h4, hl, hrn, upd_apply]
  by_cases hu : u = t <;> simp [hu]

theorem step_counts {s s' : St} {t : Tid} {e : Ev} (hs : step s t e = some s') (u : Tid) :
    s'.acqs u = s.acqs u + (if u = t then lkN e else 0) ∧
    s'.rels u = s.rels u + (if u = t then relN e else 0) := by
  unfold step at hs
  simp only [] at hs
  split at hs
  all_goals (try (repeat' (split at hs)))
  all_goals (try contradiction)
  all_goals first
    | (injection hs with hs; subst hs; simp_all [lkN, relN, St.setPc, St.setLoc]; done)
    | (rw [Option.map_eq_some_iff] at hs
       obtain ⟨s1, h1, rfl⟩ := hs
       first
         | exact acq_fin h1 rfl rfl (by simp_all [lkN]) (by simp [relN])
         | exact rel_fin h1 rfl rfl (by simp [lkN]) (by simp [relN]))

theorem run_counts {s s' : St} (es : List (Tid × Ev)) (hr : runFrom step s es = some s') (u : Tid) :
    s'.acqs u = s.acqs u + locksOf u es ∧ s'.rels u = s.rels u + unlocksOf u es := by
  induction es generalizing s with
  | nil => simp at hr; subst hr; simp [locksOf, unlocksOf]
  | cons te es ih =>
    obtain ⟨t, e⟩ := te
    rw [runFrom_cons] at hr
    cases hst : step s t e with
    | none => simp [hst] at hr
    | some s1 =>
      simp [hst] at hr
      have h1 := step_counts hst u
      have h2 := ih hr
      simp only [locksOf, unlocksOf]
      by_cases hu : u = t
      · subst hu; simp at h1 ⊢; omega
      · have hu' : ¬ t = u := fun h => hu h.symm
        simp [hu, hu'] at h1 ⊢; omega

end ConcVerif.LockFam
