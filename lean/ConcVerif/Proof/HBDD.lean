import ConcVerif.Proof.HBDDStep
import ConcVerif.Proof.HBComplete
/-! Connection of the DelayedDestructor model to the happens-before layer (mapping: `Proof/HBDDMap.lean`).

Simulation invariant `Sim`, for every accepted trace `es` ending in state `s`:
* `HB.held (hbTrace es) u 0` mirrors `s.lock`, and the mapped trace is consistent with mutex semantics;
* while the container is alive (`s.dead = none`) every access to the vector is made under `destructionLock`;
* once `~DelayedDestructor` has started in thread `d` (event `callDtor` at position `p`), everything in the mapped
  trace from that event on that is not a `nop` — every lock operation, every access — is done by `d`.

The accesses of `~DelayedDestructor` itself are made WITHOUT the lock (the code takes none), so they are ordered after
the other threads' critical sections only if the client orders the destructor call after them: `DtorOrdered`. -/
namespace ConcVerif.DD

structure Sim (js : List Tid) (cb : Bool) (ns nt : Nat) (es : List (Tid × Ev)) (s : St) : Prop where
  ti : TI (hbTrace js cb ns nt es) s.lock
  live : s.dead = none → HB.LockSet (hbTrace js cb ns nt es) 0 0
  dt : ∀ d, s.dead = some d → ∃ p, es[p]? = some (d, Ev.callDtor) ∧
    OwnedFrom (hbTrace js cb ns nt es) (hbTrace js cb ns nt (es.take p)).length d

theorem callDtor_inv {s s' : St} {t : Tid} (h : step s t .callDtor = some s') :
    s.stk t = [] ∧ s.act = [] ∧ s.dead = none ∧ s'.dead = some t := by
  cases hfs : s.stk t with
  | nil =>
    simp [step, hfs, stepUser] at h
    obtain ⟨⟨ha, hd⟩, rfl⟩ := h
    exact ⟨rfl, ha, hd, by simp⟩
  | cons f rest => cases f <;> simp [step, hfs, stepUser] at h

theorem sim_init (js : List Tid) (cb : Bool) (ns nt : Nat) : Sim js cb ns nt [] (init cb ns nt) :=
  ⟨⟨fun _ => rfl, HB.mutexOK_nil⟩, fun _ => HB.lockSet_nil 0 0, fun d h => by simp [init] at h⟩

theorem sim_step {js : List Tid} {cb : Bool} {ns nt : Nat} {es : List (Tid × Ev)} {s s' : St} {t : Tid} {e : Ev}
    (hr : run cb ns nt es = some s) (hS : Sim js cb ns nt es s) (hs : step s t e = some s') :
    Sim js cb ns nt (es ++ [(t, e)]) s' := by
  have hreach : Reachable cb ns nt s := ⟨es, hr⟩
  have hDt := (inv_reachable hreach).dt
  have hPY := py_reachable hreach
  refine ⟨?_, ?_, ?_⟩
  · rw [hbTrace_snoc js hr hs, toHB]
    exact ti_step hS.ti (step_cs hs) (fun y hy => (xHB_free _ _ _ _ _ y hy).inert)
  · intro hd'
    have hd : s.dead = none := by
      rcases step_dead' hs with h1 | ⟨_, _, h3, _⟩
      · rw [← h1]; exact hd'
      · rw [h3] at hd'; cases hd'
    have hx : xHB js s t (s.stk t) e = [] := by
      apply Classical.byContradiction; intro hne
      rcases xHB_ne_nil hne with ⟨_, he⟩ | ⟨f, hf, hfx⟩
      · subst he
        rw [(callDtor_inv hs).2.2.2] at hd'; cases hd'
      · exact (hDt.pf t f hf).2.2 hfx hd
    rw [hbTrace_snoc js hr hs, toHB, hx, List.append_nil]
    exact ls_step (hS.live hd) hS.ti (step_cs hs)
  · intro d hd'
    rcases step_dead' hs with h1 | ⟨_, _, h3, _, h5⟩
    · rw [h1] at hd'
      obtain ⟨p, hp, ho⟩ := hS.dt d hd'
      have hpl := HB.lq_lt hp
      refine ⟨p, HB.lq_mono _ hp, ?_⟩
      rw [List.take_append_of_le_length (Nat.le_of_lt hpl), hbTrace_snoc js hr hs]
      apply ownedFrom_append ho
      by_cases htd : t = d
      · exact .inl htd
      · right
        rw [toHB_other hs hd' (hPY d hd' t htd)]
        intro x hx; simpa using hx
    · rw [h3] at hd'; injection hd' with hd'; subst hd'
      subst h5
      refine ⟨es.length, HB.lq_last _ _, ?_⟩
      rw [List.take_left' rfl, hbTrace_snoc js hr hs]
      exact ownedFrom_start _ _ _

theorem sim_run (js : List Tid) {cb : Bool} {ns nt : Nat} {es : List (Tid × Ev)} {s : St}
    (h : run cb ns nt es = some s) : Sim js cb ns nt es s := by
  induction es using HB.snoc_induction generalizing s with
  | h0 =>
    simp [run] at h; subst h
    exact sim_init js cb ns nt
  | hs es x ih =>
    obtain ⟨t, e⟩ := x
    simp only [run, runFrom_append] at h
    cases h1 : runFrom step (init cb ns nt) es with
    | none => simp [h1] at h
    | some s1 =>
      simp only [h1, Option.bind_some, runFrom_cons, runFrom_nil] at h
      cases h2 : step s1 t e with
      | none => simp [h2] at h
      | some s2 =>
        simp [h2] at h; subst h
        exact sim_step h1 (ih h1) h2

/-! ### every access of the mapped trace is an access to location 0 -/

theorem mem_hbFrom {js : List Tid} {s : St} {es : List (Tid × Ev)} {u : Tid} {x : HB.Ev}
    (h : (u, x) ∈ hbFrom js s es) : ∃ s1 s2 e, step s1 u e = some s2 ∧ x ∈ toHB js s1 u e := by
  induction es generalizing s with
  | nil => simp [hbFrom] at h
  | cons p es ih =>
    obtain ⟨t, e⟩ := p
    unfold hbFrom at h
    cases h2 : step s t e with
    | none => simp [h2] at h
    | some s2 =>
      simp only [h2] at h
      rcases List.mem_append.1 h with h | h
      · obtain ⟨h3, h4⟩ := mem_evs h
        subst h3
        exact ⟨s, s2, e, h2, h4⟩
      · exact ih h

theorem cs_loc {t : Tid} {l l' : Option Tid} {cs : List HB.Ev} (hc : CsShape t l l' cs) {x : HB.Ev} (hx : x ∈ cs)
    {y : HB.Loc} (ha : x.accesses y) : y = 0 := by
  have key : ∀ z, IsAcc z → z.accesses y → y = 0 := by
    intro z hz hzy
    rcases hz with hz | hz <;> subst hz <;> rcases hzy with h | h <;> cases h <;> rfl
  cases hc with
  | acq acc _ _ h3 =>
    rcases List.mem_cons.1 hx with hx | hx
    · subst hx; rcases ha with h | h <;> cases h
    · exact key x (h3 x hx) ha
  | rel pre _ _ h3 =>
    rcases List.mem_append.1 hx with hx | hx
    · exact key x (h3 x hx) ha
    · simp at hx; subst hx; rcases ha with h | h <;> cases h
  | nop _ => simp at hx; subst hx; rcases ha with h | h <;> cases h

theorem hbTrace_access {js : List Tid} {cb : Bool} {ns nt : Nat} {es : List (Tid × Ev)} {i : Nat} {t : Tid}
    {x : HB.Ev} {y : HB.Loc} (h : (hbTrace js cb ns nt es)[i]? = some (t, x)) (ha : x.accesses y) : y = 0 := by
  obtain ⟨s1, s2, e, hs, hx⟩ := mem_hbFrom (List.mem_of_getElem? h)
  unfold toHB at hx
  rcases List.mem_append.1 hx with hx | hx
  · exact cs_loc (step_cs hs) hx ha
  · rcases xHB_free _ _ _ _ _ x hx with h1 | h1 | ⟨u, h1⟩ <;> subst h1 <;> rcases ha with h | h <;> cases h <;> rfl

end ConcVerif.DD
