import ConcVerif.Proof.CowFrame
import ConcVerif.Proof.HBLRMain
import ConcVerif.Proof.HBEmbed
/-! cow_guarded and happens-before, part 1: the map from cow events to happens-before events, and the left-right
events each cow step delegates to the embedded left-right model (`Blk`): at most one of them carries
happens-before content, and it is the image of the cow event. -/
namespace ConcVerif.Cow
open ConcVerif.LR (Side)

/-- plain location of the payload of version `v` (0, 1 are the two `shared_ptr` copies of `m_data`) -/
def payLoc (v : Ver) : Nat := v + 2

/-- happens-before content of a cow event: the inner left-right events as in `LR.toHB` (inner write mutex = mutex 0), the
writer mutex `m_writeMutex` = mutex 1, the plain accesses of the two `shared_ptr` copies, the payload accesses.  A copy
construction reads its source and writes the new version: `pay` chooses which of the two is shown (the theorems hold for both). -/
def toHBc (o : LR.Ords) (pay : Bool) : Ev → HB.Ev
  | .lr e => LR.toHB o e
  | .olock => .acq 1 .X
  | .ounlock => .rel 1 .X
  | .ldPtr x _ => .rd (LR.copyLoc x)
  | .ldCtl x => .rd (LR.copyLoc x)
  | .stPtr x _ => .wr (LR.copyLoc x)
  | .stCtl x => .wr (LR.copyLoc x)
  | .pcp new src _ => if pay = true then .wr (payLoc new) else .rd (payLoc src)
  | .pwr v _ => .wr (payLoc v)
  | .prd v _ => .rd (payLoc v)
  | .pdt v => .wr (payLoc v)
  | _ => .nop

def hbTraceC (o : LR.Ords) (pay : Bool) (es : List (Tid × Ev)) : HB.Trace := es.map (fun p => (p.1, toHBc o pay p.2))

theorem hbTraceC_get {o : LR.Ords} {pay : Bool} {es : List (Tid × Ev)} {i : Nat} {t : Tid} {e : Ev}
    (h : es[i]? = some (t, e)) : (hbTraceC o pay es)[i]? = some (t, toHBc o pay e) := by simp [hbTraceC, h]

theorem hbTraceC_get_inv {o : LR.Ords} {pay : Bool} {es : List (Tid × Ev)} {i : Nat} {t : Tid} {he : HB.Ev}
    (h : (hbTraceC o pay es)[i]? = some (t, he)) : ∃ e, es[i]? = some (t, e) ∧ toHBc o pay e = he := by
  simp only [hbTraceC, List.getElem?_map] at h
  cases hk : es[i]? with
  | none => simp [hk] at h
  | some p =>
    obtain ⟨u, e⟩ := p
    simp [hk] at h
    exact ⟨e, by rw [h.1], h.2⟩

/-- the left-right events a cow step delegates -/
structure Blk (o : LR.Ords) (pay : Bool) (s : St) (t : Tid) (ce : Ev) (s' : St) (block : List LR.Ev) : Prop where
  run : LR.run s.lr (block.map (fun e => (t, e))) = some s'.lr
  img : ∀ e ∈ block, LR.toHB o e = .nop ∨ LR.toHB o e = toHBc o pay ce
  one : ∀ (i j : Nat) (e e' : LR.Ev), i < j → block[i]? = some e → block[j]? = some e' →
    LR.toHB o e = .nop ∨ LR.toHB o e' = .nop
  st : ∀ a od, toHBc o pay ce = .st a od → ∃ e ∈ block, LR.toHB o e = .st a od
  wr : ∀ x v, ce = .stPtr x v → LR.Ev.fBegin x ∈ block
  rd : ∀ x v, ce = .ldPtr x v → ∃ val, LR.Ev.rd x val ∈ block

variable {o : LR.Ords} {pay : Bool} {s s' : St} {t : Tid} {ce : Ev}

theorem blk_nil (hlr : s'.lr = s.lr) (h3 : ∀ a od, toHBc o pay ce ≠ .st a od) (h4 : ∀ x v, ce ≠ .stPtr x v)
    (h5 : ∀ x v, ce ≠ .ldPtr x v) : Blk o pay s t ce s' [] := by
  refine ⟨by simp [LR.run, hlr], ?_, ?_, ?_, ?_, ?_⟩
  · intro e he; simp at he
  · intro i j e e' _ h; simp at h
  · intro a od h; exact absurd h (h3 a od)
  · intro x v h; exact absurd h (h4 x v)
  · intro x v h; exact absurd h (h5 x v)

theorem blk_one {e' : LR.Ev} {l : LR.St} (hl : LR.step s.lr t e' = some l) (hlr : s'.lr = l)
    (h1 : LR.toHB o e' = .nop ∨ LR.toHB o e' = toHBc o pay ce)
    (h3 : ∀ a od, toHBc o pay ce = .st a od → LR.toHB o e' = .st a od) (h4 : ∀ x v, ce = .stPtr x v → e' = .fBegin x)
    (h5 : ∀ x v, ce = .ldPtr x v → ∃ val, e' = .rd x val) : Blk o pay s t ce s' [e'] := by
  refine ⟨by simp [LR.run, runFrom_cons, hl, hlr], ?_, ?_, ?_, ?_, ?_⟩
  · intro e he; simp at he; subst he; exact h1
  · intro i j e e1 hij hi hj
    have := HB.lq_lt hj
    have := HB.lq_lt hi
    simp at *; omega
  · intro a od h; exact ⟨e', by simp, h3 a od h⟩
  · intro x v h; rw [h4 x v h]; simp
  · intro x v h; obtain ⟨val, hv⟩ := h5 x v h; exact ⟨val, by rw [hv]; simp⟩

theorem blk_got {k : Nat} {x : Side} {l : LR.St} (hl : lrGot s t k x = some l) (hlr : s'.lr = l) (hce : ce = .lr (.ldRL x)) :
    Blk o pay s t ce s' [.ldRL x, .ret (.ls k)] := by
  simp only [lrGot, Option.bind_eq_some_iff] at hl
  obtain ⟨l1, h1, h2⟩ := hl
  subst hce
  refine ⟨by simp [LR.run, runFrom_cons, h1, h2, hlr], ?_, ?_, ?_, ?_, ?_⟩
  · intro e he; simp at he
    rcases he with he | he <;> subst he <;> simp [LR.toHB, toHBc]
  · intro i j e e1 hij hi hj
    have hjl := HB.lq_lt hj
    simp at hjl
    have : j = 1 := by omega
    subst this; simp at hj; subst hj; right; simp [LR.toHB]
  · intro a od h; simp [toHBc, LR.toHB] at h
  · intro x v h; cases h
  · intro x v h; cases h

theorem blk_rel {c : Side} {old : Nat} {l : LR.St} (hl : lrRel s t c old = some l) (hlr : s'.lr = l)
    (hce : ce = .lr (.dec c old)) : Blk o pay s t ce s' [.call .rel, .dec c old, .ret .rel] := by
  simp only [lrRel, Option.bind_eq_some_iff] at hl
  obtain ⟨l2, ⟨l1, h1, h2⟩, h3⟩ := hl
  subst hce
  refine ⟨by simp [LR.run, runFrom_cons, h1, h2, h3, hlr], ?_, ?_, ?_, ?_, ?_⟩
  · intro e he; simp at he
    rcases he with he | he | he <;> subst he <;> simp [LR.toHB, toHBc]
  · intro i j e e1 hij hi hj
    have hjl := HB.lq_lt hj
    simp at hjl
    have hcases : (i = 0) ∨ (j = 2) := by omega
    rcases hcases with h | h
    · subst h; simp at hi; subst hi; left; simp [LR.toHB]
    · subst h; simp at hj; subst hj; right; simp [LR.toHB]
  · intro a od h; simp [toHBc, LR.toHB] at h
  · intro x v h; cases h
  · intro x v h; cases h

theorem blk_rd {x : Side} {l : LR.St} (hl : lrRd s t x = some l) (hlr : s'.lr = l)
    (hce : toHBc o pay ce = .rd (LR.copyLoc x)) (h4 : ∀ y v, ce ≠ .stPtr y v) (h5 : ∀ y v, ce = .ldPtr y v → y = x) :
    Blk o pay s t ce s' [.rd x (s.lr.val x)] := by
  refine blk_one (e' := .rd x (s.lr.val x)) hl hlr (.inr (by simp [LR.toHB, hce])) ?_ ?_ ?_
  · intro a od h; rw [hce] at h; cases h
  · intro y v h; exact absurd h (h4 y v)
  · intro y v h; exact ⟨_, by rw [h5 y v h]⟩

end ConcVerif.Cow
