import ConcVerif.Proof.HBRcuSafe3
/-! rcu_list and happens-before, part 15 (state level): linking a node, ending a read section, taking a
record off the log, leaving the reclaim phase. -/
namespace ConcVerif.Rcu

/-- a node enters `order` when the holder of the write mutex links it -/
theorem link_facts {s s' : St} {t : Tid} {e : Ev} {d : Nat} (hi : Inv s) (hS : Step s t e s') (hnd : inDtor (s.pc t) = false)
    (h1 : d ∉ s.order) (h2 : d ∈ s'.order) : s.wmtx = some t ∧ d ∈ s'.lst ∧ s'.hnd = s.hnd ∧ s'.log = s.log := by
  have wm : holdsW (s.pc t) = true → s.wmtx = some t := fun h => (hi.a.wm t).1 h
  cases hS <;> first | exact absurd h2 h1 | (exfalso; simp at h2; exact h1 h2) | no_dtor | skip
  case pE1 k n o hpc ho =>
    simp only [setPc_order, List.mem_cons] at h2
    rcases h2 with h2 | h2
    · subst h2; exact ⟨wm (by simp [hpc, holdsW]), by simp, rfl, rfl⟩
    · exact absurd h2 h1
  case pF3 k n o hpc ho =>
    simp only [setPc_order, List.mem_cons] at h2
    rcases h2 with h2 | h2
    · subst h2; exact ⟨wm (by simp [hpc, holdsW]), by simp, rfl, rfl⟩
    · exact absurd h2 h1
  case pB2 k n h0 o hpc ho =>
    simp only [setPc_order, List.mem_append, List.mem_singleton] at h2
    rcases h2 with h2 | h2
    · exact absurd h2 h1
    · subst h2; exact ⟨wm (by simp [hpc, holdsW]), by simp, rfl, rfl⟩

/-- a registration ends only by the store that clears `owner` of the thread's record -/
theorem unreg_cases {s s' : St} {t : Tid} {e : Ev} {v : Tid} {b : Bool} {x : Nat} (hi : Inv s) (hS : Step s t e s')
    (hnd : inDtor (s.pc t) = false) (h1 : s.hnd v = .reg b x) (h2 : s'.hnd v ≠ .reg b x) :
    v = t ∧ (∃ o, e = .ast (.rowner x) o none) ∧ s'.log = s.log ∧ s'.lst = s.lst := by
  have hok := hi.a.hok t
  have hvt : s'.hnd = upd s.hnd t (s'.hnd t) → v = t := by
    intro h
    apply Classical.byContradiction
    intro hc
    apply h2; rw [h, upd_other _ _ _ _ hc]; exact h1
  cases hS <;> first | exact absurd h1 h2 | (exfalso; apply h2; simpa using h1) | no_dtor | skip
  case retLock w hpc hd =>
    exfalso
    have := hvt (by simp); subst this
    rw [hpc, h1] at hok; simp [hndOk, hcls, Hnd.isNone] at hok
  case casRegOk k r o hpc ho =>
    exfalso
    have := hvt (by simp); subst this
    rw [hpc, h1] at hok; simp [hndOk, hcls, Hnd.isFresh] at hok
  case uClear r o hpc ho =>
    have := hvt (by simp); subst this
    obtain ⟨w, hw⟩ := hi.a.myr v r (by simp [hpc, myRec])
    rw [hw] at h1; injection h1 with _ h1; subst h1
    exact ⟨rfl, ⟨o, rfl⟩, rfl, rfl⟩

/-- how a step changes the log; a record is taken off by a thread that has scanned it -/
theorem take_cases {s s' : St} {t : Tid} {e : Ev} (hi : Inv s) (hS : Step s t e s') (hnd : inDtor (s.pc t) = false) :
    s'.log = s.log ∨
    (∃ r, s'.log = r :: s.log ∧ privRec (BView (s.pc t)) = some r) ∨
    (∃ a m, myRec (s.pc t) = some a ∧ (Below s.log a).head? = some m ∧ s'.log = s.log.erase m ∧ Scanned s t m ∧
      s'.pc t = reapPc a (some m) ∧ s'.recs = s.recs ∧ s'.lst = s.lst ∧ (∀ f o v, e ≠ .ast f o v) ∧
      (∀ o x y ok z, e ≠ .cas o x y ok z) ∧ s'.hnd = s.hnd) := by
  have hnodup := hi.b.logNd
  simp only [bview_log] at hnodup
  have hsc := hi.b.scan t
  have hre := hi.b.reap t
  simp only [bview_vpc] at hsc hre
  cases hS <;> first | (left; rfl) | (left; simp; done) | no_dtor | skip
  case casRegOk k r o hpc ho => exact .inr (.inl ⟨r, rfl, by simp [hpc, BView, privRec]⟩)
  case casEraseOk orig r o hpc ho => exact .inr (.inl ⟨r, rfl, by simp [hpc, BView, privRec]⟩)
  case uNextNone r cached m' o hpc ho hv =>
    cases cached with
    | none => left; rfl
    | some m =>
      right; right
      rw [hpc] at hsc; simp only [BView, ScanP, bview_log, bview_recs] at hsc
      have hml := mem_of_mem_below hsc.1
      have hhd : (Below s.log m').head? = none := by rw [← next_is_head hi hml hsc.2.2.1]; exact hv
      have hm := head_mem_below hsc.2.1.symm
      refine ⟨r, m, by simp [hpc, myRec], hsc.2.1.symm, rfl, ?_, by simp [reapAt_pc], by simp, by simp, by simp, by simp, by simp⟩
      refine .inr (.inl ⟨r, some m, m', hpc, hm, ?_⟩)
      by_cases hxm : m = m'
      · exact .inl hxm
      · right
        rcases below_total (mem_of_mem_below hm) hml hxm with h4 | h4
        · exfalso
          have : Below s.log m' = [] := List.head?_eq_none_iff.1 hhd
          rw [this] at h4; simp at h4
        · exact h4
  case rFreZ r m' nx hpc =>
    cases nx with
    | none => left; rfl
    | some m =>
      right; right
      rw [hpc] at hre; simp only [BView, ReapP, bview_log] at hre
      have hm := head_mem_below hre.2.2.symm
      exact ⟨r, m, by simp [hpc, myRec], hre.2.2.symm, rfl, .inr (.inr ⟨r, by simp [hpc, BView, reaper], hm⟩),
        by simp [reapAt_pc], by simp, by simp, by simp, by simp, by simp⟩

/-- a reclaimer stays in the reclaim phase until it has nothing left below its record -/
theorem reaper_step {s s' : St} {t : Tid} {e : Ev} (hS : Step s t e s') (hnd : inDtor (s.pc t) = false) {u : Tid} {a : Nat}
    (h : reaper (BView (s.pc u)) = some a) :
    reaper (BView (s'.pc u)) = some a ∨
      (u = t ∧ s.pc t = .uTrunc a ∧ s'.log = s.log ∧ s'.hnd = s.hnd ∧ (∃ o v, e = .ast (.rnext a) o v)) := by
  by_cases hu : u = t
  · subst hu
    cases hS <;> first | exact .inl h | no_dtor | skip
    case uTrunc r o hpc ho =>
      simp [hpc, BView, reaper] at h; subst h
      exact .inr ⟨rfl, hpc, rfl, rfl, o, none, rfl⟩
    all_goals first
      | (exfalso; simp [*, BView, reaper] at h; done)
      | (left; rw [reapAt_pc, upd_same, reaper_reapPc]; simp [*, BView, reaper] at h; rw [h])
      | (left; simp [*, BView, reaper] at h ⊢; exact h)
  · left; rw [pc_frame hS hnd hu]; exact h

/-- the steps of a reclaimer leave the `zombie_node` fields alone -/
theorem zn_reaper {s s' : St} {t : Tid} {e : Ev} (hS : Step s t e s') {a : Nat} (h : reaper (BView (s.pc t)) = some a)
    (z : Nat) : (s'.recs z).znode = (s.recs z).znode := by
  cases hS <;> first | rfl | (simp; done) | (exfalso; simp [*, BView, reaper] at h; done) | skip
  case uTrunc r o hpc ho =>
    simp only [setPc_recs, setRNext_recs, upd_apply]
    split
    · rename_i hc; subst hc; rfl
    · rfl

end ConcVerif.Rcu
