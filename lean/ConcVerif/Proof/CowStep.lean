import ConcVerif.Proof.Cow
/-! The three invariant layers of the cow model are preserved by every step.  `inv_move` covers the steps that only move
the stepping thread (possibly through delegated LR steps that leave the values, `committed` and the mutexes alone); the
steps that change the heap, the chain or a mutex are treated one by one; `inv_step` then goes through the pcs. -/
namespace ConcVerif.Cow
open ConcVerif.LR (lk LK Side)

structure Inv (s : St) : Prop where
  l : LInv s
  h : HInv s
  c : ChInv s

theorem inv_init (b : Bool) : Inv (init b) := ⟨linv_init b, hinv_init b, chinv_init b⟩

/-- a step that only moves thread `t` -/
theorem inv_move {s s' : St} {t : Tid} {p' : Pc} (hi : Inv s)
    (hd : LR.Deleg s.lr s'.lr t) (hsm : LR.Same s.lr s'.lr) (hpc : s'.pc = upd s.pc t p')
    (hwm : s'.wm = s.wm) (hdet : s'.det = s.det) (ha : s'.alloc = s.alloc) (hdd : s'.dead = s.dead)
    (hpar : s'.parent = s.parent)
    (hsn : ∀ u w, (u, w) ∈ s'.snaps → (u, w) ∈ s.snaps ∨ (s.pub w ∧ w ∉ s.dead)) (hrel : s'.released = s.released)
    (hl : lk (s'.lr.pc t) = p'.cls) (hholds : p'.holds = (s.pc t).holds)
    (hwr : (s.lr.pc t).writing = none ∨ (s'.lr.pc t).writing = (s.lr.pc t).writing)
    (hown : p'.own = (s.pc t).own ∨ p'.own = none) (hdr : ∀ v n, p' = .dr v n → s.pub v)
    (hcarry : p'.carry = (s.pc t).carry ∨ p'.carry = none) (hpend : p'.pend = (s.pc t).pend)
    (hsrc : ∀ v, p' = .lkH (some v) → v = cur s.lr.committed) (hU : ∀ v, p' = .relU v → s.pc t = .relU v) : Inv s' := by
  refine ⟨?_, ?_, ?_⟩
  · refine linv_frame hi.l hd hpc hl (by rw [hwm]; exact wm_same hi.l hholds rfl) (det_same hi.l hd hdet ?_)
    intro x hx
    rcases hwr with h1 | h1
    · rw [h1] at hx; cases hx
    · rw [h1]; exact hx
  · exact hinv_frame hi.h hpc hsm.valL hsm.valR (fun x hx => by rw [← hdet]; exact hx) ha hdd
      hsn hown hdr
  · exact chinv_frame hi.c hpc (fun v hv => (pub_congr hsm.valL hsm.valR v).mpr hv) hsm.committed hpar hrel hwm hcarry hpend
      hsrc hU

/-- ... without touching the LR state at all -/
theorem inv_move_nolr {s : St} {t : Tid} {p' : Pc} (hi : Inv s)
    (hcls : p'.cls = (s.pc t).cls) (hholds : p'.holds = (s.pc t).holds)
    (hown : p'.own = (s.pc t).own ∨ p'.own = none) (hdr : ∀ v n, p' = .dr v n → s.pub v)
    (hcarry : p'.carry = (s.pc t).carry ∨ p'.carry = none) (hpend : p'.pend = (s.pc t).pend)
    (hsrc : ∀ v, p' = .lkH (some v) → v = cur s.lr.committed) (hU : ∀ v, p' = .relU v → s.pc t = .relU v) :
    Inv (s.setPc t p') :=
  inv_move hi (LR.Deleg.refl _ _) (LR.Same.refl _) rfl rfl rfl rfl rfl rfl (fun _ _ h => Or.inl h) rfl
    (by rw [hcls]; exact hi.l.link t) hholds (Or.inr rfl) hown hdr hcarry hpend hsrc hU

/-! ### chain layer: steps that change a mutex, `released`, the published set -/

/-- `committed` and `parent` untouched; the published set may grow; what `t` carries it carried before; the obligations
about `released` are left to the caller -/
theorem chinv_gen {s s' : St} {t : Tid} {p' : Pc} (h : ChInv s) (hpc : s'.pc = upd s.pc t p')
    (hpub : ∀ v, s.pub v → s'.pub v) (hc : s'.lr.committed = s.lr.committed) (hpar : s'.parent = s.parent)
    (hcarry : p'.carry = (s.pc t).carry ∨ p'.carry = none)
    (hsrc : ∀ v, p' = .lkH (some v) → v = cur s.lr.committed)
    (hU : ∀ u v, s'.pc u = .relU v → v ∈ s'.released)
    (hrel : ∀ u, s'.wm = some u → s'.lr.committed = s'.released ++ ((s'.pc u).pend).toList)
    (hrel0 : s'.wm = none → s'.lr.committed = s'.released) : ChInv s' := by
  refine ⟨?_, ?_, ?_, ?_, hrel, hrel0, hU⟩
  · rw [hpar, hc]; exact h.chain
  · intro v hv; rw [hc] at hv; exact hpub v (h.comPub v hv)
  · intro u v hu
    rw [hpar, hc]
    rw [hpc, upd_apply] at hu
    by_cases hut : u = t
    · subst hut
      simp only [if_true] at hu
      rcases hcarry with h1 | h1
      · exact h.top u v (by rw [← h1]; exact hu)
      · rw [h1] at hu; simp at hu
    · simp only [hut, if_false] at hu; exact h.top u v hu
  · intro u v hu
    rw [hc]
    rw [hpc, upd_apply] at hu
    by_cases hut : u = t
    · subst hut; simp only [if_true] at hu; exact hsrc v hu
    · simp only [hut, if_false] at hu; exact h.src u v hu

/-- `relU` obligations when `released` only grows and `t` does not enter `relU` -/
theorem relU_keep {s s' : St} {t : Tid} {p' : Pc} (h : ChInv s) (hpc : s'.pc = upd s.pc t p')
    (hsub : ∀ v, v ∈ s.released → v ∈ s'.released) (hp : ∀ v, p' = .relU v → v ∈ s'.released) :
    ∀ u v, s'.pc u = .relU v → v ∈ s'.released := by
  intro u v hu
  rw [hpc, upd_apply] at hu
  by_cases hut : u = t
  · subst hut; simp only [if_true] at hu; exact hp v hu
  · simp only [hut, if_false] at hu; exact hsub v (h.relU u v hu)

/-- the writer mutex is taken by `t` (which then has nothing pending) -/
theorem chinv_lock {s s' : St} {t : Tid} {p' : Pc} (h : ChInv s) (hpc : s'.pc = upd s.pc t p')
    (hsm : LR.Same s.lr s'.lr) (hpar : s'.parent = s.parent) (hrl : s'.released = s.released)
    (hw0 : s.wm = none) (hw : s'.wm = some t) (hc : p'.carry = none) (hpd : p'.pend = none)
    (hsrc : ∀ v, p' ≠ .lkH (some v)) (hU : ∀ v, p' ≠ .relU v) : ChInv s' := by
  refine chinv_gen h hpc (fun v hv => (pub_congr hsm.valL hsm.valR v).mpr hv) hsm.committed hpar (Or.inr hc)
    (fun v hv => absurd hv (hsrc v)) (relU_keep h hpc (fun v hv => by rw [hrl]; exact hv) (fun v hv => absurd hv (hU v))) ?_ ?_
  · intro u hu
    rw [hw] at hu
    injection hu with hu
    subst hu
    rw [hpc, upd_same, hpd, hsm.committed, hrl, h.rel0 hw0]; simp
  · intro h0; rw [hw] at h0; cases h0

/-- the writer mutex is released by `t`, which had nothing pending -/
theorem chinv_unlock {s s' : St} {t : Tid} {p' : Pc} (h : ChInv s) (hpc : s'.pc = upd s.pc t p')
    (hsm : LR.Same s.lr s'.lr) (hpar : s'.parent = s.parent) (hrl : s'.released = s.released)
    (hw0 : s.wm = some t) (hw : s'.wm = none) (hc : p'.carry = none) (hpd : (s.pc t).pend = none)
    (hsrc : ∀ v, p' ≠ .lkH (some v)) (hU : ∀ v, p' ≠ .relU v) : ChInv s' := by
  refine chinv_gen h hpc (fun v hv => (pub_congr hsm.valL hsm.valR v).mpr hv) hsm.committed hpar (Or.inr hc)
    (fun v hv => absurd hv (hsrc v)) (relU_keep h hpc (fun v hv => by rw [hrl]; exact hv) (fun v hv => absurd hv (hU v))) ?_ ?_
  · intro u hu; rw [hw] at hu; cases hu
  · intro _
    have := h.rel t hw0
    rw [hpd] at this
    rw [hsm.committed, hrl, this]; simp

/-- release: the writer mutex is released by `t` whose publication of `v` was pending -/
theorem chinv_unlock_rel {s s' : St} {t : Tid} {v : Ver} (h : ChInv s) (hpc : s'.pc = upd s.pc t (.relU v))
    (hsm : LR.Same s.lr s'.lr) (hpar : s'.parent = s.parent) (hrl : s'.released = s.released ++ [v])
    (hw0 : s.wm = some t) (hw : s'.wm = none) (hpd : (s.pc t).pend = some v) : ChInv s' := by
  refine chinv_gen h hpc (fun v hv => (pub_congr hsm.valL hsm.valR v).mpr hv) hsm.committed hpar (Or.inr rfl)
    (fun w hw => by cases hw)
    (relU_keep h hpc (fun w hw => by rw [hrl]; exact List.mem_append_left _ hw)
      (fun w hw => by injection hw with hw; subst hw; rw [hrl]; simp)) ?_ ?_
  · intro u hu; rw [hw] at hu; cases hu
  · intro _
    have := h.rel t hw0
    rw [hpd] at this
    rw [hsm.committed, hrl, this]; simp

/-! ### heap layer: destruction, construction, publication -/

/-- version `o` is destroyed: it is allocated, no snapshot names it, no attached side points to it, and no thread owns it
afterwards -/
theorem hinv_kill {s s' : St} {t : Tid} {p' : Pc} {o : Ver} (h : HInv s) (hpc : s'.pc = upd s.pc t p')
    (hL : s'.lr.valL = s.lr.valL) (hR : s'.lr.valR = s.lr.valR) (hdet : s'.det = s.det)
    (ha : s'.alloc = s.alloc) (hdd : s'.dead = o :: s.dead) (hsn : s'.snaps = s.snaps)
    (hoa : o ∈ s.alloc) (hos : ∀ u, (u, o) ∉ s.snaps) (hox : ∀ x, s.det ≠ some x → s.sv x ≠ o)
    (hown : ∀ u v, (s'.pc u).own = some v → (s.pc u).own = some v ∧ v ≠ o)
    (hdr : ∀ v n, p' = .dr v n → s.pub v) : HInv s' := by
  have hpub := pub_congr hL hR
  have hsv := sv_congr hL hR
  refine ⟨?_, ?_, ?_, ?_, ?_, ?_, ?_⟩
  · intro v hv; rw [ha]; exact h.pubAlloc v ((hpub v).mp hv)
  · intro v hv
    rw [ha]; rw [hdd] at hv
    rcases List.mem_cons.mp hv with h1 | h1
    · subst h1; exact hoa
    · exact h.deadAlloc v h1
  · intro u v hv
    rw [hsn] at hv
    rw [hpub, hdd]
    refine ⟨(h.snapsOk u v hv).1, ?_⟩
    intro hm
    rcases List.mem_cons.mp hm with h1 | h1
    · subst h1; exact hos u hv
    · exact (h.snapsOk u v hv).2 h1
  · intro x hx
    rw [hdet] at hx
    rw [hsv, hdd]
    intro hm
    rcases List.mem_cons.mp hm with h1 | h1
    · exact hox x hx h1
    · exact h.sidesOk x hx h1
  · intro u v hv
    obtain ⟨h1, h2⟩ := hown u v hv
    obtain ⟨a1, a2, a3⟩ := h.ownOk u v h1
    rw [ha, hdd, hpub]
    refine ⟨a1, ?_, a3⟩
    intro hm
    rcases List.mem_cons.mp hm with h3 | h3
    · exact h2 h3
    · exact a2 h3
  · intro a b v hab ha' hb'
    exact h.ownUniq a b v hab (hown a v ha').1 (hown b v hb').1
  · intro u v n hu
    rw [hpub]
    rw [hpc, upd_apply] at hu
    by_cases hut : u = t
    · subst hut; simp only [if_true] at hu; exact hdr v n hu
    · simp only [hut, if_false] at hu; exact h.drPub u v n hu

/-- a fresh version `new` is constructed and owned by `t` -/
theorem hinv_pcp {s s' : St} {t : Tid} {new : Ver} (h : HInv s) (hpc : s'.pc = upd s.pc t (.lkC new))
    (hL : s'.lr.valL = s.lr.valL) (hR : s'.lr.valR = s.lr.valR) (hdet : s'.det = s.det)
    (ha : s'.alloc = new :: s.alloc) (hdd : s'.dead = s.dead) (hsn : s'.snaps = s.snaps)
    (hnew : new ∉ s.alloc) (hold : (s.pc t).own = none) : HInv s' := by
  have hpub := pub_congr hL hR
  have hsv := sv_congr hL hR
  have hown : ∀ u v, (s'.pc u).own = some v → (u = t ∧ v = new) ∨ (u ≠ t ∧ (s.pc u).own = some v) := by
    intro u v hu
    rw [hpc, upd_apply] at hu
    by_cases hut : u = t
    · subst hut; simp only [if_true, Pc.own] at hu; injection hu with hu; exact Or.inl ⟨rfl, hu.symm⟩
    · simp only [hut, if_false] at hu; exact Or.inr ⟨hut, hu⟩
  refine ⟨?_, ?_, ?_, ?_, ?_, ?_, ?_⟩
  · intro v hv; rw [ha]; exact List.mem_cons_of_mem _ (h.pubAlloc v ((hpub v).mp hv))
  · intro v hv; rw [ha]; rw [hdd] at hv; exact List.mem_cons_of_mem _ (h.deadAlloc v hv)
  · intro u v hv; rw [hsn] at hv; rw [hpub, hdd]; exact h.snapsOk u v hv
  · intro x hx; rw [hdet] at hx; rw [hsv, hdd]; exact h.sidesOk x hx
  · intro u v hv
    rw [ha, hdd, hpub]
    rcases hown u v hv with ⟨_, rfl⟩ | ⟨_, h1⟩
    · exact ⟨by simp, fun hm => hnew (h.deadAlloc _ hm), fun hp => hnew (h.pubAlloc _ hp)⟩
    · obtain ⟨a1, a2, a3⟩ := h.ownOk u v h1
      exact ⟨List.mem_cons_of_mem _ a1, a2, a3⟩
  · intro a b v hab ha' hb'
    rcases hown a v ha' with ⟨rfl, rfl⟩ | ⟨hat, h1⟩
    · rcases hown b v hb' with ⟨rfl, _⟩ | ⟨_, h2⟩
      · exact hab rfl
      · exact hnew (h.ownOk b v h2).1
    · rcases hown b v hb' with ⟨rfl, rfl⟩ | ⟨_, h2⟩
      · exact hnew (h.ownOk a v h1).1
      · exact h.ownUniq a b v hab h1 h2
  · intro u v n hu
    rw [hpub]
    rw [hpc, upd_apply] at hu
    by_cases hut : u = t
    · subst hut; simp only [if_true] at hu; cases hu
    · simp only [hut, if_false] at hu; exact h.drPub u v n hu

theorem pub_after_install {s s' : St} {x : Side} {v : Ver} (hx : s'.lr.val x = s.lr.val x ++ [v])
    (hy : s'.lr.val x.flip = s.lr.val x.flip) (w : Ver) : s'.pub w ↔ s.pub w ∨ w = v := by
  cases x
  · have h1 : s'.lr.valL = s.lr.valL ++ [v] := hx
    have h2 : s'.lr.valR = s.lr.valR := hy
    simp only [St.pub, h1, h2, List.mem_append, List.mem_singleton]
    constructor
    · rintro (h | (h | h) | h) <;> simp [h]
    · rintro ((h | h | h) | h) <;> simp [h]
  · have h1 : s'.lr.valR = s.lr.valR ++ [v] := hx
    have h2 : s'.lr.valL = s.lr.valL := hy
    simp only [St.pub, h1, h2, List.mem_append, List.mem_singleton]
    constructor
    · rintro (h | h | (h | h)) <;> simp [h]
    · rintro ((h | h | h) | h) <;> simp [h]

/-- the assignment window on side `x` is closed: `x` now points to `v` (allocated, alive, owned by nobody afterwards) -/
theorem hinv_install {s s' : St} {t : Tid} {p' : Pc} {x : Side} {v : Ver} (h : HInv s) (hpc : s'.pc = upd s.pc t p')
    (hx : s'.lr.val x = s.lr.val x ++ [v]) (hy : s'.lr.val x.flip = s.lr.val x.flip)
    (hd : s.det = some x) (ha : s'.alloc = s.alloc) (hdd : s'.dead = s.dead)
    (hsn : s'.snaps = s.snaps) (hva : v ∈ s.alloc) (hvd : v ∉ s.dead)
    (hown : ∀ u w, (s'.pc u).own = some w → (s.pc u).own = some w ∧ w ≠ v)
    (hdr : ∀ w n, p' = .dr w n → s.pub w) : HInv s' := by
  have hpub := pub_after_install hx hy
  refine ⟨?_, ?_, ?_, ?_, ?_, ?_, ?_⟩
  · intro w hw
    rw [ha]
    rcases (hpub w).mp hw with h1 | h1
    · exact h.pubAlloc w h1
    · subst h1; exact hva
  · intro w hw; rw [ha]; rw [hdd] at hw; exact h.deadAlloc w hw
  · intro u w hw
    rw [hsn] at hw
    rw [hdd]
    exact ⟨(hpub w).mpr (Or.inl (h.snapsOk u w hw).1), (h.snapsOk u w hw).2⟩
  · intro y _
    rw [hdd]
    by_cases hyx : y = x
    · subst hyx
      have : s'.sv y = v := by simp [St.sv, hx]
      rw [this]; exact hvd
    · have hyf : y = x.flip := LR.side_ne_iff.mp hyx
      subst hyf
      have : s'.sv x.flip = s.sv x.flip := by simp [St.sv, hy]
      rw [this]
      exact h.sidesOk x.flip (by rw [hd]; intro hc; injection hc with hc; exact hyx hc.symm)
  · intro u w hw
    obtain ⟨h1, h2⟩ := hown u w hw
    obtain ⟨a1, a2, a3⟩ := h.ownOk u w h1
    rw [ha, hdd]
    refine ⟨a1, a2, ?_⟩
    intro hp
    rcases (hpub w).mp hp with h3 | h3
    · exact a3 h3
    · exact h2 h3
  · intro a b w hab ha' hb'
    exact h.ownUniq a b w hab (hown a w ha').1 (hown b w hb').1
  · intro u w n hu
    rw [hpub]
    left
    rw [hpc, upd_apply] at hu
    by_cases hut : u = t
    · subst hut; simp only [if_true] at hu; exact hdr w n hu
    · simp only [hut, if_false] at hu; exact h.drPub u w n hu

/-- the flip of `rl` commits `v`: the holder carried it on top of `committed` -/
theorem chinv_commit {s s' : St} {t : Tid} {v : Ver} (h : ChInv s) (hl : LInv s)
    (hp : s.pc t = .relB v false) (hpc : s'.pc = upd s.pc t (.relB v true))
    (hL : s'.lr.valL = s.lr.valL) (hR : s'.lr.valR = s.lr.valR) (hc : s'.lr.committed = s.lr.committed ++ [v])
    (hpar : s'.parent = s.parent) (hrl : s'.released = s.released) (hwm : s'.wm = s.wm) (hv : s.pub v) : ChInv s' := by
  have hpub := pub_congr hL hR
  have hw : s.wm = some t := (hl.wmh t).mp (by rw [hp]; rfl)
  have hoth : ∀ u, u ≠ t → (s.pc u).holds = false := fun u hu => only_holder hl hw hu
  refine ⟨?_, ?_, ?_, ?_, ?_, ?_, ?_⟩
  · rw [hpar, hc, chain_append, ← cur_eq_lastFrom]
    exact ⟨h.chain, h.top t v (by rw [hp]; rfl)⟩
  · intro w hw'
    rw [hc] at hw'
    rw [hpub]
    rcases List.mem_append.mp hw' with h1 | h1
    · exact h.comPub w h1
    · simp at h1; subst h1; exact hv
  · intro u w hu
    rw [hpc, upd_apply] at hu
    by_cases hut : u = t
    · subst hut; simp [Pc.carry] at hu
    · simp only [hut, if_false] at hu
      have := carry_holds hu
      rw [hoth u hut] at this; cases this
  · intro u w hu
    rw [hpc, upd_apply] at hu
    by_cases hut : u = t
    · subst hut; simp at hu
    · simp only [hut, if_false] at hu
      have := hoth u hut
      rw [hu] at this; cases this
  · intro u hu
    rw [hwm, hw] at hu
    injection hu with hu
    subst hu
    have := h.rel t hw
    rw [hp] at this
    rw [hpc, upd_same, hc, hrl, this]; simp [Pc.pend]
  · intro h0; rw [hwm, hw] at h0; cases h0
  · exact relU_keep h hpc (fun w hw' => by rw [hrl]; exact hw') (fun w hw' => by cases hw')

/-- the writer-mutex holder copies `src` (the latest committed version) into the fresh version `new` -/
theorem chinv_pcp {s s' : St} {t : Tid} {new src : Ver} (h : ChInv s) (hl : LInv s) (hh : HInv s)
    (hp : s.pc t = .lkH (some src)) (hpc : s'.pc = upd s.pc t (.lkC new))
    (hL : s'.lr.valL = s.lr.valL) (hR : s'.lr.valR = s.lr.valR) (hc : s'.lr.committed = s.lr.committed)
    (hpar : s'.parent = fun w => if w = new then src else s.parent w) (hrl : s'.released = s.released)
    (hwm : s'.wm = s.wm) (hnew : new ∉ s.alloc) : ChInv s' := by
  have hpub := pub_congr hL hR
  have hw : s.wm = some t := (hl.wmh t).mp (by rw [hp]; rfl)
  have hoth : ∀ u, u ≠ t → (s.pc u).holds = false := fun u hu => only_holder hl hw hu
  refine ⟨?_, ?_, ?_, ?_, ?_, ?_, ?_⟩
  · rw [hc]
    refine h.chain.congr ?_
    intro v hv
    have : v ≠ new := fun e => hnew (e ▸ hh.pubAlloc v (h.comPub v hv))
    simp [hpar, this]
  · intro v hv; rw [hc] at hv; rw [hpub]; exact h.comPub v hv
  · intro u w hu
    rw [hpc, upd_apply] at hu
    by_cases hut : u = t
    · subst hut
      simp only [if_true, Pc.carry] at hu
      injection hu with hu
      subst hu
      rw [hc, hpar]; simp only [if_true]
      exact h.src u src hp
    · simp only [hut, if_false] at hu
      have := carry_holds hu
      rw [hoth u hut] at this; cases this
  · intro u w hu
    rw [hpc, upd_apply] at hu
    by_cases hut : u = t
    · subst hut; simp at hu
    · simp only [hut, if_false] at hu
      have := hoth u hut
      rw [hu] at this; cases this
  · intro u hu
    rw [hwm, hw] at hu
    injection hu with hu
    subst hu
    have := h.rel t hw
    rw [hp] at this
    rw [hpc, upd_same, hc, hrl, this]; simp [Pc.pend]
  · intro h0; rw [hwm, hw] at h0; cases h0
  · exact relU_keep h hpc (fun w hw' => by rw [hrl]; exact hw') (fun w hw' => by cases hw')

/-! ### composite frame lemmas for the mutex steps and for destruction -/

/-- `t` takes the writer mutex (with delegated LR steps that leave values and `committed` alone) -/
theorem inv_lock {s s' : St} {t : Tid} {p' : Pc} (hi : Inv s)
    (hd : LR.Deleg s.lr s'.lr t) (hsm : LR.Same s.lr s'.lr) (hpc : s'.pc = upd s.pc t p')
    (hw0 : s.wm = none) (hw : s'.wm = some t) (hdet : s'.det = s.det) (ha : s'.alloc = s.alloc) (hdd : s'.dead = s.dead)
    (hpar : s'.parent = s.parent) (hsn : s'.snaps = s.snaps) (hrel : s'.released = s.released)
    (hl : lk (s'.lr.pc t) = p'.cls) (hholds : p'.holds = true) (hwr : (s.lr.pc t).writing = none)
    (hown : p'.own = none) (hdr : ∀ v n, p' ≠ .dr v n) (hc : p'.carry = none) (hpd : p'.pend = none)
    (hsrc : ∀ v, p' ≠ .lkH (some v)) (hU : ∀ v, p' ≠ .relU v) : Inv s' := by
  refine ⟨?_, ?_, ?_⟩
  · refine linv_frame hi.l hd hpc hl (by rw [hw]; exact wm_lock hi.l hholds hw0) (det_same hi.l hd hdet ?_)
    intro x hx; rw [hwr] at hx; cases hx
  · exact hinv_frame hi.h hpc hsm.valL hsm.valR (fun x hx => by rw [← hdet]; exact hx) ha hdd
      (fun u w h => Or.inl (by rw [← hsn]; exact h)) (Or.inr hown) (fun v n h => absurd h (hdr v n))
  · exact chinv_lock hi.c hpc hsm hpar hrel hw0 hw hc hpd hsrc hU

/-- `t` releases the writer mutex with nothing pending (cancel, unwinding of a throwing lock()) -/
theorem inv_unlock {s s' : St} {t : Tid} {p' : Pc} (hi : Inv s) (hlr : s'.lr = s.lr) (hpc : s'.pc = upd s.pc t p')
    (hw0 : s.wm = some t) (hw : s'.wm = none) (hdet : s'.det = s.det) (ha : s'.alloc = s.alloc) (hdd : s'.dead = s.dead)
    (hpar : s'.parent = s.parent) (hsn : s'.snaps = s.snaps) (hrel : s'.released = s.released)
    (hcls : p'.cls = (s.pc t).cls) (hholds : p'.holds = false)
    (hown : p'.own = (s.pc t).own ∨ p'.own = none) (hdr : ∀ v n, p' ≠ .dr v n) (hc : p'.carry = none)
    (hpd : (s.pc t).pend = none) (hsrc : ∀ v, p' ≠ .lkH (some v)) (hU : ∀ v, p' ≠ .relU v) : Inv s' := by
  have hd : LR.Deleg s.lr s'.lr t := by rw [hlr]; exact LR.Deleg.refl _ _
  have hsm : LR.Same s.lr s'.lr := by rw [hlr]; exact LR.Same.refl _
  refine ⟨?_, ?_, ?_⟩
  · refine linv_frame hi.l hd hpc (by rw [hlr, hcls]; exact hi.l.link t) (by rw [hw]; exact wm_unlock hi.l hholds hw0)
      (det_same hi.l hd hdet ?_)
    intro x hx; rw [hlr]; exact hx
  · exact hinv_frame hi.h hpc hsm.valL hsm.valR (fun x hx => by rw [← hdet]; exact hx) ha hdd
      (fun u w h => Or.inl (by rw [← hsn]; exact h)) hown (fun v n h => absurd h (hdr v n))
  · exact chinv_unlock hi.c hpc hsm hpar hrel hw0 hw hc hpd hsrc hU

/-- `t` destroys version `o` (no LR step) -/
theorem inv_kill {s s' : St} {t : Tid} {p' : Pc} {o : Ver} (hi : Inv s) (hlr : s'.lr = s.lr) (hpc : s'.pc = upd s.pc t p')
    (hwm : s'.wm = s.wm) (hdet : s'.det = s.det) (ha : s'.alloc = s.alloc) (hdd : s'.dead = o :: s.dead)
    (hpar : s'.parent = s.parent) (hsn : s'.snaps = s.snaps) (hrel : s'.released = s.released)
    (hcls : p'.cls = (s.pc t).cls) (hholds : p'.holds = (s.pc t).holds)
    (hoa : o ∈ s.alloc) (hos : ∀ u, (u, o) ∉ s.snaps) (hox : ∀ x, s.det ≠ some x → s.sv x ≠ o)
    (hown : ∀ u v, (s'.pc u).own = some v → (s.pc u).own = some v ∧ v ≠ o) (hdr : ∀ v n, p' = .dr v n → s.pub v)
    (hcarry : p'.carry = (s.pc t).carry ∨ p'.carry = none) (hpend : p'.pend = (s.pc t).pend)
    (hsrc : ∀ v, p' ≠ .lkH (some v)) (hU : ∀ v, p' = .relU v → s.pc t = .relU v) : Inv s' := by
  have hd : LR.Deleg s.lr s'.lr t := by rw [hlr]; exact LR.Deleg.refl _ _
  have hsm : LR.Same s.lr s'.lr := by rw [hlr]; exact LR.Same.refl _
  refine ⟨?_, ?_, ?_⟩
  · refine linv_frame hi.l hd hpc (by rw [hlr, hcls]; exact hi.l.link t) (by rw [hwm]; exact wm_same hi.l hholds rfl)
      (det_same hi.l hd hdet ?_)
    intro x hx; rw [hlr]; exact hx
  · exact hinv_kill hi.h hpc hsm.valL hsm.valR hdet ha hdd hsn hoa hos hox hown hdr
  · exact chinv_frame hi.c hpc (fun v hv => (pub_congr hsm.valL hsm.valR v).mpr hv) hsm.committed hpar hrel hwm hcarry
      hpend (fun v h => absurd h (hsrc v)) hU

end ConcVerif.Cow
