/-! Pure list facts used by the DelayedDestructor proofs (core Lean only). -/
namespace ConcVerif.DD

/-- moving the selected elements out of a list neither loses nor duplicates anything -/
theorem count_split {α : Type} [BEq α] [LawfulBEq α] (vec : List α) (p : α → Bool) (k : α) :
    (vec.filter (fun j => !(vec.filter p).contains j)).count k + (vec.filter p).count k = vec.count k := by
  by_cases hp : p k = true
  · have h1 : (vec.filter p).count k = vec.count k := List.count_filter hp
    by_cases hk : k ∈ vec
    · have hs : k ∈ vec.filter p := List.mem_filter.mpr ⟨hk, hp⟩
      have h0 : (vec.filter (fun j => !(vec.filter p).contains j)).count k = 0 := by
        apply List.count_eq_zero.mpr
        intro hm
        have := (List.mem_filter.mp hm).2
        simp [hs] at this
      omega
    · have h0 : (vec.filter (fun j => !(vec.filter p).contains j)).count k = 0 :=
        List.count_eq_zero.mpr (fun hm => hk (List.mem_filter.mp hm).1)
      omega
  · have hs : k ∉ vec.filter p := fun hm => hp (List.mem_filter.mp hm).2
    have h1 : (vec.filter p).count k = 0 := List.count_eq_zero.mpr hs
    have h0 : (vec.filter (fun j => !(vec.filter p).contains j)).count k = vec.count k := by
      apply List.count_filter
      simp [hs]
    omega

/-- a filter of a list is duplicate-free when the selected elements occur once -/
theorem nodup_filter_of_count {α : Type} [BEq α] [LawfulBEq α] (vec : List α) (p : α → Bool)
    (h : ∀ k, p k = true → vec.count k ≤ 1) :
    (vec.filter p).Nodup := by
  induction vec with
  | nil => simp
  | cons a v ih =>
    have hv : ∀ k, p k = true → v.count k ≤ 1 := by
      intro k hk
      have := h k hk
      rw [List.count_cons] at this
      omega
    by_cases hp : p a = true
    · rw [List.filter_cons_of_pos hp]
      refine List.nodup_cons.mpr ⟨?_, ih hv⟩
      intro hm
      have h1 := h a hp
      rw [List.count_cons_self] at h1
      have : v.count a ≥ 1 := List.count_pos_iff.mpr (List.mem_filter.mp hm).1
      omega
    · rw [List.filter_cons_of_neg hp]; exact ih hv

theorem count_map_snd_erase (l : List (Nat × Nat)) (t k j : Nat) (h : (t, k) ∈ l) :
    ((l.erase (t, k)).map Prod.snd).count j = (l.map Prod.snd).count j - (if j = k then 1 else 0) := by
  induction l with
  | nil => cases h
  | cons a l ih =>
    by_cases ha : a = (t, k)
    · subst ha
      simp only [List.erase_cons_head, List.map_cons, List.count_cons]
      by_cases hj : j = k
      · subst hj; simp
      · have : ¬ (k == j) = true := by simpa using fun h => hj h.symm
        simp [hj, this]
    · have hm : (t, k) ∈ l := by
        cases h with
        | head => exact absurd rfl ha
        | tail _ h => exact h
      have hne : (a == (t, k)) = false := by simpa using ha
      rw [List.erase_cons_tail (by simp [hne])]
      simp only [List.map_cons, List.count_cons, ih hm]
      have : (l.map Prod.snd).count k ≥ 1 := by
        apply List.count_pos_iff.mpr
        exact List.mem_map.mpr ⟨(t, k), hm, rfl⟩
      by_cases hj : j = k
      · subst hj; simp; omega
      · simp [hj]

end ConcVerif.DD
