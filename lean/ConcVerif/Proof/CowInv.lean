import ConcVerif.Proof.CowStep
/-! `Inv` is preserved by every step of the cow model: one lemma per program counter, then `inv_step`. -/
namespace ConcVerif.Cow
open ConcVerif.LR (lk LK Side)

/-- side conditions of `inv_move` that only compare two concrete pcs -/
macro "cow_side" h:ident : tactic => `(tactic| simp [$h:ident, Pc.holds, Pc.own, Pc.carry, Pc.pend, Pc.cls])

theorem wr_none {s : St} (hi : Inv s) {t : Tid}
    (h : (s.pc t).cls = .idle ∨ (s.pc t).cls = .pre ∨ (s.pc t).cls = .hold ∨ ∃ op, (s.pc t).cls = .wR op) :
    (s.lr.pc t).writing = none := writing_none (by rw [hi.l.link t]; exact h)

theorem inv_idle {s s' : St} {t : Tid} {e : Ev} (hi : Inv s) (hp : s.pc t = .idle) (hs : step s t e = some s') : Inv s' := by
  simp only [step, hp] at hs
  cases e <;> (try (simp [stepIdle] at hs; done))
  case call c =>
    cases c <;> simp [stepIdle] at hs
    case lockShared k =>
      obtain ⟨l, hl, rfl⟩ := hs
      obtain ⟨_, hk, _⟩ := LR.step_call_ls hl
      refine inv_move hi (LR.Deleg.of_step hl) (LR.same_of_quiet rfl hl) rfl rfl rfl rfl rfl rfl (fun _ _ h => Or.inl h) rfl hk ?_
        (Or.inl (wr_none hi (by rw [hp]; simp [Pc.cls]))) ?_ ?_ ?_ ?_ ?_ ?_ <;> cow_side hp
    case lock =>
      subst hs
      refine inv_move_nolr hi ?_ ?_ ?_ ?_ ?_ ?_ ?_ ?_ <;> cow_side hp
    case cancelNull => subst hs; exact hi
    case drop v =>
      obtain ⟨hm, rfl⟩ := hs
      refine inv_move hi (LR.Deleg.refl _ _) (LR.Same.refl _) rfl rfl rfl rfl rfl rfl
        (fun u w hw => Or.inl (List.mem_of_mem_erase hw)) rfl (by have := hi.l.link t; rw [hp] at this; exact this) ?_
        (Or.inr rfl) ?_ ?_ ?_ ?_ ?_ ?_ <;> (try cow_side hp)
      exact (hi.h.snapsOk t v hm).1
  case ret c =>
    cases c <;> simp [stepIdle] at hs
    subst hs; exact hi
  case prd v c =>
    simp [stepIdle] at hs
    obtain ⟨_, rfl⟩ := hs; exact hi
  case fin vl vr c =>
    simp [stepIdle] at hs
    obtain ⟨_, rfl⟩ := hs; exact hi

theorem inv_rdA {s s' : St} {t : Tid} {e : Ev} {k : Nat} (hi : Inv s) (hp : s.pc t = .rdA k) (hs : step s t e = some s') :
    Inv s' := by
  simp only [step, hp] at hs
  have hk : lk (s.lr.pc t) = .pre := by rw [hi.l.link t, hp]; rfl
  have hw := wr_none hi (t := t) (by rw [hp]; simp [Pc.cls])
  cases e <;> (try (simp [stepRdA] at hs; done))
  case lr e =>
    cases e <;> simp [stepRdA] at hs
    case ldCL v =>
      obtain ⟨l, hl, rfl⟩ := hs
      refine inv_move hi (LR.Deleg.of_step hl) (LR.same_of_quiet rfl hl) rfl rfl rfl rfl rfl rfl (fun _ _ h => Or.inl h) rfl
        (LR.step_pre_ldCL hk hl) ?_ (Or.inl hw) ?_ ?_ ?_ ?_ ?_ ?_ <;> cow_side hp
    case inc c old =>
      obtain ⟨l, hl, rfl⟩ := hs
      refine inv_move hi (LR.Deleg.of_step hl) (LR.same_of_quiet rfl hl) rfl rfl rfl rfl rfl rfl (fun _ _ h => Or.inl h) rfl
        (LR.step_pre_inc hk hl) ?_ (Or.inl hw) ?_ ?_ ?_ ?_ ?_ ?_ <;> cow_side hp
    case ldRL x =>
      obtain ⟨l, hl, rfl⟩ := hs
      obtain ⟨hd, hsm, c, hc⟩ := LR.lrGot_spec hk hl
      refine inv_move hi hd hsm rfl rfl rfl rfl rfl rfl (fun _ _ h => Or.inl h) rfl (by simp [hc, lk, Pc.cls]) ?_ (Or.inl hw)
        ?_ ?_ ?_ ?_ ?_ ?_ <;> cow_side hp

theorem inv_rdH {s s' : St} {t : Tid} {e : Ev} {k : Nat} {g : Option Ver} (hi : Inv s) (hp : s.pc t = .rdH k g)
    (hs : step s t e = some s') : Inv s' := by
  simp only [step, hp] at hs
  have hk : lk (s.lr.pc t) = .hold := by rw [hi.l.link t, hp]; rfl
  have hw := wr_none hi (t := t) (by rw [hp]; simp [Pc.cls])
  cases e <;> (try (simp [stepRdH] at hs; done))
  case ldPtr x v =>
    simp [stepRdH] at hs
    obtain ⟨⟨rfl, rfl⟩, l, hl, rfl⟩ := hs
    obtain ⟨hd, hsm, c, hc, hc'⟩ := LR.lrRd_spec hl
    refine inv_move hi hd hsm rfl rfl rfl rfl rfl rfl ?_ rfl (by simp [hc', lk, Pc.cls]) ?_ (Or.inl hw)
      ?_ ?_ ?_ ?_ ?_ ?_ <;> (try cow_side hp)
    intro u w hm
    rcases hm with ⟨_, rfl⟩ | h1
    · exact Or.inr ⟨sv_pub s x, hi.h.sidesOk x (held_not_det hi.l hc)⟩
    · exact Or.inl h1
  case ldCtl x =>
    cases g with
    | none => simp [stepRdH] at hs
    | some v =>
      simp [stepRdH] at hs
      obtain ⟨l, hl, rfl⟩ := hs
      obtain ⟨hd, hsm, c, hc, hc'⟩ := LR.lrRd_spec hl
      refine inv_move hi hd hsm rfl rfl rfl rfl rfl rfl (fun _ _ h => Or.inl h) rfl (by simp [hc', lk, Pc.cls]) ?_ (Or.inl hw)
        ?_ ?_ ?_ ?_ ?_ ?_ <;> cow_side hp

theorem inv_rdP {s s' : St} {t : Tid} {e : Ev} {k : Nat} {v : Ver} (hi : Inv s) (hp : s.pc t = .rdP k v)
    (hs : step s t e = some s') : Inv s' := by
  simp only [step, hp] at hs
  have hk : lk (s.lr.pc t) = .hold := by rw [hi.l.link t, hp]; rfl
  have hw := wr_none hi (t := t) (by rw [hp]; simp [Pc.cls])
  cases e <;> (try (simp [stepRdP] at hs; done))
  case lr e =>
    cases e <;> simp [stepRdP] at hs
    obtain ⟨l, hl, rfl⟩ := hs
    obtain ⟨hd, hsm, hc⟩ := LR.lrRel_spec hk hl
    refine inv_move hi hd hsm rfl rfl rfl rfl rfl rfl (fun _ _ h => Or.inl h) rfl (by simp [hc, lk, Pc.cls]) ?_ (Or.inl hw)
      ?_ ?_ ?_ ?_ ?_ ?_ <;> cow_side hp

theorem inv_rdD {s s' : St} {t : Tid} {e : Ev} {k : Nat} {v : Ver} (hi : Inv s) (hp : s.pc t = .rdD k v)
    (hs : step s t e = some s') : Inv s' := by
  simp only [step, hp] at hs
  cases e <;> (try (simp [stepRdD] at hs; done))
  case retGot c v' =>
    cases c <;> simp [stepRdD] at hs
    obtain ⟨_, rfl⟩ := hs
    refine inv_move_nolr hi ?_ ?_ ?_ ?_ ?_ ?_ ?_ ?_ <;> cow_side hp

theorem own_not_pub {s : St} (hi : Inv s) {u : Tid} {w v : Ver} (hw : (s.pc u).own = some w) (hv : s.pub v) : w ≠ v :=
  fun e => (hi.h.ownOk u w hw).2.2 (e ▸ hv)

theorem inv_dr {s s' : St} {t : Tid} {e : Ev} {v : Ver} {n : Need} (hi : Inv s) (hp : s.pc t = .dr v n)
    (hs : step s t e = some s') : Inv s' := by
  simp only [step, hp] at hs
  have hpubv : s.pub v := hi.h.drPub t v n hp
  cases e <;> (try (simp [stepDr] at hs; done))
  case pdt v' =>
    simp [stepDr] at hs
    obtain ⟨⟨rfl, _, hnd, hrf⟩, rfl⟩ := hs
    obtain ⟨hox, hos⟩ := refd_false hrf
    refine inv_kill hi rfl rfl rfl rfl rfl rfl rfl rfl rfl ?_ ?_ (hi.h.pubAlloc _ hpubv) hos hox ?_ ?_ ?_ ?_ ?_ ?_ <;>
      (try cow_side hp)
    · intro u w hw
      by_cases hut : u = t
      · rw [hut] at hw; simp at hw
      · simp only [hut, if_false] at hw; exact ⟨hw, own_not_pub hi hw hpubv⟩
    · exact hpubv
  case ret c =>
    cases c <;> simp [stepDr] at hs
    obtain ⟨_, rfl⟩ := hs
    refine inv_move_nolr hi ?_ ?_ ?_ ?_ ?_ ?_ ?_ ?_ <;> cow_side hp

theorem inv_lkCalled {s s' : St} {t : Tid} {e : Ev} (hi : Inv s) (hp : s.pc t = .lkCalled) (hs : step s t e = some s') :
    Inv s' := by
  simp only [step, hp] at hs
  cases e <;> (try (simp [stepLkCalled] at hs; done))
  case olock =>
    simp [stepLkCalled] at hs
    obtain ⟨hw0, l, hl, rfl⟩ := hs
    obtain ⟨_, hk, _⟩ := LR.step_call_ls hl
    refine inv_lock hi (LR.Deleg.of_step hl) (LR.same_of_quiet rfl hl) rfl hw0 rfl rfl rfl rfl rfl rfl rfl hk ?_
      (wr_none hi (by rw [hp]; simp [Pc.cls])) ?_ ?_ ?_ ?_ ?_ ?_ <;> simp [Pc.holds, Pc.own, Pc.carry, Pc.pend]

theorem inv_lkA {s s' : St} {t : Tid} {e : Ev} (hi : Inv s) (hp : s.pc t = .lkA) (hs : step s t e = some s') : Inv s' := by
  simp only [step, hp] at hs
  have hk : lk (s.lr.pc t) = .pre := by rw [hi.l.link t, hp]; rfl
  have hw := wr_none hi (t := t) (by rw [hp]; simp [Pc.cls])
  cases e <;> (try (simp [stepLkA] at hs; done))
  case lr e =>
    cases e <;> simp [stepLkA] at hs
    case ldCL v =>
      obtain ⟨l, hl, rfl⟩ := hs
      refine inv_move hi (LR.Deleg.of_step hl) (LR.same_of_quiet rfl hl) rfl rfl rfl rfl rfl rfl (fun _ _ h => Or.inl h) rfl
        (LR.step_pre_ldCL hk hl) ?_ (Or.inl hw) ?_ ?_ ?_ ?_ ?_ ?_ <;> cow_side hp
    case inc c old =>
      obtain ⟨l, hl, rfl⟩ := hs
      refine inv_move hi (LR.Deleg.of_step hl) (LR.same_of_quiet rfl hl) rfl rfl rfl rfl rfl rfl (fun _ _ h => Or.inl h) rfl
        (LR.step_pre_inc hk hl) ?_ (Or.inl hw) ?_ ?_ ?_ ?_ ?_ ?_ <;> cow_side hp
    case ldRL x =>
      obtain ⟨l, hl, rfl⟩ := hs
      obtain ⟨hd, hsm, c, hc⟩ := LR.lrGot_spec hk hl
      refine inv_move hi hd hsm rfl rfl rfl rfl rfl rfl (fun _ _ h => Or.inl h) rfl (by simp [hc, lk, Pc.cls]) ?_ (Or.inl hw)
        ?_ ?_ ?_ ?_ ?_ ?_ <;> cow_side hp

theorem inv_lkH {s s' : St} {t : Tid} {e : Ev} {g : Option Ver} (hi : Inv s) (hp : s.pc t = .lkH g)
    (hs : step s t e = some s') : Inv s' := by
  simp only [step, hp] at hs
  have hk : lk (s.lr.pc t) = .hold := by rw [hi.l.link t, hp]; rfl
  have hw := wr_none hi (t := t) (by rw [hp]; simp [Pc.cls])
  have hwm : s.wm = some t := (hi.l.wmh t).mp (by rw [hp]; rfl)
  cases e <;> (try (simp [stepLkH] at hs; done))
  case ldPtr x v =>
    simp [stepLkH] at hs
    obtain ⟨⟨rfl, rfl⟩, l, hl, rfl⟩ := hs
    obtain ⟨hd, hsm, c, hc, hc'⟩ := LR.lrRd_spec hl
    have hq : s.lr.mtx = none := quiet_of_holder hi.l hwm (LR.lk_hold_not_post hk)
    refine inv_move hi hd hsm rfl rfl rfl rfl rfl rfl (fun _ _ h => Or.inl h) rfl (by simp [hc', lk, Pc.cls]) ?_ (Or.inl hw)
      ?_ ?_ ?_ ?_ ?_ ?_ <;> (try cow_side hp)
    simp [St.sv, val_committed hi.l hq x]
  case pcp new src c =>
    simp [stepLkH] at hs
    obtain ⟨⟨rfl, hnew, rfl⟩, rfl⟩ := hs
    refine ⟨?_, ?_, ?_⟩
    · refine linv_frame hi.l (LR.Deleg.refl _ _) rfl (by have := hi.l.link t; rw [hp] at this; exact this)
        (wm_same hi.l (by rw [hp]; rfl) rfl) (det_same (t := t) hi.l (LR.Deleg.refl _ _) rfl (fun x hx => hx))
    · exact hinv_pcp hi.h rfl rfl rfl rfl rfl rfl rfl hnew (by rw [hp]; rfl)
    · exact chinv_pcp hi.c hi.l hi.h hp rfl rfl rfl rfl rfl rfl rfl hnew
  case uth =>
    simp [stepLkH] at hs
    obtain ⟨_, rfl⟩ := hs
    refine inv_move_nolr hi ?_ ?_ ?_ ?_ ?_ ?_ ?_ ?_ <;> cow_side hp

/-- the LR read handle is released: `lkC v → lkD v`, `lkT → lkTD` -/
theorem inv_lkRel {s s' : St} {t : Tid} {p' : Pc} {c : Side} {old : Nat} {l : LR.St} (hi : Inv s)
    (hcls : (s.pc t).cls = .hold) (hl : lrRel s t c old = some l) (hs : (withLr s l).setPc t p' = s')
    (hp' : p'.cls = .idle) (hholds : p'.holds = (s.pc t).holds) (hown : p'.own = (s.pc t).own)
    (hdr : ∀ v n, p' ≠ .dr v n) (hcarry : p'.carry = (s.pc t).carry) (hpend : p'.pend = (s.pc t).pend)
    (hsrc : ∀ v, p' ≠ .lkH (some v)) (hU : ∀ v, p' ≠ .relU v) : Inv s' := by
  subst hs
  have hk : lk (s.lr.pc t) = .hold := by rw [hi.l.link t, hcls]
  obtain ⟨hd, hsm, hc⟩ := LR.lrRel_spec hk hl
  exact inv_move hi hd hsm rfl rfl rfl rfl rfl rfl (fun _ _ h => Or.inl h) rfl (by simp [hc, lk, hp']) hholds
    (Or.inl (wr_none hi (Or.inr (Or.inr (Or.inl hcls))))) (Or.inl hown) (fun v n h => absurd h (hdr v n)) (Or.inl hcarry) hpend
    (fun v h => absurd h (hsrc v)) (fun v h => absurd h (hU v))

theorem inv_lkC {s s' : St} {t : Tid} {e : Ev} {v : Ver} (hi : Inv s) (hp : s.pc t = .lkC v) (hs : step s t e = some s') :
    Inv s' := by
  simp only [step, hp] at hs
  cases e <;> (try (simp [stepLkC] at hs; done))
  case lr e =>
    cases e <;> simp [stepLkC] at hs
    obtain ⟨l, hl, hs⟩ := hs
    refine inv_lkRel hi (by rw [hp]; rfl) hl hs ?_ ?_ ?_ ?_ ?_ ?_ ?_ ?_ <;> cow_side hp

theorem inv_lkT {s s' : St} {t : Tid} {e : Ev} (hi : Inv s) (hp : s.pc t = .lkT) (hs : step s t e = some s') : Inv s' := by
  simp only [step, hp] at hs
  cases e <;> (try (simp [stepLkT] at hs; done))
  case lr e =>
    cases e <;> simp [stepLkT] at hs
    obtain ⟨l, hl, hs⟩ := hs
    refine inv_lkRel hi (by rw [hp]; rfl) hl hs ?_ ?_ ?_ ?_ ?_ ?_ ?_ ?_ <;> cow_side hp

theorem inv_lkD {s s' : St} {t : Tid} {e : Ev} {v : Ver} (hi : Inv s) (hp : s.pc t = .lkD v) (hs : step s t e = some s') :
    Inv s' := by
  simp only [step, hp] at hs
  cases e <;> (try (simp [stepLkD] at hs; done))
  case retGot c v' =>
    cases c <;> simp [stepLkD] at hs
    obtain ⟨_, rfl⟩ := hs
    refine inv_move_nolr hi ?_ ?_ ?_ ?_ ?_ ?_ ?_ ?_ <;> cow_side hp

theorem inv_lkTD {s s' : St} {t : Tid} {e : Ev} (hi : Inv s) (hp : s.pc t = .lkTD) (hs : step s t e = some s') : Inv s' := by
  simp only [step, hp] at hs
  cases e <;> (try (simp [stepLkTD] at hs; done))
  case ounlock =>
    simp [stepLkTD] at hs
    obtain ⟨hw0, rfl⟩ := hs
    refine inv_unlock hi rfl rfl hw0 rfl rfl rfl rfl rfl rfl rfl ?_ ?_ ?_ ?_ ?_ ?_ ?_ ?_ <;> cow_side hp

theorem inv_lkExc {s s' : St} {t : Tid} {e : Ev} (hi : Inv s) (hp : s.pc t = .lkExc) (hs : step s t e = some s') : Inv s' := by
  simp only [step, hp] at hs
  cases e <;> (try (simp [stepLkExc] at hs; done))
  case exc c =>
    cases c <;> simp [stepLkExc] at hs
    subst hs
    refine inv_move_nolr hi ?_ ?_ ?_ ?_ ?_ ?_ ?_ ?_ <;> cow_side hp

theorem inv_wHold {s s' : St} {t : Tid} {e : Ev} {v : Ver} (hi : Inv s) (hp : s.pc t = .wHold v) (hs : step s t e = some s') :
    Inv s' := by
  simp only [step, hp] at hs
  cases e <;> (try (simp [stepWHold] at hs; done))
  case call c =>
    cases c <;> simp [stepWHold] at hs
    case release =>
      obtain ⟨l, hl, rfl⟩ := hs
      obtain ⟨_, hk⟩ := LR.step_call_modify hl
      refine inv_move hi (LR.Deleg.of_step hl) (LR.same_of_quiet rfl hl) rfl rfl rfl rfl rfl rfl (fun _ _ h => Or.inl h) rfl
        hk ?_ (Or.inl (wr_none hi (by rw [hp]; simp [Pc.cls]))) ?_ ?_ ?_ ?_ ?_ ?_ <;> cow_side hp
    case cancel =>
      subst hs
      refine inv_move_nolr hi ?_ ?_ ?_ ?_ ?_ ?_ ?_ ?_ <;> cow_side hp
    case move => subst hs; exact hi
  case ret c =>
    cases c <;> simp [stepWHold] at hs
    subst hs; exact hi
  case pwr v' c =>
    simp [stepWHold] at hs
    obtain ⟨_, rfl⟩ := hs
    have hpc : s.pc = upd s.pc t (s.pc t) := (LR.upd_self s.pc t).symm
    refine inv_move hi (LR.Deleg.refl _ _) (LR.Same.refl _) hpc rfl rfl rfl rfl rfl (fun _ _ h => Or.inl h) rfl
      (hi.l.link t) rfl (Or.inr rfl) (Or.inl rfl) ?_ (Or.inl rfl) rfl ?_ ?_ <;> cow_side hp
  case prd v' c =>
    simp [stepWHold] at hs
    obtain ⟨_, rfl⟩ := hs; exact hi

/-- an assignment window is opened by the thread publishing (`stPtr`): pc unchanged -/
theorem inv_open {s s' : St} {t : Tid} {x : Side} {l : LR.St} (hi : Inv s) (hl : LR.step s.lr t (.fBegin x) = some l)
    (hs : ({ s with lr := l, det := some x } : St).setPc t (s.pc t) = s') : Inv s' := by
  subst hs
  obtain ⟨hw', hk', hpost, hw0, hsm⟩ := LR.step_fBegin hl
  have hd := LR.Deleg.of_step hl
  have hdn : s.det = none := det_none hi.l hpost hw0
  refine ⟨?_, ?_, ?_⟩
  · refine linv_frame hi.l hd rfl (by simp only [setPc_lr]; rw [hk']; exact hi.l.link t) (wm_same hi.l rfl rfl) ?_
    intro y hy
    simp only [setPc_det] at hy
    injection hy with hy
    subst hy
    exact ⟨t, hw'⟩
  · exact hinv_frame hi.h rfl hsm.valL hsm.valR (fun y _ => by rw [hdn]; simp) rfl rfl (fun _ _ h => Or.inl h)
      (Or.inl rfl) (fun v n h => hi.h.drPub t v n h)
  · exact chinv_frame hi.c rfl (fun v hv => (pub_congr hsm.valL hsm.valR v).mpr hv) hsm.committed rfl rfl rfl (Or.inl rfl) rfl
      (fun v h => hi.c.src t v h) (fun v h => h)

/-- the window on `x` is closed (`stCtl`): side `x` now points to `v`, the thread is at `relB v f` -/
theorem inv_close {s s' : St} {t : Tid} {x : Side} {v : Ver} {f : Bool} {l : LR.St} (hi : Inv s)
    (hdx : s.det = some x) (hl : LR.step s.lr t (.fEnd x (s.lr.val x ++ [v])) = some l)
    (hs : ({ s with lr := l, det := none } : St).setPc t (.relB v f) = s')
    (hlk : lk (l.pc t) = .wB v) (hholds : (s.pc t).holds = true)
    (hva : v ∈ s.alloc) (hvd : v ∉ s.dead) (hvo : ∀ u w, u ≠ t → (s.pc u).own = some w → w ≠ v)
    (hcarry : (Pc.relB v f).carry = (s.pc t).carry) (hpend : (Pc.relB v f).pend = (s.pc t).pend) : Inv s' := by
  subst hs
  obtain ⟨_, hw', hvx, hvy, hcm, _, _⟩ := LR.step_fEnd hl
  have hd := LR.Deleg.of_step hl
  have hpub : ∀ w, s.pub w → ({ s with lr := l, det := none } : St).pub w :=
    fun w hw => (pub_after_install (s := s) (s' := { s with lr := l, det := none }) hvx hvy w).mpr (Or.inl hw)
  refine ⟨?_, ?_, ?_⟩
  · refine linv_frame hi.l hd rfl (by simp only [setPc_lr]; exact hlk) (wm_same hi.l (by rw [hholds]; rfl) rfl) ?_
    intro y hy; simp at hy
  · refine hinv_install (x := x) (v := v) hi.h rfl hvx hvy hdx rfl rfl rfl hva hvd ?_ (by intro w n h; cases h)
    intro u w hw
    by_cases hut : u = t
    · rw [hut] at hw; simp [Pc.own] at hw
    · simp only [setPc_pc, hut, if_false] at hw; exact ⟨hw, hvo u w hut hw⟩
  · exact chinv_frame hi.c rfl hpub hcm rfl rfl rfl (Or.inl hcarry) hpend (by intro w h; cases h) (by intro w h; cases h)

theorem inv_relA {s s' : St} {t : Tid} {e : Ev} {v : Ver} (hi : Inv s) (hp : s.pc t = .relA v) (hs : step s t e = some s') :
    Inv s' := by
  simp only [step, hp] at hs
  have hk : lk (s.lr.pc t) = .wA v := by rw [hi.l.link t, hp]; rfl
  cases e <;> (try (simp [stepRelA] at hs; done))
  case lr e =>
    by_cases hlock : e = .lock
    · subst hlock
      simp [stepRelA] at hs
      obtain ⟨l, hl, rfl⟩ := hs
      obtain ⟨hk', _, _, hsm, hw0⟩ := LR.step_wA_lock hk hl
      refine inv_move hi (LR.Deleg.of_step hl) hsm rfl rfl rfl rfl rfl rfl (fun _ _ h => Or.inl h) rfl hk' ?_ (Or.inl hw0)
        ?_ ?_ ?_ ?_ ?_ ?_ <;> cow_side hp
    · have hs' : neutral e = true ∧ ∃ l, LR.step s.lr t e = some l ∧ (withLr s l).setPc t (.relA v) = s' := by
        cases e <;> simp [stepRelA, neutral] at hs hlock ⊢ <;> exact hs
      obtain ⟨hn, l, hl, rfl⟩ := hs'
      have := LR.step_wA_neutral hk hn hl
      subst this
      refine inv_move hi (LR.Deleg.refl _ _) (LR.Same.refl _) rfl rfl rfl rfl rfl rfl (fun _ _ h => Or.inl h) rfl hk ?_
        (Or.inr rfl) ?_ ?_ ?_ ?_ ?_ ?_ <;> cow_side hp
  case stPtr x v' =>
    simp [stepRelA] at hs
    obtain ⟨rfl, l, hl, hs⟩ := hs
    exact inv_open hi hl (by rw [hp]; exact hs)
  case stCtl x =>
    simp [stepRelA] at hs
    obtain ⟨⟨hdx, _⟩, l, hl, hs⟩ := hs
    obtain ⟨a1, a2, _⟩ := hi.h.ownOk t v (by rw [hp]; rfl)
    have hlk : lk (l.pc t) = .wB v := by
      obtain ⟨_, _, _, _, _, _, h7⟩ := LR.step_fEnd hl
      rcases h7 with ⟨op, h1, h2⟩ | ⟨op, h1, _⟩
      · rw [hk] at h1; injection h1 with h1; rw [h2, h1]
      · rw [hk] at h1; cases h1
    refine inv_close hi hdx hl hs hlk (by rw [hp]; rfl) a1 a2 ?_ (by rw [hp]; rfl) (by rw [hp]; rfl)
    intro u w hut hw
    exact fun e => hi.h.ownUniq u t v hut (e ▸ hw) (by rw [hp]; rfl)
  case ldCtl x =>
    simp [stepRelA] at hs
    obtain ⟨_, rfl⟩ := hs; exact hi

/-- while `t` is at `relB v f`, `v` is published, allocated and alive -/
theorem relB_facts {s : St} (hi : Inv s) {t : Tid} {v : Ver} {f : Bool} (hp : s.pc t = .relB v f) :
    s.pub v ∧ v ∈ s.alloc ∧ v ∉ s.dead := by
  obtain ⟨y, hy, hdy⟩ := relB_side hi.l hp
  have hpub : s.pub v := hy ▸ sv_pub s y
  exact ⟨hpub, hi.h.pubAlloc v hpub, hy ▸ hi.h.sidesOk y hdy⟩

theorem inv_relB {s s' : St} {t : Tid} {e : Ev} {v : Ver} {f : Bool} (hi : Inv s) (hp : s.pc t = .relB v f)
    (hs : step s t e = some s') : Inv s' := by
  simp only [step, hp] at hs
  have hk : lk (s.lr.pc t) = .wB v := by rw [hi.l.link t, hp]; rfl
  obtain ⟨hpubv, hva, hvd⟩ := relB_facts hi hp
  cases e <;> (try (simp [stepRelB] at hs; done))
  case lr e =>
    by_cases hst : ∃ y, e = .stRL y
    · obtain ⟨y, rfl⟩ := hst
      simp [stepRelB] at hs
      obtain ⟨rfl, l, hl, rfl⟩ := hs
      obtain ⟨hk', hcm, hL, hR, _, hw'⟩ := LR.step_wB_stRL hk hl
      have hd := LR.Deleg.of_step hl
      refine ⟨?_, ?_, ?_⟩
      · refine linv_frame hi.l hd rfl (by simp only [setPc_lr, withLr_lr]; exact hk') (wm_same hi.l (by rw [hp]; rfl) rfl)
          (det_same (t := t) hi.l hd rfl ?_)
        intro x hx
        have hpost : (s.lr.pc t).post = true := by cases hq : s.lr.pc t <;> simp [lk, hq] at hk <;> rfl
        have := LR.step_committed hl
        rcases this with h1 | ⟨op, l0, h1, _⟩
        · rw [hcm] at h1; simp at h1
        · rw [h1] at hx; simp [LR.Pc.writing] at hx
      · exact hinv_frame hi.h rfl hL hR (fun x hx => hx) rfl rfl (fun _ _ h => Or.inl h) (Or.inr rfl)
          (by intro w n h; cases h)
      · exact chinv_commit hi.c hi.l hp rfl hL hR hcm rfl rfl rfl hpubv
    · by_cases hun : e = .unlock
      · subst hun
        simp [stepRelB] at hs
        obtain ⟨rfl, l, hl, rfl⟩ := hs
        obtain ⟨hk', _, _, hsm, hw0⟩ := LR.step_wB_unlock hk hl
        refine inv_move hi (LR.Deleg.of_step hl) hsm rfl rfl rfl rfl rfl rfl (fun _ _ h => Or.inl h) rfl hk' ?_ (Or.inl hw0)
          ?_ ?_ ?_ ?_ ?_ ?_ <;> cow_side hp
      · have hs' : neutral e = true ∧ ∃ l, LR.step s.lr t e = some l ∧ (withLr s l).setPc t (.relB v f) = s' := by
          cases e <;> simp [stepRelB, neutral] at hs hst hun ⊢ <;> exact hs
        obtain ⟨hn, l, hl, rfl⟩ := hs'
        obtain ⟨hk', hw'⟩ := LR.step_wB_neutral hk hn hl
        refine inv_move hi (LR.Deleg.of_step hl) (LR.same_of_quiet (LR.neutral_quiet hn) hl) rfl rfl rfl rfl rfl rfl
          (fun _ _ h => Or.inl h) rfl hk' ?_ (Or.inr hw') ?_ ?_ ?_ ?_ ?_ ?_ <;> cow_side hp
  case stPtr x v' =>
    simp [stepRelB] at hs
    obtain ⟨rfl, l, hl, hs⟩ := hs
    exact inv_open hi hl (by rw [hp]; exact hs)
  case pdt o =>
    simp [stepRelB] at hs
    obtain ⟨⟨hwin, hnd, hrf⟩, rfl⟩ := hs
    obtain ⟨hox, hos⟩ := refd_false hrf
    have hpubo : s.pub o := by
      simp only [St.winRef] at hwin
      cases hd : s.det with
      | none => rw [hd] at hwin; simp at hwin
      | some x => rw [hd] at hwin; simp at hwin; exact hwin ▸ sv_pub s x
    have hpc : s.pc = upd s.pc t (s.pc t) := (LR.upd_self s.pc t).symm
    refine inv_kill hi rfl hpc rfl rfl rfl rfl rfl rfl rfl rfl rfl (hi.h.pubAlloc o hpubo) hos hox ?_ ?_ (Or.inl rfl) rfl ?_
      (fun _ h => h)
    · intro u w hw; exact ⟨hw, own_not_pub hi hw hpubo⟩
    · intro w n h; exact hi.h.drPub t w n h
    · intro w h; rw [hp] at h; cases h
  case stCtl x =>
    simp [stepRelB] at hs
    obtain ⟨⟨hdx, _⟩, l, hl, hs⟩ := hs
    have hlk : lk (l.pc t) = .wB v := by
      obtain ⟨_, _, _, _, _, _, h7⟩ := LR.step_fEnd hl
      rcases h7 with ⟨op, h1, _⟩ | ⟨op, h1, h2⟩
      · rw [hk] at h1; cases h1
      · rw [hk] at h1; injection h1 with h1; rw [h2, h1]
    refine inv_close hi hdx hl hs hlk (by rw [hp]; rfl) hva hvd ?_ (by rw [hp]) (by rw [hp])
    intro u w _ hw
    exact own_not_pub hi hw hpubv
  case ldCtl x =>
    simp [stepRelB] at hs
    obtain ⟨_, rfl⟩ := hs; exact hi

theorem inv_relC {s s' : St} {t : Tid} {e : Ev} {v : Ver} (hi : Inv s) (hp : s.pc t = .relC v) (hs : step s t e = some s') :
    Inv s' := by
  simp only [step, hp] at hs
  have hk : lk (s.lr.pc t) = .wR v := by rw [hi.l.link t, hp]; rfl
  cases e <;> (try (simp [stepRelC] at hs; done))
  case ounlock =>
    simp [stepRelC] at hs
    obtain ⟨hw0, l, hl, rfl⟩ := hs
    have hd := LR.Deleg.of_step hl
    have hsm := LR.same_of_quiet rfl hl
    have hidle := LR.step_wR_ret hk hl
    refine ⟨?_, ?_, ?_⟩
    · refine linv_frame hi.l hd rfl (by simp [hidle, lk, Pc.cls]) (wm_unlock hi.l rfl hw0) (det_same (t := t) hi.l hd rfl ?_)
      intro x hx
      rw [wr_none hi (Or.inr (Or.inr (Or.inr ⟨v, by rw [hp]; rfl⟩)))] at hx; cases hx
    · exact hinv_frame hi.h rfl hsm.valL hsm.valR (fun x hx => hx) rfl rfl (fun _ _ h => Or.inl h) (Or.inr rfl)
        (by intro w n h; cases h)
    · exact chinv_unlock_rel hi.c rfl hsm rfl rfl hw0 rfl (by rw [hp]; rfl)

theorem inv_relU {s s' : St} {t : Tid} {e : Ev} {v : Ver} (hi : Inv s) (hp : s.pc t = .relU v) (hs : step s t e = some s') :
    Inv s' := by
  simp only [step, hp] at hs
  cases e <;> (try (simp [stepRelU] at hs; done))
  case ret c =>
    cases c <;> simp [stepRelU] at hs
    subst hs
    refine inv_move_nolr hi ?_ ?_ ?_ ?_ ?_ ?_ ?_ ?_ <;> cow_side hp

theorem inv_cn {s s' : St} {t : Tid} {e : Ev} {v : Ver} {u d : Bool} (hi : Inv s) (hp : s.pc t = .cn v u d)
    (hs : step s t e = some s') : Inv s' := by
  simp only [step, hp] at hs
  cases e <;> (try (simp [stepCn] at hs; done))
  case ounlock =>
    simp [stepCn] at hs
    obtain ⟨⟨rfl, hw0⟩, rfl⟩ := hs
    refine inv_unlock hi rfl rfl hw0 rfl rfl rfl rfl rfl rfl rfl ?_ ?_ ?_ ?_ ?_ ?_ ?_ ?_ <;> (try cow_side hp)
    cases d <;> simp
  case pdt v' =>
    simp [stepCn] at hs
    obtain ⟨⟨rfl, _⟩, rfl⟩ := hs
    have hown : (s.pc t).own = some v := by rw [hp]; rfl
    obtain ⟨a1, _, a3⟩ := hi.h.ownOk t v hown
    refine inv_kill hi rfl rfl rfl rfl rfl rfl rfl rfl rfl ?_ ?_ a1 ?_ ?_ ?_ ?_ ?_ ?_ ?_ ?_ <;> (try cow_side hp)
    · cases u <;> simp
    · intro w hw; exact a3 (hi.h.snapsOk w v hw).1
    · intro x _ hx; exact a3 (hx ▸ sv_pub s x)
    · intro w z hw
      by_cases hwt : w = t
      · rw [hwt] at hw; simp at hw
      · simp only [hwt, if_false] at hw
        exact ⟨hw, fun e => hi.h.ownUniq w t v hwt (e ▸ hw) hown⟩
  case ret c =>
    cases c <;> simp [stepCn] at hs
    obtain ⟨⟨rfl, rfl⟩, rfl⟩ := hs
    refine inv_move_nolr hi ?_ ?_ ?_ ?_ ?_ ?_ ?_ ?_ <;> cow_side hp

theorem inv_step {s s' : St} {t : Tid} {e : Ev} (hi : Inv s) (hs : step s t e = some s') : Inv s' := by
  cases hp : s.pc t with
  | idle => exact inv_idle hi hp hs
  | rdA k => exact inv_rdA hi hp hs
  | rdH k g => exact inv_rdH hi hp hs
  | rdP k v => exact inv_rdP hi hp hs
  | rdD k v => exact inv_rdD hi hp hs
  | lkCalled => exact inv_lkCalled hi hp hs
  | lkA => exact inv_lkA hi hp hs
  | lkH g => exact inv_lkH hi hp hs
  | lkC v => exact inv_lkC hi hp hs
  | lkD v => exact inv_lkD hi hp hs
  | lkT => exact inv_lkT hi hp hs
  | lkTD => exact inv_lkTD hi hp hs
  | lkExc => exact inv_lkExc hi hp hs
  | wHold v => exact inv_wHold hi hp hs
  | relA v => exact inv_relA hi hp hs
  | relB v f => exact inv_relB hi hp hs
  | relC v => exact inv_relC hi hp hs
  | relU v => exact inv_relU hi hp hs
  | cn v u d => exact inv_cn hi hp hs
  | dr v n => exact inv_dr hi hp hs

theorem inv_run {s s' : St} {es : List (Tid × Ev)} (hi : Inv s) (hr : run s es = some s') : Inv s' :=
  runFrom_inv (fun _ _ _ _ h hst => inv_step h hst) hi hr

theorem inv_reachable {s : St} (h : Reachable s) : Inv s := by
  obtain ⟨b, es, hes⟩ := h
  exact inv_run (inv_init b) hes

theorem reachable_step {s s' : St} {t : Tid} {e : Ev} (h : Reachable s) (hs : step s t e = some s') : Reachable s' := by
  obtain ⟨b, es, hes⟩ := h
  refine ⟨b, es ++ [(t, e)], ?_⟩
  simp [run, runFrom_append] at hes ⊢
  rw [hes]; simp [runFrom_cons, hs]

end ConcVerif.Cow
