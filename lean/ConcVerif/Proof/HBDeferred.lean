import ConcVerif.Proof.DeferredO
import ConcVerif.Proof.HBUtil
/-! Connection of the `deferred_guarded` model to the happens-before layer: the payload of a queued
task (the closure pushed into `m_pendingList` under its mutex `qm`) reaches the draining thread
through `qm` alone — `unlock qm` of the submitter → `lock qm` of the drainer — so the memory orders of
the pending flag `m_pendingWrites` play no role for data-race freedom (`FlagOrds` is an arbitrary
parameter with no side condition).  They matter for LIVENESS only: the no-stranding theorem (C06)
is about interleavings in which the flag store is seen by the next `do_pending_writes`. -/
namespace ConcVerif.Deferred
open HB (HBeq KnA lq_lt lq_mono lq_snoc lq_last)

/-- memory orders of the two operations on `m_pendingWrites` (today's code: seq_cst) -/
structure FlagOrds where
  ld : HB.Ord := .sc
  st : HB.Ord := .sc

/-- happens-before content of a model event: `m` = mutex 0 (shared-capable), `qm` = mutex 1, the flag =
atomic 0, the wrapped object = plain location 0 -/
def toHB (o : FlagOrds) : Ev → HB.Ev
  | .mtl true => .acq 0 .X
  | .mul => .rel 0 .X
  | .slk => .acq 0 .S
  | .stl true => .acq 0 .S
  | .stf true => .acq 0 .S
  | .sul => .rel 0 .S
  | .fld _ => .ld 0 o.ld
  | .fst _ => .st 0 o.st
  | .qlk => .acq 1 .X
  | .qul => .rel 1 .X
  | .prd _ => .rd 0
  | .pwr _ => .wr 0
  | _ => .nop

def hbTrace (o : FlagOrds) (es : List (Tid × Ev)) : HB.Trace := es.map (fun p => (p.1, toHB o p.2))

theorem hbTrace_snoc (o : FlagOrds) (es : List (Tid × Ev)) (t : Tid) (e : Ev) :
    hbTrace o (es ++ [(t, e)]) = hbTrace o es ++ [(t, toHB o e)] := by simp [hbTrace]

theorem hbTrace_append (o : FlagOrds) (es ext : List (Tid × Ev)) :
    hbTrace o (es ++ ext) = hbTrace o es ++ hbTrace o ext := by simp [hbTrace]

@[simp] theorem hbTrace_length (o : FlagOrds) (es : List (Tid × Ev)) : (hbTrace o es).length = es.length := by
  simp [hbTrace]

theorem hbTrace_get {o : FlagOrds} {es : List (Tid × Ev)} {i : Nat} {t : Tid} {e : Ev} (h : es[i]? = some (t, e)) :
    (hbTrace o es)[i]? = some (t, toHB o e) := by simp [hbTrace, h]

/-! ### the events that touch the queue, the batch or the two mutexes -/

def Ev.qinert : Ev → Bool
  | .qlk | .qul | .ucb _ | .mtl _ | .mul => false
  | _ => true

theorem step_qinert {s s' : St} {t : Tid} {e : Ev} (hs : step s t e = some s') (he : e.qinert = true) :
    s'.queue = s.queue ∧ s'.batch = s.batch ∧ s'.qm = s.qm ∧ s'.mx = s.mx := by
  unfold step at hs
  split at hs
  all_goals (try split at hs)
  all_goals (try split at hs)
  all_goals (try split at hs)
  all_goals (try split at hs)
  all_goals (try contradiction)
  all_goals (try (injection hs with hs; subst hs))
  all_goals first | exact ⟨rfl, rfl, rfl, rfl⟩ | (simp [Ev.qinert] at he)

theorem qlk_inv {s s' : St} {t : Tid} (hs : step s t .qlk = some s') :
    s'.qm = some t ∧ s'.queue = s.queue ∧ s'.batch = s.batch ∧ s'.mx = s.mx := by
  cases hp : s.pc t <;> simp [step, hp] at hs
  all_goals (obtain ⟨_, h⟩ := hs; subst h; exact ⟨rfl, rfl, rfl, rfl⟩)

theorem qul_inv {s s' : St} {t : Tid} (hs : step s t .qul = some s') :
    s.qm = some t ∧ s'.qm = none ∧ s'.mx = s.mx ∧
      ((∃ k a, s.pc t = .qPush k a ∧ s'.queue = s.queue ++ [k] ∧ s'.batch = s.batch) ∨
       (∃ c, s.pc t = .dSwap c ∧ s'.batch = s.queue ∧ s'.queue = [])) := by
  cases hp : s.pc t <;> simp [step, hp] at hs
  · obtain ⟨h1, h⟩ := hs; subst h
    exact ⟨h1, rfl, rfl, .inl ⟨_, _, rfl, rfl, rfl⟩⟩
  · obtain ⟨⟨h1, _⟩, h⟩ := hs; subst h
    exact ⟨h1, rfl, rfl, .inr ⟨_, rfl, rfl, rfl⟩⟩

theorem ucb_inv {s s' : St} {t : Tid} {j : TaskId} (hs : step s t (.ucb j) = some s') :
    s'.qm = s.qm ∧ s'.queue = s.queue ∧ s'.mx = s.mx ∧ (∃ c, s.pc t = .dRun c) ∧
      ((∃ rest, s.batch = j :: rest ∧ s'.batch = rest) ∨
       (s.batch = [] ∧ s'.batch = [] ∧ ∃ a, s.pc t = .dRun (.mod j a))) := by
  cases hp : s.pc t <;> simp [step, hp] at hs
  rename_i c
  cases hb : s.batch with
  | cons b rest =>
    simp [hb] at hs
    obtain ⟨h1, h⟩ := hs; subst h; subst h1
    exact ⟨rfl, rfl, rfl, ⟨_, rfl⟩, .inl ⟨rest, rfl, rfl⟩⟩
  | nil =>
    simp [hb] at hs
    cases c with
    | mod k a =>
      simp at hs
      obtain ⟨h1, h⟩ := hs; subst h; subst h1
      exact ⟨rfl, rfl, rfl, ⟨_, rfl⟩, .inr ⟨rfl, rfl, a, rfl⟩⟩
    | sh c => simp at hs

theorem mtl_inv {s s' : St} {t : Tid} {ok : Bool} (hs : step s t (.mtl ok) = some s') :
    s'.qm = s.qm ∧ s'.queue = s.queue ∧ s'.batch = s.batch ∧
      ((ok = false ∧ s'.mx = s.mx) ∨ (ok = true ∧ s.mx = none ∧ s'.mx = some t)) := by
  cases hp : s.pc t <;> simp [step, hp] at hs
  all_goals
    obtain ⟨h1, h⟩ := hs
    cases ok
    · simp at h; subst h; exact ⟨rfl, rfl, rfl, .inl ⟨rfl, rfl⟩⟩
    · simp at h; subst h; exact ⟨rfl, rfl, rfl, .inr ⟨rfl, (tryX_true h1).1, rfl⟩⟩

theorem mul_inv {s s' : St} {t : Tid} (hs : step s t .mul = some s') :
    s'.qm = s.qm ∧ s'.queue = s.queue ∧ s'.batch = s.batch ∧ s'.mx = none := by
  cases hp : s.pc t <;> simp [step, hp] at hs
  · rename_i c; cases c <;> simp at hs
    obtain ⟨_, h⟩ := hs; subst h; exact ⟨rfl, rfl, rfl, rfl⟩
  · obtain ⟨_, h⟩ := hs; subst h; exact ⟨rfl, rfl, rfl, rfl⟩

/-! ### the push of a task and who knows it -/

/-- position `p` is the `unlock qm` that ends the push bracket of task `k`: the thread was at
`qPush k _` (inside `m_pendingList.lock()` … push_back … unlock) -/
def Pushed (spur : Bool) (es : List (Tid × Ev)) (p : Nat) (k : TaskId) : Prop :=
  ∃ s1 u a, run spur (es.take p) = some s1 ∧ s1.pc u = .qPush k a ∧ es[p]? = some (u, Ev.qul)

theorem Pushed.mono {spur : Bool} {es : List (Tid × Ev)} {p : Nat} {k : TaskId} (ext : List (Tid × Ev))
    (h : Pushed spur es p k) : Pushed spur (es ++ ext) p k := by
  obtain ⟨s1, u, a, h1, h2, h3⟩ := h
  refine ⟨s1, u, a, ?_, h2, lq_mono ext h3⟩
  rw [List.take_append_of_le_length (Nat.le_of_lt (lq_lt h3))]; exact h1

/-- the holder of `qm` knows the push of every queued task -/
def QA (spur : Bool) (o : FlagOrds) (es : List (Tid × Ev)) (queue : List TaskId) (qm : Option Tid) : Prop :=
  ∀ k ∈ queue, ∃ p, Pushed spur es p k ∧ ∀ d, qm = some d → KnA (hbTrace o es) d p

/-- the exclusive holder of `m` (the drainer) knows the push of every task of its batch -/
def QB (spur : Bool) (o : FlagOrds) (es : List (Tid × Ev)) (batch : List TaskId) (mx : Option Tid) : Prop :=
  ∀ k ∈ batch, ∃ p, Pushed spur es p k ∧ ∀ d, mx = some d → KnA (hbTrace o es) d p

theorem QA_mono {spur : Bool} {o : FlagOrds} {es : List (Tid × Ev)} {q : List TaskId} {m : Option Tid}
    (x : Tid × Ev) (h : QA spur o es q m) : QA spur o (es ++ [x]) q m := by
  intro k hk
  obtain ⟨p, h1, h2⟩ := h k hk
  exact ⟨p, h1.mono _, fun d hd => by rw [hbTrace_append]; exact (h2 d hd).mono _⟩

theorem QB_mono {spur : Bool} {o : FlagOrds} {es : List (Tid × Ev)} {b : List TaskId} {m : Option Tid}
    (x : Tid × Ev) (h : QB spur o es b m) : QB spur o (es ++ [x]) b m :=
  QA_mono x h

theorem q_step {spur : Bool} {o : FlagOrds} {es : List (Tid × Ev)} {s s' : St} {t : Tid} {e : Ev}
    (hr : run spur es = some s) (ha : QA spur o es s.queue s.qm) (hb : QB spur o es s.batch s.mx)
    (hs : step s t e = some s') :
    QA spur o (es ++ [(t, e)]) s'.queue s'.qm ∧ QB spur o (es ++ [(t, e)]) s'.batch s'.mx := by
  have hinv : Inv s := inv_reachable ⟨es, hr⟩
  by_cases hin : e.qinert = true
  · obtain ⟨a, b, c, d⟩ := step_qinert hs hin
    rw [a, b, c, d]; exact ⟨QA_mono _ ha, QB_mono _ hb⟩
  · cases e <;> simp [Ev.qinert] at hin
    case qlk =>
      obtain ⟨a, b, c, d⟩ := qlk_inv hs
      rw [a, b, c, d]
      refine ⟨?_, QB_mono _ hb⟩
      intro k hk
      obtain ⟨p, h1, _⟩ := ha k hk
      refine ⟨p, h1.mono _, ?_⟩
      intro d' hd'; injection hd' with hd'; subst hd'
      obtain ⟨_, u, _, _, _, h3⟩ := h1
      rw [hbTrace_snoc]
      have hlt : p < (hbTrace o es).length := by simp; exact lq_lt h3
      exact KnA.of_last (.inr (.sw (.mutex (md := .X) (md' := .X) hlt (HB.get_mono _ (hbTrace_get h3)) (HB.get_last _ _)
        (.inl rfl))))
    case qul =>
      obtain ⟨hq, a, c, h4⟩ := qul_inv hs
      rw [a, c]
      rcases h4 with ⟨k, a', hpc, h5, h6⟩ | ⟨c', hpc, h5, h6⟩
      · rw [h5, h6]
        refine ⟨?_, QB_mono _ hb⟩
        intro k' hk'
        rcases List.mem_append.1 hk' with hk' | hk'
        · obtain ⟨p, h1, _⟩ := ha k' hk'
          exact ⟨p, h1.mono _, fun d hd => by cases hd⟩
        · simp at hk'; subst hk'
          refine ⟨es.length, ⟨s, t, a', ?_, hpc, lq_last _ _⟩, fun d hd => by cases hd⟩
          rw [List.take_left' rfl]; exact hr
      · rw [h5, h6]
        refine ⟨(fun k hk => by cases hk), ?_⟩
        intro k hk
        obtain ⟨p, h1, h2⟩ := ha k hk
        refine ⟨p, h1.mono _, ?_⟩
        intro d hd
        have hx : s.mx = some t := (hinv.L.mxP t).2 (by rw [hpc]; rfl)
        rw [hx] at hd; injection hd with hd; subst hd
        rw [hbTrace_append]; exact (h2 _ hq).mono _
    case ucb j =>
      obtain ⟨a, b, c, _, h4⟩ := ucb_inv hs
      rw [a, b, c]
      refine ⟨QA_mono _ ha, ?_⟩
      rcases h4 with ⟨rest, h5, h6⟩ | ⟨_, h6, _⟩
      · rw [h6]; intro k hk
        exact QB_mono _ hb k (by rw [h5]; exact List.mem_cons_of_mem _ hk)
      · rw [h6]; intro k hk; cases hk
    case mtl ok =>
      obtain ⟨a, b, c, h4⟩ := mtl_inv hs
      rw [a, b, c]
      refine ⟨QA_mono _ ha, ?_⟩
      rcases h4 with ⟨_, h5⟩ | ⟨_, h5, h6⟩
      · rw [h5]; exact QB_mono _ hb
      · have : s.batch = [] := hinv.C.no_batch_unless (t := t) (.inl h5)
        rw [this]; intro k hk; cases hk
    case mul =>
      obtain ⟨a, b, c, d⟩ := mul_inv hs
      rw [a, b, c, d]
      refine ⟨QA_mono _ ha, ?_⟩
      intro k hk
      obtain ⟨p, h1, _⟩ := hb k hk
      exact ⟨p, h1.mono _, fun d hd => by cases hd⟩

theorem q_run {spur : Bool} {o : FlagOrds} {es : List (Tid × Ev)} {s : St} (h : run spur es = some s) :
    QA spur o es s.queue s.qm ∧ QB spur o es s.batch s.mx := by
  induction es using HB.snoc_induction generalizing s with
  | h0 =>
    simp [run] at h; subst h
    exact ⟨by intro k hk; simp [init] at hk, by intro k hk; simp [init] at hk⟩
  | hs es x ih =>
    obtain ⟨t, e⟩ := x
    simp only [run, runFrom_append] at h
    cases h1 : runFrom step (init spur) es with
    | none => simp [h1] at h
    | some s1 =>
      simp only [h1, Option.bind_some, runFrom_cons, runFrom_nil] at h
      cases h2 : step s1 t e with
      | none => simp [h2] at h
      | some s2 =>
        simp [h2] at h; subst h
        obtain ⟨a, b⟩ := ih h1
        exact q_step h1 a b h2

/-- **the drainer enters the function of a queued task only after that task's push**: either the
thread runs its own function on the direct path (the closure never left the thread), or the push
bracket of the task ended at some `p` that happens-before the entry — for ANY orders of the flag -/
theorem closure_hb {spur : Bool} (o : FlagOrds) {es : List (Tid × Ev)} {s s' : St} {t : Tid} {j : TaskId}
    (h : run spur es = some s) (hs : step s t (.ucb j) = some s') :
    (s.batch = [] ∧ ∃ a, s.pc t = .dRun (.mod j a)) ∨
    ∃ p, Pushed spur es p j ∧ HB.HB (hbTrace o (es ++ [(t, .ucb j)])) p es.length := by
  have hinv : Inv s := inv_reachable ⟨es, h⟩
  obtain ⟨_, _, _, ⟨c, hpc⟩, h4⟩ := ucb_inv hs
  rcases h4 with ⟨rest, h5, _⟩ | ⟨h5, _, h7⟩
  · right
    obtain ⟨p, h1, h2⟩ := (q_run (o := o) h).2 j (by rw [h5]; exact List.mem_cons_self)
    have hx : s.mx = some t := (hinv.L.mxP t).2 (by rw [hpc]; rfl)
    refine ⟨p, h1, ?_⟩
    have hk := (h2 t hx).to_last (toHB o (.ucb j))
    rw [hbTrace_length] at hk
    rw [hbTrace_snoc]; exact hk
  · exact .inl ⟨h5, h7⟩

end ConcVerif.Deferred
