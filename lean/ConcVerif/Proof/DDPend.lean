import ConcVerif.Proof.DDLife
/-! Every pending object (last reference gone, destructor not yet started) belongs to a `dying` frame of some thread:
nobody can forget to run a destructor. -/
namespace ConcVerif.DD

def dyK : Frame → List ObjId
  | .dying k => [k]
  | _ => []

def dyingOf : List Frame → List ObjId
  | [] => []
  | f :: fs => dyK f ++ dyingOf fs

@[simp] theorem dyingOf_nil : dyingOf [] = [] := rfl
@[simp] theorem dyingOf_cons (f fs) : dyingOf (f :: fs) = dyK f ++ dyingOf fs := rfl

/-- `s'` (the result of a silent loop of thread `t` started in `s` above the frames `rest`) adds pending objects only
together with their `dying` frame and keeps the `dying` frames of `rest` -/
structure Keeps (s s' : St) (t : Tid) (rest : List Frame) : Prop where
  pend : ∀ k, k ∈ s'.pend → k ∈ s.pend ∨ k ∈ dyingOf (s'.stk t)
  keep : ∀ k, k ∈ dyingOf rest → k ∈ dyingOf (s'.stk t)

theorem keeps_vdrain (s : St) (t rest) (v : List ObjId) : Keeps s (vdrain s t rest v) t rest := by
  induction v generalizing s with
  | nil => exact ⟨fun k hk => Or.inl hk, fun k hk => by simp [vdrain, dyK, hk]⟩
  | cons a v ih =>
    simp only [vdrain]; split
    · refine ⟨fun k hk => ?_, fun k hk => by simp [dyK, hk]⟩
      simp only [setStk_pend, List.mem_cons] at hk
      rcases hk with hk | hk
      · right; simp [dyK, hk]
      · exact Or.inl hk
    · have := ih { s with vec := v, vrel := a :: s.vrel }
      exact ⟨this.pend, this.keep⟩

theorem keeps_xTop (s : St) (t ii rest) : Keeps s (xTop s t ii rest) t rest := by
  unfold xTop; split
  · exact ⟨fun k hk => Or.inl hk, fun k hk => by simp [dyK, hk]⟩
  · exact ⟨fun k hk => Or.inl hk, fun k hk => by simp [dyK, hk]⟩

theorem keeps_xAfter (s : St) (t ii rest) : Keeps s (xAfter s t ii rest) t rest := by
  unfold xAfter; repeat' split
  all_goals exact ⟨fun k hk => Or.inl hk, fun k hk => by simp [dyK, hk]⟩

theorem keeps_dDone (s : St) (t r rest) : Keeps s (dDone s t r rest) t rest := by
  unfold dDone; split
  · exact ⟨fun k hk => Or.inl hk, fun k hk => by simpa [dyK] using hk⟩
  · rename_i ii rest'
    have := keeps_xAfter s t ii rest'
    exact ⟨this.pend, fun k hk => this.keep k (by simpa [dyK] using hk)⟩
  · rename_i rest'
    have := keeps_vdrain s t rest' s.vec
    exact ⟨this.pend, fun k hk => this.keep k (by simpa [dyK] using hk)⟩
  · exact ⟨fun k hk => Or.inl hk, fun k hk => by simp [dyK, hk]⟩

theorem keeps_drain (s : St) (t sz cbs thrown rest) (ec : List ObjId) :
    Keeps s (drain s t sz cbs thrown rest ec) t rest := by
  induction ec generalizing s with
  | nil =>
    simp only [drain]; split
    · exact keeps_dDone _ _ _ _
    · exact ⟨fun k hk => Or.inl hk, fun k hk => by simp [dyK, hk]⟩
  | cons a ec ih =>
    simp only [drain]; split
    · refine ⟨fun k hk => ?_, fun k hk => by simp [dyK, hk]⟩
      simp only [setStk_pend, List.mem_cons] at hk
      rcases hk with hk | hk
      · right; simp [dyK, hk]
      · exact Or.inl hk
    · have := ih { s with ecs := s.ecs.erase (t, a) }
      exact ⟨this.pend, this.keep⟩

theorem keeps_resume (s : St) (t fs) : Keeps s (resume s t fs) t fs := by
  unfold resume; split
  · rename_i sz ec cbs thrown rest
    have := keeps_drain s t sz cbs thrown rest ec
    exact ⟨this.pend, fun k hk => this.keep k (by simpa [dyK] using hk)⟩
  · rename_i rest
    have := keeps_vdrain s t rest s.vec
    exact ⟨this.pend, fun k hk => this.keep k (by simpa [dyK] using hk)⟩
  · exact ⟨fun k hk => Or.inl hk, fun k hk => by simpa using hk⟩

theorem keeps_setStk {s : St} (X : St) (t : Tid) (fs rest : List Frame) (hp : X.pend = s.pend)
    (hsub : ∀ k, k ∈ dyingOf rest → k ∈ dyingOf fs) : Keeps s (X.setStk t fs) t rest :=
  ⟨fun k hk => Or.inl (by simpa [hp] using hk), fun k hk => by simpa using hsub k hk⟩

theorem keeps_push {s : St} (X : St) (t : Tid) (k0 : ObjId) (fs : List Frame) (hp : X.pend = k0 :: s.pend) :
    Keeps s (X.setStk t (.dying k0 :: fs)) t fs := by
  refine ⟨fun k hk => ?_, fun k hk => by simp [dyK, hk]⟩
  simp only [setStk_pend, hp, List.mem_cons] at hk
  rcases hk with hk | hk
  · right; simp [dyK, hk]
  · exact Or.inl hk

theorem keeps_same {s s' : St} {t : Tid} {fs : List Frame} (hp : s'.pend = s.pend) (hs : s'.stk t = fs) :
    Keeps s s' t fs :=
  ⟨fun k hk => Or.inl (by simpa [hp] using hk), fun k hk => by rw [hs]; exact hk⟩

theorem Keeps.of_pend {X s s' : St} {t : Tid} {rest : List Frame} (h : Keeps X s' t rest) (hp : X.pend = s.pend) :
    Keeps s s' t rest :=
  ⟨fun k hk => by rw [← hp]; exact h.pend k hk, h.keep⟩

theorem keeps_stepUser {s s' : St} {t : Tid} {fs e} (h : stepUser s t fs e = some s') (hfs : s.stk t = fs) :
    Keeps s s' t fs := by
  unfold stepUser at h
  split at h
  all_goals (try (repeat' (split at h)))
  all_goals (first | cases h | skip)
  all_goals (first
    | exact keeps_same rfl hfs
    | exact keeps_push _ _ _ _ rfl
    | exact keeps_setStk _ _ _ _ rfl (fun k hk => by simp [dyK, hk])
    | (rename_i hc; obtain ⟨rfl, _⟩ := hc; exact (keeps_xTop _ _ _ _).of_pend rfl))

/-- weakening to a lower part of the stack -/
theorem Keeps.tail {s s' : St} {t : Tid} {f : Frame} {rest : List Frame} (h : Keeps s s' t (f :: rest)) :
    Keeps s s' t rest :=
  ⟨h.pend, fun k hk => h.keep k (by simp [hk])⟩

def PendStep (s s' : St) (t : Tid) : Prop :=
  (∀ k, k ∈ s'.pend → k ∈ s.pend ∨ k ∈ dyingOf (s'.stk t)) ∧
  (∀ k, k ∈ dyingOf (s.stk t) → k ∈ dyingOf (s'.stk t) ∨ k ∉ s'.pend)

theorem of_keeps {s s' : St} {t : Tid} {f : Frame} {rest : List Frame} (hK : Keeps s s' t rest)
    (heq : s.stk t = f :: rest) (hf : dyK f = []) : PendStep s s' t :=
  ⟨hK.pend, fun k hk => Or.inl (hK.keep k (by rw [heq] at hk; simpa [hf] using hk))⟩

theorem of_keeps_whole {s s' : St} {t : Tid} {fs : List Frame} (hK : Keeps s s' t fs) (heq : s.stk t = fs) :
    PendStep s s' t :=
  ⟨hK.pend, fun k hk => Or.inl (hK.keep k (by rw [heq] at hk; exact hk))⟩

theorem keeps_select (s : St) (t skip rest) : Keeps s (select s t skip rest) t rest := by
  unfold select; dsimp only; split
  · exact keeps_setStk _ _ _ _ rfl (fun k hk => by simp [dyK, hk])
  · exact keeps_setStk _ _ _ _ rfl (fun k hk => by simp [dyK, hk])

theorem pendStep_pdt {s : St} (t : Tid) (k0 : ObjId) (rest : List Frame) (heq : s.stk t = .dying k0 :: rest)
    (hnd : s.pend.Nodup) :
    PendStep s ({ s with pend := s.pend.erase k0, destroyed := k0 :: s.destroyed }.setStk t (.inDt k0 :: rest)) t := by
  refine ⟨fun k hk => Or.inl (List.mem_of_mem_erase hk), fun k hk => ?_⟩
  rw [heq] at hk
  simp only [dyingOf_cons, dyK, List.mem_append, List.mem_singleton] at hk
  rcases hk with hk | hk
  · right; subst hk
    simp only [setStk_pend]
    intro hm; exact ((hnd.mem_erase_iff).mp hm).1 rfl
  · left; simp [dyK, hk]

theorem step_pend {s s' : St} {t : Tid} {e} (h : step s t e = some s') (hnd : s.pend.Nodup) : PendStep s s' t := by
  unfold step at h
  split at h
  all_goals (first | exact of_keeps_whole (keeps_stepUser h (by assumption)) (by assumption) | skip)
  all_goals (try (repeat' (split at h)))
  all_goals (first | cases h | skip)
  all_goals (first
    | (rename_i hc; obtain ⟨rfl, _⟩ := hc; exact pendStep_pdt _ _ _ (by assumption) hnd)
    | (refine of_keeps ?_ (by assumption) rfl
       first
       | exact keeps_setStk _ _ _ _ rfl (fun k hk => by simp [dyK, hk])
       | exact (keeps_dDone _ _ _ _).of_pend rfl
       | exact (keeps_drain _ _ _ _ _ _ _).of_pend rfl
       | exact keeps_resume _ _ _
       | exact keeps_xTop _ _ _ _
       | exact keeps_select _ _ _ _)
    | skip)

def PendFr (s : St) : Prop := ∀ k, k ∈ s.pend → ∃ t, k ∈ dyingOf (s.stk t)

theorem pendFr_step {s s' : St} {t : Tid} {e} (hI : PendFr s) (hL : Life s) (h : step s t e = some s') :
    PendFr s' := by
  have hnd : s.pend.Nodup := (List.nodup_append.mp hL.nodup).1
  obtain ⟨h1, h2⟩ := step_pend h hnd
  intro k hk
  rcases h1 k hk with hk1 | hk1
  · obtain ⟨u, hu⟩ := hI k hk1
    by_cases hut : u = t
    · subst hut
      rcases h2 k hu with h3 | h3
      · exact ⟨u, h3⟩
      · exact absurd hk h3
    · exact ⟨u, by rw [step_stk_other h hut]; exact hu⟩
  · exact ⟨t, hk1⟩

theorem pendFr_init (cb ns nt) : PendFr (init cb ns nt) := by intro k hk; simp [init] at hk

theorem mem_dyingOf {fs : List Frame} {k : ObjId} (h : k ∈ dyingOf fs) : Frame.dying k ∈ fs := by
  induction fs with
  | nil => cases h
  | cons f fs ih =>
    simp only [dyingOf_cons, List.mem_append] at h
    rcases h with h | h
    · cases f <;> simp [dyK] at h
      subst h; exact List.mem_cons_self
    · exact List.mem_cons_of_mem _ (ih h)

theorem life_init (cb ns nt) : Life (init cb ns nt) := by
  refine ⟨fun k => ?_, fun k hk => by simp [init] at hk, by simp [init]⟩
  by_cases hnt : nt = 0
  · subst hnt; simp [init, refs]
  · simp [init, refs, hnt]

end ConcVerif.DD
