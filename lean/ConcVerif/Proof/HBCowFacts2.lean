import ConcVerif.Proof.HBCowOrder
/-! cow_guarded and happens-before, part 6: how a thread comes to own / to have loaded a version. -/
namespace ConcVerif.Cow
open ConcVerif.LR (Side)

variable {s s' : St} {t : Tid} {ce : Ev}

/-- pcs from which the payload of the private copy `v` is written or the copy is published -/
def Pc.hasV : Pc → Option Ver
  | .lkC v | .lkD v | .wHold v | .relA v | .relB v _ => some v
  | _ => none

theorem hasV_entry (hs : step s t ce = some s') {v : Ver} (h : (s'.pc t).hasV = some v) :
    (s.pc t).hasV = some v ∨ ∃ src k, ce = .pcp v src k := by
  cow_step_cases hs ce => first
    | (subst hs; simp_all [Pc.hasV]; done)
    | (obtain ⟨l, hl, rfl⟩ := hs; simp_all [Pc.hasV]; done)
    | (obtain ⟨_, l, hl, rfl⟩ := hs; simp_all [Pc.hasV]; done)
    | (obtain ⟨_, rfl⟩ := hs; simp_all [Pc.hasV]; done)
    | trace_state


theorem pre_entry (hs : step s t ce = some s') {v : Ver} (h : (s'.pc t).pre = some v) :
    (s.pc t).pre = some v ∨ ∃ src k, ce = .pcp v src k := by
  cow_step_cases hs ce => first
    | (subst hs; simp_all [Pc.pre]; done)
    | (obtain ⟨l, hl, rfl⟩ := hs; simp_all [Pc.pre]; done)
    | (obtain ⟨_, l, hl, rfl⟩ := hs; simp_all [Pc.pre]; done)
    | (obtain ⟨_, rfl⟩ := hs; simp_all [Pc.pre]; done)

theorem lkH_entry (hs : step s t ce = some s') {g : Ver} (h : s'.pc t = .lkH (some g)) :
    s.pc t = .lkH (some g) ∨ ∃ x, ce = .ldPtr x g := by
  cow_step_cases hs ce => first
    | (subst hs; simp_all; done)
    | (obtain ⟨l, hl, rfl⟩ := hs; simp_all; done)
    | (obtain ⟨_, l, hl, rfl⟩ := hs; simp_all; done)
    | (obtain ⟨_, rfl⟩ := hs; simp_all; done)

theorem snaps_entry (hs : step s t ce = some s') {u : Tid} {v : Ver} (h : (u, v) ∈ s'.snaps) :
    (u, v) ∈ s.snaps ∨ (u = t ∧ ∃ x, ce = .ldPtr x v) := by
  cow_step_cases hs ce => first
    | (subst hs; first | (left; exact h) | (left; exact List.mem_of_mem_erase h))
    | (obtain ⟨l, hl, rfl⟩ := hs; left; exact h)
    | (obtain ⟨_, l, hl, rfl⟩ := hs; first
        | (left; exact h)
        | (simp only [setPc_snaps, List.mem_cons] at h
           rcases h with h | h
           · right; injection h with h1 h2; subst h1; subst h2; exact ⟨rfl, _, rfl⟩
           · left; exact h))
    | (obtain ⟨_, rfl⟩ := hs; first | (left; exact h) | (left; exact List.mem_of_mem_erase h))

/-- publishing pcs keep their version -/
theorem rel_keep (hs : step s t ce = some s') {v v' : Ver} (h : s.pc t = .relA v ∨ ∃ f, s.pc t = .relB v f)
    (h' : s'.pc t = .relA v' ∨ ∃ f, s'.pc t = .relB v' f) : v' = v := by
  cow_step_cases hs ce => first
    | (subst hs; simp_all; done)
    | (obtain ⟨l, hl, rfl⟩ := hs; simp_all; done)
    | (obtain ⟨_, l, hl, rfl⟩ := hs; simp_all; done)
    | (obtain ⟨_, rfl⟩ := hs; simp_all; done)

/-- how a step changes the open assignment window -/
theorem det_cases (hs : step s t ce = some s') :
    s'.det = s.det ∨ (∃ x v, ce = .stPtr x v ∧ s'.det = some x) ∨ (∃ x, ce = .stCtl x ∧ s.det = some x ∧ s'.det = none) := by
  cow_step_cases hs ce => first
    | (subst hs; left; rfl)
    | (obtain ⟨l, hl, rfl⟩ := hs; left; rfl)
    | (obtain ⟨_, l, hl, rfl⟩ := hs; first
        | (left; rfl)
        | (right; left; exact ⟨_, _, rfl, rfl⟩)
        | (right; right; rename_i hd; exact ⟨_, rfl, hd.1, rfl⟩))
    | (obtain ⟨_, rfl⟩ := hs; left; rfl)


/-- only the store that closes an assignment window changes the value of a side -/
theorem val_frame (hs : step s t ce = some s') (hne : ∀ x, ce ≠ .stCtl x) (x : Side) : s'.lr.val x = s.lr.val x := by
  cow_step_cases hs ce => first
    | (subst hs; rfl)
    | (exact absurd rfl (hne _))
    | (obtain ⟨l, hl, rfl⟩ := hs; first
        | exact LR.step_val_keep x hl (by simp) (by simp)
        | exact (lrGot_same hl).val x | exact (lrRel_same hl).val x | exact (lrRd_same hl).val x)
    | (obtain ⟨_, l, hl, rfl⟩ := hs; first
        | exact LR.step_val_keep x hl (by simp) (by simp)
        | exact (lrGot_same hl).val x | exact (lrRel_same hl).val x | exact (lrRd_same hl).val x)
    | (obtain ⟨_, rfl⟩ := hs; rfl)

theorem val_stCtl {x : Side} (hs : step s t (.stCtl x) = some s') :
    ∃ v, (s.pc t = .relA v ∨ ∃ f, s.pc t = .relB v f) ∧ s'.lr.val x = s.lr.val x ++ [v] ∧
      s'.lr.val x.flip = s.lr.val x.flip ∧ s.det = some x := by
  cow_unf hs
  · obtain ⟨⟨h1, _⟩, l, hl, rfl⟩ := hs
    have := LR.step_fEnd hl
    exact ⟨_, .inl (by assumption), this.2.2.1, this.2.2.2.1, h1⟩
  · obtain ⟨⟨h1, _⟩, l, hl, rfl⟩ := hs
    have := LR.step_fEnd hl
    exact ⟨_, .inr ⟨_, by assumption⟩, this.2.2.1, this.2.2.2.1, h1⟩

end ConcVerif.Cow
