import ConcVerif.Proof.HBLRCls
/-! Left-right and happens-before, part 4: classification of the 36 model edges (`step_cls`). -/
namespace ConcVerif.LR

theorem pc_setPc (s : St) (t : Tid) (p : Pc) : (s.setPc t p).pc = upd s.pc t p := rfl

theorem stutter_ev {s s' : St} {e : Ev} (h : stutter s e = some s') :
    e.wrS = none ∧ (∀ x v, e ≠ .rd x v) ∧ ∀ v, e ≠ .stRL v := by
  refine ⟨?_, ?_, ?_⟩
  · cases e <;> simp [stutter] at h <;> rfl
  · intro x v hc; subst hc; simp [stutter] at h
  · intro v hc; subst hc; simp [stutter] at h

macro "ne_rd" : tactic => `(tactic| (intro _ _ hc; cases hc))
macro "ne_st" : tactic => `(tactic| (intro _ hc; cases hc))
macro "pcrfl" h:ident : tactic => `(tactic| (rw [$h:ident] <;> try rfl))

theorem step_cls {s s' : St} {t : Tid} {e : Ev} (h : Inv s) (hs : step s t e = some s') : Cls s t e s' := by
  unfold step at hs
  split at hs
  -- 1 idle, call ls
  · rename_i k hpc; injection hs with hs; subst hs
    exact .simple .rdCalled rfl rfl rfl (by pcrfl hpc) (.inr rfl) (.inl (by pcrfl hpc)) rfl (by ne_rd) (by ne_st)
  -- 2 rdCalled, ldCL
  · rename_i v hpc; split at hs
    · injection hs with hs; subst hs
      exact .simple (.rdCL v) rfl rfl rfl (by pcrfl hpc) (.inr rfl) (.inl (by pcrfl hpc)) rfl (by ne_rd) (by ne_st)
    · simp at hs
  -- 3 rdCL c, inc
  · rename_i c c' old hpc; split at hs
    · rename_i hg; obtain ⟨rfl, rfl⟩ := hg
      injection hs with hs; subst hs
      exact .simple (.rdInc c') (by simp) (by simp) (by rw [pc_setPc, setReg_pc]) (by pcrfl hpc) (.inr rfl)
        (.inl (by pcrfl hpc)) rfl (by ne_rd) (by ne_st)
    · simp at hs
  -- 4 rdInc c, ldRL v
  · rename_i c v hpc; split at hs
    · rename_i hv; subst hv
      injection hs with hs; subst hs
      exact .load c hpc rfl rfl rfl rfl
    · simp at hs
  -- 5 rdGot, ret
  · rename_i c x k hpc; injection hs with hs; subst hs
    exact .simple (.rdHold c x) rfl rfl rfl (by pcrfl hpc) (.inl (by pcrfl hpc)) (.inl (by pcrfl hpc)) rfl (by ne_rd)
      (by ne_st)
  -- 6 rdHold, rd
  · rename_i c x x' v hpc; split at hs
    · rename_i hg; obtain ⟨rfl, rfl⟩ := hg
      injection hs with hs; subst hs
      refine .frame (.rdHold c x') rfl rfl rfl (by pcrfl hpc) (fun _ _ => by rw [hpc])
        (fun c' hc => by rw [hpc] at hc; exact hc) ?_ ?_ (by ne_st)
      · intro y hy; simp [Ev.wrS] at hy
      · intro y v hy; injection hy with h1 _; subst h1
        exact ⟨by pcrfl hpc, fun hx => rfacts h hpc hx⟩
    · simp at hs
  -- 7 rdHold, call rel
  · rename_i c x hpc; injection hs with hs; subst hs
    exact .simple (.rdRel c x) rfl rfl rfl (by pcrfl hpc) (.inl (by pcrfl hpc)) (.inl (by pcrfl hpc)) rfl (by ne_rd)
      (by ne_st)
  -- 8 rdRel, dec
  · rename_i c x c' old hpc; split at hs
    · rename_i hg; obtain ⟨rfl, rfl⟩ := hg
      injection hs with hs; subst hs
      exact .dec c' x _ hpc rfl (by simp) (by simp) (by rw [pc_setPc, setReg_pc])
    · simp at hs
  -- 9 rdRelD, ret rel
  · rename_i hpc; injection hs with hs; subst hs
    exact .simple .idle rfl rfl rfl (by pcrfl hpc) (.inr rfl) (.inl (by pcrfl hpc)) rfl (by ne_rd) (by ne_st)
  -- 10 idle, call modify
  · rename_i op hpc; injection hs with hs; subst hs
    exact .simple (.wCalled op) rfl rfl rfl (by pcrfl hpc) (.inr rfl) (.inl (by pcrfl hpc)) rfl (by ne_rd) (by ne_st)
  -- 11 wCalled, lock
  · rename_i op hpc; split at hs
    · rename_i hm; injection hs with hs; subst hs
      exact .lock op hm rfl rfl rfl rfl (by pcrfl hpc)
    · simp at hs
  -- 12 wA, fBegin
  · rename_i op l x hpc; split at hs
    · rename_i hx; subst hx; injection hs with hs; subst hs
      exact .write (.wF1 op l) l.flip rfl rfl rfl (by pcrfl hpc) rfl (by intro c; rw [hpc]; exact not_zPend_pre)
        (fun _ => not_zPend_pre) rfl (wfacts_pre h (by pcrfl hpc) (by pcrfl hpc))
    · simp at hs
  -- 13 wA, uth
  · rename_i op l hpc; injection hs with hs; subst hs
    exact .simple (.wRb op l) rfl rfl rfl (by pcrfl hpc) (.inr rfl) (.inl (by pcrfl hpc)) rfl (by ne_rd) (by ne_st)
  -- 14 wF1, fEnd
  · rename_i op l x v hpc; split at hs
    · rename_i hg; obtain ⟨rfl, rfl⟩ := hg
      injection hs with hs; subst hs
      exact .write (.wF1d op l) l.flip (by simp) (by simp) (by rw [pc_setPc, setVal_pc]) (by pcrfl hpc) rfl
        (by intro c; rw [hpc]; exact not_zPend_pre) (fun _ => not_zPend_pre) rfl
        (wfacts_pre h (by pcrfl hpc) (by pcrfl hpc))
    · simp at hs
  -- 15 wF1, uth
  · rename_i op l hpc; injection hs with hs; subst hs
    exact .simple (.wRb op l) rfl rfl rfl (by pcrfl hpc) (.inr rfl) (.inl (by pcrfl hpc)) rfl (by ne_rd) (by ne_st)
  -- 16 wF1d, uth
  · rename_i op l hpc; injection hs with hs; subst hs
    exact .simple (.wRb op l) rfl rfl rfl (by pcrfl hpc) (.inr rfl) (.inl (by pcrfl hpc)) rfl (by ne_rd) (by ne_st)
  -- 17 wF1d, stRL
  · rename_i op l v hpc; split at hs
    · rename_i hv; subst hv; injection hs with hs; subst hs
      exact .flip op l hpc ((h.holder t).1 (by pcrfl hpc)) rfl rfl rfl rfl
    · simp at hs
  -- 18 wRb, cpBegin
  · rename_i op l x hpc; split at hs
    · rename_i hx; subst hx; injection hs with hs; subst hs
      exact .write (.wRbC op l) l.flip rfl rfl rfl (by pcrfl hpc) rfl (by intro c; rw [hpc]; exact not_zPend_pre)
        (fun _ => not_zPend_pre) rfl (wfacts_pre h (by pcrfl hpc) (by pcrfl hpc))
    · simp at hs
  -- 19 wRbC, cpEnd
  · rename_i op l x v hpc; split at hs
    · rename_i hg; obtain ⟨rfl, rfl⟩ := hg
      injection hs with hs; subst hs
      exact .write (.wRbD op l) l.flip (by simp) (by simp) (by rw [pc_setPc, setVal_pc]) (by pcrfl hpc) rfl
        (by intro c; rw [hpc]; exact not_zPend_pre) (fun _ => not_zPend_pre) rfl
        (wfacts_pre h (by pcrfl hpc) (by pcrfl hpc))
    · simp at hs
  -- 20 wRbD, unlock
  · rename_i op l hpc; split at hs
    · rename_i hm; injection hs with hs; subst hs
      exact .unlock (.wExc op false) hm rfl rfl rfl rfl rfl (by pcrfl hpc) (by intro c; rw [hpc]; exact not_zPend_pre)
    · simp at hs
  -- 21 wWait, ldCnt
  · rename_i op l zL zR c v hpc; split at hs
    · rename_i hv; subst hv
      split at hs
      · rename_i hz; injection hs with hs; subst hs
        exact .zero op l zL zR c hpc ((h.holder t).1 (by pcrfl hpc)) (by rw [hz]) (List.length_eq_zero_iff.1 hz)
          rfl rfl rfl
      · split at hs
        · simp at hs
        · injection hs with hs; subst hs
          exact .same rfl rfl rfl rfl (by ne_rd) (by ne_st)
    · simp at hs
  -- 22 wWait, yld
  · injection hs with hs; subst hs
    exact .same rfl rfl rfl rfl (by ne_rd) (by ne_st)
  -- 23 wWait, stCL
  · injection hs with hs; subst hs
    exact .same rfl rfl rfl rfl (by ne_rd) (by ne_st)
  -- 24 wWait, fBegin
  · rename_i op l zL zR x hpc; split at hs
    · rename_i hg; obtain ⟨rfl, rfl, rfl⟩ := hg
      injection hs with hs; subst hs
      exact .write _ _ rfl rfl rfl (by pcrfl hpc) rfl (by intro c; rw [hpc]; exact not_zPend_tt)
        (by intro c; exact not_zPend_post2) rfl (wfacts_post2 h (by pcrfl hpc) (.inr (by pcrfl hpc)))
    · simp at hs
  -- 25 wWait, uth
  · rename_i op l zL zR hpc; split at hs
    · rename_i hg; obtain ⟨rfl, rfl⟩ := hg
      injection hs with hs; subst hs
      exact .simple (.wRf op l) rfl rfl rfl (by pcrfl hpc) (.inr rfl)
        (.inr (by intro c; rw [hpc]; exact not_zPend_tt)) rfl (by ne_rd) (by ne_st)
    · simp at hs
  -- 26 wF2, fEnd
  · rename_i op l x v hpc; split at hs
    · rename_i hg; obtain ⟨rfl, rfl⟩ := hg
      injection hs with hs; subst hs
      exact .write _ _ (by simp) (by simp) (by rw [pc_setPc, setVal_pc]) (by pcrfl hpc) rfl
        (by intro c; rw [hpc]; exact not_zPend_post2) (by intro c; exact not_zPend_post2) rfl
        (wfacts_post2 h (by pcrfl hpc) (.inl (by pcrfl hpc)))
    · simp at hs
  -- 27 wF2, uth
  · rename_i op l hpc; injection hs with hs; subst hs
    exact .simple (.wRf op l) rfl rfl rfl (by pcrfl hpc) (.inr rfl) (.inl (by pcrfl hpc)) rfl (by ne_rd) (by ne_st)
  -- 28 wF2d, uth
  · rename_i op l hpc; injection hs with hs; subst hs
    exact .simple (.wRf op l) rfl rfl rfl (by pcrfl hpc) (.inr rfl) (.inl (by pcrfl hpc)) rfl (by ne_rd) (by ne_st)
  -- 29 wF2d, unlock
  · rename_i op l hpc; split at hs
    · rename_i hm; injection hs with hs; subst hs
      exact .unlock (.wRet op) hm rfl rfl rfl rfl rfl (by pcrfl hpc) (by intro c; rw [hpc]; exact not_zPend_post2)
    · simp at hs
  -- 30 wRf, cpBegin
  · rename_i op l x hpc; split at hs
    · rename_i hx; subst hx; injection hs with hs; subst hs
      exact .write _ _ rfl rfl rfl (by pcrfl hpc) rfl (by intro c; rw [hpc]; exact not_zPend_post2)
        (by intro c; exact not_zPend_post2) rfl (wfacts_post2 h (by pcrfl hpc) (.inl (by pcrfl hpc)))
    · simp at hs
  -- 31 wRfC, cpEnd
  · rename_i op l x v hpc; split at hs
    · rename_i hg; obtain ⟨rfl, rfl⟩ := hg
      injection hs with hs; subst hs
      exact .write _ _ (by simp) (by simp) (by rw [pc_setPc, setVal_pc]) (by pcrfl hpc) rfl
        (by intro c; rw [hpc]; exact not_zPend_post2) (by intro c; exact not_zPend_post2) rfl
        (wfacts_post2 h (by pcrfl hpc) (.inl (by pcrfl hpc)))
    · simp at hs
  -- 32 wRfD, unlock
  · rename_i op l hpc; split at hs
    · rename_i hm; injection hs with hs; subst hs
      exact .unlock (.wExc op true) hm rfl rfl rfl rfl rfl (by pcrfl hpc) (by intro c; rw [hpc]; exact not_zPend_post2)
    · simp at hs
  -- 33 wRet, ret
  · rename_i op op' hpc; split at hs
    · injection hs with hs; subst hs
      exact .simple .idle rfl rfl rfl (by pcrfl hpc) (.inr rfl) (.inl (by pcrfl hpc)) rfl (by ne_rd) (by ne_st)
    · simp at hs
  -- 34 wExc, exc
  · rename_i op fwd op' hpc; split at hs
    · injection hs with hs; subst hs
      exact .simple .idle rfl rfl rfl (by pcrfl hpc) (.inr rfl) (.inl (by pcrfl hpc)) rfl (by ne_rd) (by ne_st)
    · simp at hs
  -- 35 idle, fin
  · split at hs
    · injection hs with hs; subst hs
      exact .same rfl rfl rfl rfl (by ne_rd) (by ne_st)
    · simp at hs
  -- 36 redundant loads
  · split at hs
    · have he := stutter_ev hs
      rw [stutter_eq hs]
      exact .same rfl rfl rfl he.1 he.2.1 he.2.2
    · simp at hs

end ConcVerif.LR
