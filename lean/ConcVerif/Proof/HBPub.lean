import ConcVerif.Proof.HB
/-! Publication through an atomic (release store / RMW chain → acquire load), and the converse: weak
orders give no edge. -/
namespace ConcVerif.HB

/-- `e` writes atomic `a` (store or RMW) -/
def IsWrite (e : Ev) (a : Loc) : Prop := ∃ o, e = .st a o ∨ e = .rmw a o

/-- the load / RMW at `l` reads from the write at `w`: the latest write of `a` before `l`
(the harness is sequentially consistent: every read returns the latest write in trace order) -/
def ReadsFrom (tr : Trace) (a : Loc) (w l : Nat) : Prop :=
  w < l ∧ (∃ v e, tr[w]? = some (v, e) ∧ IsWrite e a) ∧
  ∀ k v e, w < k → k < l → tr[k]? = some (v, e) → ¬ IsWrite e a

/-- the write at `w` belongs to the release sequence headed by the write at `k` (C++20): every write
of `a` after `k` up to and including `w` is a read-modify-write -/
def InRelSeq (tr : Trace) (a : Loc) (k w : Nat) : Prop :=
  k ≤ w ∧ ∀ k' v o, k < k' → k' ≤ w → tr[k']? ≠ some (v, .st a o)

/-- **Publication.**  Whatever thread `t` did (at `i`) before a releasing write (at `k`) of atomic `a`
happens before whatever thread `u` does (at `j`) after an acquiring read (at `l`) of `a` that reads
from that write or from a write of its release sequence. -/
theorem publication {tr : Trace} {a : Loc} {i k w l j : Nat} {t u : Tid} {ei ew er ej : Ev}
    (hik : i < k) (hlj : l < j) (hi : tr[i]? = some (t, ei)) (hk : tr[k]? = some (t, ew)) (hrel : RelWrite ew a)
    (hseq : InRelSeq tr a k w) (hrf : ReadsFrom tr a w l) (hl : tr[l]? = some (u, er)) (hacq : AcqRead er a)
    (hj : tr[j]? = some (u, ej)) : HB tr i j := by
  have hkl : k < l := by have := hseq.1; have := hrf.1; omega
  have hsw : Sw tr k l := by
    refine .atomic hkl hk hl hrel hacq ?_
    intro k' v o h1 h2
    by_cases hw : k' ≤ w
    · exact hseq.2 k' v o h1 hw
    · intro hc
      exact hrf.2.2 k' v _ (by omega) h2 hc ⟨o, .inl rfl⟩
  exact .trans (.po hik hi hk) (.trans (.sw hsw) (.po hlj hl hj))

/-- a non-releasing store gives no synchronises-with edge (other than its thread being joined) -/
theorem sw_weak_store {tr : Trace} {i j : Nat} {t : Tid} {a : Loc} {o : Ord} (hi : tr[i]? = some (t, .st a o))
    (ho : o.isRel = false) (h : Sw tr i j) : ∃ v, tr[j]? = some (v, .join t) := by
  cases h with
  | mutex _ h1 _ _ => rw [hi] at h1; injection h1 with h1; injection h1 with _ h1; cases h1
  | atomic _ h1 _ hr _ _ =>
    rw [hi] at h1; injection h1 with h1; injection h1 with _ h1; subst h1
    obtain ⟨o', ho', h2⟩ := hr
    cases h2 with
    | inl h2 => injection h2 with _ h2; subst h2; rw [ho] at ho'; cases ho'
    | inr h2 => cases h2
  | fork _ h1 _ => rw [hi] at h1; injection h1 with h1; injection h1 with _ h1; cases h1
  | join _ h1 h2 => rw [hi] at h1; injection h1 with h1; injection h1 with h1 _; subst h1; exact ⟨_, h2⟩
  | forkJoin _ h1 _ => rw [hi] at h1; injection h1 with h1; injection h1 with _ h1; cases h1

/-- a non-acquiring load gives no synchronises-with edge (other than the creation of its thread) -/
theorem sw_weak_load {tr : Trace} {i j : Nat} {u : Tid} {a : Loc} {o : Ord} (hj : tr[j]? = some (u, .ld a o))
    (ho : o.isAcq = false) (h : Sw tr i j) : ∃ v, tr[i]? = some (v, .fork u) := by
  cases h with
  | mutex _ _ h2 _ => rw [hj] at h2; injection h2 with h2; injection h2 with _ h2; cases h2
  | atomic _ _ h2 _ hr _ =>
    rw [hj] at h2; injection h2 with h2; injection h2 with _ h2; subst h2
    obtain ⟨o', ho', h3⟩ := hr
    cases h3 with
    | inl h3 => injection h3 with _ h3; subst h3; rw [ho] at ho'; cases ho'
    | inr h3 => cases h3
  | fork _ h1 h2 => rw [hj] at h2; injection h2 with h2; injection h2 with h2 _; subst h2; exact ⟨_, h1⟩
  | join _ _ h2 => rw [hj] at h2; injection h2 with h2; injection h2 with _ h2; cases h2
  | forkJoin _ _ h2 => rw [hj] at h2; injection h2 with h2; injection h2 with _ h2; cases h2

/-- In a trace without mutex acquisitions, thread creation / join and releasing writes, happens-before
is just program order: weak atomics order nothing. -/
theorem hb_po_of_no_release {tr : Trace}
    (hno : ∀ (i : Nat) (t : Tid) (e : Ev), tr[i]? = some (t, e) →
      (∀ m md, e ≠ .acq m md) ∧ (∀ u, e ≠ .fork u) ∧ (∀ u, e ≠ .join u) ∧ (∀ a, ¬ RelWrite e a))
    {i j : Nat} (h : HB tr i j) : ∃ t ei ej, tr[i]? = some (t, ei) ∧ tr[j]? = some (t, ej) := by
  induction h with
  | po _ h1 h2 => exact ⟨_, _, _, h1, h2⟩
  | sw h =>
    cases h with
    | mutex _ _ h2 _ => exact absurd rfl ((hno _ _ _ h2).1 _ _)
    | atomic _ h1 _ hr _ _ => exact absurd hr ((hno _ _ _ h1).2.2.2 _)
    | fork _ h1 _ => exact absurd rfl ((hno _ _ _ h1).2.1 _)
    | join _ _ h2 => exact absurd rfl ((hno _ _ _ h2).2.2.1 _)
    | forkJoin _ h1 _ => exact absurd rfl ((hno _ _ _ h1).2.1 _)
  | trans _ _ ih1 ih2 =>
    obtain ⟨t, ei, ej, h1, h2⟩ := ih1
    obtain ⟨t', ej', ek, h3, h4⟩ := ih2
    rw [h2] at h3; injection h3 with h3; injection h3 with h3 _; subst h3
    exact ⟨t, ei, ek, h1, h4⟩

end ConcVerif.HB
